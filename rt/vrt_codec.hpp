// Run-time support for the generated codec drivers: token input, canonical
// value printing, value construction from bit patterns, recording visitor.
#pragma once
#include <sbepp/sbepp.hpp>

#include <cstdio>
#include <cstdint>
#include <cstdlib>
#include <cstring>
#include <string>
#include <vector>
#include <type_traits>

namespace vrt
{
// ---------------------------------------------------------------- output
inline std::string& out()
{
    static std::string s;
    return s;
}
inline void flush_out()
{
    std::fwrite(out().data(), 1, out().size(), stdout);
    std::fflush(stdout);
    out().clear();
}
inline void line(const std::string& s)
{
    out() += s;
    out() += '\n';
    if(out().size() > (1u << 16))
        flush_out();
}
inline std::string hex(const void* p, std::size_t n)
{
    static const char* d = "0123456789abcdef";
    const unsigned char* b = static_cast<const unsigned char*>(p);
    std::string s;
    s.reserve(2 * n);
    for(std::size_t i = 0; i < n; i++)
    {
        s += d[b[i] >> 4];
        s += d[b[i] & 15];
    }
    return s;
}
inline std::vector<unsigned char> unhex(const std::string& s)
{
    std::vector<unsigned char> v;
    auto nib = [](char c) -> int { return c <= '9' ? c - '0' : (c | 32) - 'a' + 10; };
    for(std::size_t i = 0; i + 1 < s.size(); i += 2)
        v.push_back(static_cast<unsigned char>(nib(s[i]) * 16 + nib(s[i + 1])));
    return v;
}

template<typename T>
inline std::string bits_hex(T v)
{
    // value -> big-endian hex of its object representation width
    typename std::conditional<sizeof(T) == 8, std::uint64_t,
        typename std::conditional<sizeof(T) == 4, std::uint32_t,
            typename std::conditional<sizeof(T) == 2, std::uint16_t, std::uint8_t>::type>::type>::type u;
    static_assert(sizeof(u) == sizeof(T), "size");
    std::memcpy(&u, &v, sizeof u);
    char buf[20];
    std::snprintf(buf, sizeof buf, "%0*llx", int(2 * sizeof(T)), static_cast<unsigned long long>(u));
    return buf;
}

template<typename T>
inline T from_bits(unsigned long long b)
{
    typename std::conditional<sizeof(T) == 8, std::uint64_t,
        typename std::conditional<sizeof(T) == 4, std::uint32_t,
            typename std::conditional<sizeof(T) == 2, std::uint16_t, std::uint8_t>::type>::type>::type u
        = static_cast<decltype(u)>(b);
    T v;
    std::memcpy(&v, &u, sizeof v);
    return v;
}

// ---------------------------------------------------------------- tokens
struct tokens
{
    std::vector<std::string> t;
    std::size_t i = 0;
    bool underflow = false;
    const std::string& next()
    {
        static const std::string empty = "0";
        if(i >= t.size())
        {
            underflow = true;
            return empty;
        }
        return t[i++];
    }
    unsigned long long u64()
    {
        return std::strtoull(next().c_str(), nullptr, 16);
    }
    std::vector<unsigned char> bytes()
    {
        const std::string& s = next();
        if(s == "-")
            return {};
        return unhex(s);
    }
};

inline std::vector<std::string> split(const std::string& s)
{
    std::vector<std::string> v;
    std::size_t i = 0;
    while(i < s.size())
    {
        while(i < s.size() && s[i] == ' ')
            i++;
        std::size_t j = i;
        while(j < s.size() && s[j] != ' ')
            j++;
        if(j > i)
            v.push_back(s.substr(i, j - i));
        i = j;
    }
    return v;
}

// ---------------------------------------------------------------- value kinds
template<typename V, typename = void>
struct kind_of
{
    static const int value = 0; // raw arithmetic (numeric constants)
};
template<typename V>
struct kind_of<V, typename std::enable_if<sbepp::is_non_array_type<V>::value>::type>
{
    static const int value = 1; // required/optional wrapper
};
template<typename V>
struct kind_of<V, typename std::enable_if<sbepp::is_enum<V>::value>::type>
{
    static const int value = 2;
};
template<typename V>
struct kind_of<V, typename std::enable_if<sbepp::is_set<V>::value>::type>
{
    static const int value = 3;
};
template<typename V>
struct kind_of<V, typename std::enable_if<sbepp::is_array_type<V>::value>::type>
{
    static const int value = 4;
};
template<typename V>
struct kind_of<V, typename std::enable_if<sbepp::is_data<V>::value>::type>
{
    static const int value = 5;
};

template<int K>
struct kind_tag
{
};

// make a value-semantics object from a bit pattern
template<typename V>
inline V mk_impl(unsigned long long b, kind_tag<1>)
{
    return V{from_bits<typename V::value_type>(b)};
}
template<typename V>
inline V mk_impl(unsigned long long b, kind_tag<2>)
{
    return static_cast<V>(from_bits<typename std::underlying_type<V>::type>(b));
}
template<typename V>
inline V mk_impl(unsigned long long b, kind_tag<3>)
{
    typedef typename std::decay<decltype(*std::declval<V>())>::type U;
    return V{from_bits<U>(b)};
}
template<typename V>
inline V mk(unsigned long long b)
{
    return mk_impl<V>(b, kind_tag<kind_of<V>::value>{});
}

// canonical text of a value
template<typename V>
inline std::string txt_impl(V v, kind_tag<0>)
{
    return bits_hex(v);
}
template<typename V>
inline std::string txt_impl(V v, kind_tag<1>)
{
    return bits_hex(v.value());
}
template<typename V>
inline std::string txt_impl(V v, kind_tag<2>)
{
    return bits_hex(sbepp::to_underlying(v));
}
template<typename V>
inline std::string txt_impl(V v, kind_tag<3>)
{
    return bits_hex(*v);
}
template<typename V>
inline std::string txt_impl(V v, kind_tag<4>)
{
    return hex(v.size() ? static_cast<const void*>(v.data()) : static_cast<const void*>(""), v.size());
}
template<typename V>
inline std::string txt_impl(V v, kind_tag<5>)
{
    return hex(v.size() ? static_cast<const void*>(v.data()) : static_cast<const void*>(""), v.size());
}
template<typename V>
inline std::string txt(V v)
{
    return txt_impl(v, kind_tag<kind_of<V>::value>{});
}

// one line per observation
template<typename V>
inline void pr(const std::string& path, V v)
{
    const int k = kind_of<V>::value;
    line(std::string(k == 4 ? "a " : (k == 5 ? "d " : "v ")) + path + " " + txt(v));
}
template<typename V>
inline void prc(const std::string& path, V v) // constants
{
    line("c " + path + " " + txt(v));
}
inline void prg(const std::string& path, unsigned long long n)
{
    line("g " + path + " " + std::to_string(n));
}
inline void pre(const std::string& path, std::size_t i)
{
    line("e " + path + "[" + std::to_string(i) + "]");
}
inline std::string idx(const std::string& path, std::size_t i)
{
    return path + "[" + std::to_string(i) + "].";
}
inline void prz(const std::string& what, const std::string& path, unsigned long long n)
{
    line(what + " " + path + " " + std::to_string(n));
}

// ---------------------------------------------------------------- recording visitor (C03/C19)
// Logs one line per callback in the same format as the generated dumpers, using
// only the names the traits of the callback's tag provide.
template<typename Byte>
struct rec_visitor
{
    std::vector<std::string> stack; // path prefixes
    long budget;                    // stop (return true) at the budget-th callback; <0: never
    long events = 0;
    bool stopped = false;
    const Byte* base = nullptr;
    std::vector<std::size_t> entry_counters;

    explicit rec_visitor(long stop_at, const Byte* b) : budget(stop_at), base(b)
    {
        stack.push_back("");
    }

    bool tick()
    {
        events++;
        if(stopped)
        {
            line("X callback-after-stop");
        }
        if(budget >= 0 && events >= budget)
        {
            stopped = true;
        }
        return stopped;
    }

    template<typename T, typename Cursor, typename Tag>
    void on_message(T m, Cursor& c, Tag)
    {
        line(std::string("m ") + sbepp::message_traits<Tag>::name());
        sbepp::visit_children(m, c, *this);
    }

    template<typename T, typename Cursor, typename Tag>
    bool on_group(T g, Cursor& c, Tag)
    {
        const std::string p = stack.back() + sbepp::group_traits<Tag>::name();
        prg(p, static_cast<unsigned long long>(g.size()));
        if(tick())
            return true;
        stack.push_back(p);
        entry_counters.push_back(0);
        sbepp::visit_children(g, c, *this);
        entry_counters.pop_back();
        stack.pop_back();
        return stopped;
    }

    template<typename T, typename Cursor>
    bool on_entry(T e, Cursor& c)
    {
        const std::string gp = stack.back();
        const std::size_t i = entry_counters.back()++;
        pre(gp, i);
        if(tick())
            return true;
        stack.push_back(idx(gp, i));
        sbepp::visit_children(e, c, *this);
        stack.pop_back();
        return stopped;
    }

    template<typename T, typename Tag>
    bool on_data(T d, Tag)
    {
        pr(stack.back() + sbepp::data_traits<Tag>::name(), d);
        return tick();
    }

    // fields: scalar / enum / set / array / composite
    template<typename T, typename Tag>
    bool on_field(T v, Tag)
    {
        return member(std::string(sbepp::field_traits<Tag>::name()), v, std::integral_constant<bool, sbepp::is_composite<T>::value>{});
    }
    template<typename T, typename Tag>
    bool on_type(T v, Tag)
    {
        return member(std::string(sbepp::type_traits<Tag>::name()), v, std::false_type{});
    }
    template<typename T, typename Tag>
    bool on_enum(T v, Tag)
    {
        return member(std::string(sbepp::enum_traits<Tag>::name()), v, std::false_type{});
    }
    template<typename T, typename Tag>
    bool on_set(T v, Tag)
    {
        return member(std::string(sbepp::set_traits<Tag>::name()), v, std::false_type{});
    }
    template<typename T, typename Tag>
    bool on_composite(T v, Tag)
    {
        return member(std::string(sbepp::composite_traits<Tag>::name()), v, std::true_type{});
    }

    template<typename T>
    bool member(const std::string& name, T v, std::false_type)
    {
        pr(stack.back() + name, v);
        return tick();
    }
    template<typename T>
    bool member(const std::string& name, T v, std::true_type)
    {
        const std::string p = stack.back() + name;
        line("{ " + p);
        if(tick())
            return true;
        stack.push_back(p + ".");
        sbepp::visit_children(v, *this);
        stack.pop_back();
        if(!stopped)
            line("} " + p);
        return stopped;
    }
};

// enum / set visiting (C19)
struct enum_visitor
{
    std::string res;
    int calls = 0;
    template<typename E, typename Tag>
    void on_enum_value(E, Tag)
    {
        calls++;
        res = std::string("known:") + sbepp::enum_value_traits<Tag>::name();
    }
    template<typename E>
    void on_enum_value(E, sbepp::unknown_enum_value_tag)
    {
        calls++;
        res = "unknown";
    }
};
struct set_visitor
{
    std::string res;
    template<typename Tag>
    void on_set_choice(bool v, Tag)
    {
        res += std::string(sbepp::set_choice_traits<Tag>::name()) + "=" + (v ? "1" : "0") + ",";
    }
};
template<typename V>
inline void pr_enum_visit(const std::string& path, V v)
{
    enum_visitor ev;
    sbepp::visit(v, ev);
    line("ev " + path + " " + ev.res + " calls=" + std::to_string(ev.calls));
}
template<typename V>
inline void pr_set_visit(const std::string& path, V v)
{
    set_visitor sv;
    sbepp::visit(v, sv);
    line("sc " + path + " " + (sv.res.empty() ? std::string("-") : sv.res));
}
} // namespace vrt
