// Assertion trap: sbepp's documented client hook (SBEPP_ENABLE_ASSERTS_WITH_HANDLER)
// is the observation point.  The handler records the failed expression and
// jumps back to the interpreter loop; all frames skipped are views/iterators
// with trivial destructors.
#pragma once
#include <csetjmp>
#include <cstdio>
#include <cstring>
#include <cstdlib>

namespace vrt
{
struct assert_state
{
    sigjmp_buf jb;
    bool armed = false;
    unsigned long count = 0;
    char expr[256];
    char func[128];
};

inline assert_state& astate()
{
    static assert_state s;
    return s;
}
} // namespace vrt

#if defined(SBEPP_ENABLE_ASSERTS_WITH_HANDLER) || defined(SBEPP_ASSERT_HANDLER)
namespace sbepp
{
[[noreturn]] void assertion_failed(char const* expr, char const* function, char const* file, long line);
[[noreturn]] inline void assertion_failed(char const* expr, char const* function, char const* /*file*/, long /*line*/)
{
    auto& s = vrt::astate();
    s.count++;
    std::strncpy(s.expr, expr, sizeof(s.expr) - 1);
    s.expr[sizeof(s.expr) - 1] = 0;
    std::strncpy(s.func, function, sizeof(s.func) - 1);
    s.func[sizeof(s.func) - 1] = 0;
    if(s.armed)
    {
        siglongjmp(s.jb, 1);
    }
    std::printf("UNARMED-ASSERT %s in %s\n", expr, function);
    std::fflush(stdout);
    std::_Exit(77);
}
} // namespace sbepp
#endif

// Run `stmt` with the trap armed; evaluates to true if an assertion fired.
#define VRT_TRAPPED(stmt)                                  \
    ([&]() -> bool {                                       \
        auto& vrt_s = ::vrt::astate();                     \
        vrt_s.armed = true;                                \
        if(sigsetjmp(vrt_s.jb, 1) == 0)                    \
        {                                                  \
            stmt;                                          \
            vrt_s.armed = false;                           \
            return false;                                  \
        }                                                  \
        vrt_s.armed = false;                               \
        return true;                                       \
    }())
