// libFuzzer entry point for sbeppc (C09, coverage-guided leg).  The real main() of sbeppc runs in-process with the
// fuzzer's bytes as the schema file; ASan+UBSan+_GLIBCXX_ASSERTIONS and sbeppc's own asserts are live.  An exception
// that escapes main(), an abort, a sanitizer report, a libFuzzer timeout/oom, or a rejected schema that leaves
// generated files behind ends the process and leaves an artifact, which the python supervisor re-runs in a fresh
// process (and through the ordinary one-process-per-input monitor) before anything is reported.
#include <cstdint>
#include <cstddef>
#include <cstdio>
#include <cstdlib>
#include <string>
#include <filesystem>
#include <unistd.h>
#define main sbeppc_main
#include <sbepp/sbeppc/main.cpp>
#undef main

namespace
{
std::string g_dir, g_in, g_out;
void vrt_init()
{
    // the working directory (set by the supervisor) holds the include files; input and output live in a
    // per-process subdirectory of VRT_FUZZ_TMP
    const char* base = std::getenv("VRT_FUZZ_TMP");
    g_dir = std::string(base ? base : "/tmp") + "/fz." + std::to_string(getpid());
    std::filesystem::create_directories(g_dir);
    g_in = g_dir + "/in.xml";
    g_out = g_dir + "/out";
}
} // namespace

extern "C" int LLVMFuzzerTestOneInput(const uint8_t* data, size_t size)
{
    if(g_dir.empty())
    {
        vrt_init();
    }
    {
        FILE* f = std::fopen(g_in.c_str(), "wb");
        if(!f)
        {
            std::fprintf(stderr, "VRT-HARNESS: cannot write %s\n", g_in.c_str());
            std::_Exit(3);
        }
        if(size)
        {
            std::fwrite(data, 1, size, f);
        }
        std::fclose(f);
    }
    std::error_code ec;
    std::filesystem::remove_all(g_out, ec);
    std::filesystem::create_directories(g_out, ec);
    char a0[] = "sbeppc", a1[] = "--output-dir";
    char* argv[] = {a0, a1, g_out.data(), g_in.data(), nullptr};
    const int rc = sbeppc_main(4, argv);
    if(rc != 0)
    {
        bool left = false;
        for(auto it = std::filesystem::recursive_directory_iterator(g_out, ec);
            !ec && it != std::filesystem::recursive_directory_iterator();
            it.increment(ec))
        {
            if(it->is_regular_file(ec))
            {
                left = true;
                break;
            }
        }
        if(left)
        {
            std::fprintf(stderr, "VRT-LEFTOVER: rejected schema left generated files behind\n");
            std::abort();
        }
    }
    return 0;
}
