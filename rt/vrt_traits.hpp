// Generic trait dump (C18): driven by the tag lists themselves (schema_traits::message_tags /
// type_tags, *_traits::field_tags / group_tags / data_tags / element_tags / value_tags /
// choice_tags), so omission and reordering are visible; optional members are found by detection.
#pragma once
#include "vrt_codec.hpp"
#include <string>
#include <type_traits>

namespace vt
{
template<typename...>
struct voider
{
    using type = void;
};
template<typename... Ts>
using void_t = typename voider<Ts...>::type;

#define VT_HAS(NAME, EXPR)                                       \
    template<typename T, typename = void>                        \
    struct has_##NAME : std::false_type                          \
    {                                                            \
    };                                                           \
    template<typename T>                                         \
    struct has_##NAME<T, void_t<decltype(EXPR)>> : std::true_type \
    {                                                            \
    };
VT_HAS(offset, T::offset())
VT_HAS(deprecated, T::deprecated())
VT_HAS(min_value, T::min_value())
VT_HAS(max_value, T::max_value())
VT_HAS(null_value, T::null_value())
#undef VT_HAS

template<typename T, typename = void>
struct has_plain_value_type : std::false_type
{
};
template<typename T>
struct has_plain_value_type<T, void_t<typename T::value_type>> : std::true_type
{
};
template<typename T, typename = void>
struct has_tmpl_value_type : std::false_type
{
};
template<typename T>
struct has_tmpl_value_type<T, void_t<typename T::template value_type<char>>> : std::true_type
{
};
template<typename T, typename = void>
struct has_traits_tag : std::false_type
{
};
template<typename T>
struct has_traits_tag<T, void_t<typename sbepp::traits_tag<T>::type>> : std::true_type
{
};
template<typename T, typename = void>
struct has_value_type_tag : std::false_type
{
};
template<typename T>
struct has_value_type_tag<T, void_t<typename T::value_type_tag>> : std::true_type
{
};

inline std::string hs(const char* s)
{
    return s ? (*s ? vrt::hex(s, std::strlen(s)) : std::string("-")) : std::string("null");
}

template<typename P>
inline const char* prim_name()
{
    return std::is_same<P, char>::value            ? "char"
           : std::is_same<P, std::int8_t>::value   ? "int8"
           : std::is_same<P, std::uint8_t>::value  ? "uint8"
           : std::is_same<P, std::int16_t>::value  ? "int16"
           : std::is_same<P, std::uint16_t>::value ? "uint16"
           : std::is_same<P, std::int32_t>::value  ? "int32"
           : std::is_same<P, std::uint32_t>::value ? "uint32"
           : std::is_same<P, std::int64_t>::value  ? "int64"
           : std::is_same<P, std::uint64_t>::value ? "uint64"
           : std::is_same<P, float>::value         ? "float"
           : std::is_same<P, double>::value        ? "double"
                                                   : "?";
}

inline void T(const std::string& path, const char* trait, const std::string& value)
{
    vrt::line("T " + path + " " + trait + " " + value);
}
inline void T(const std::string& path, const char* trait, unsigned long long value)
{
    vrt::line("T " + path + " " + trait + " " + std::to_string(value));
}

template<typename Tr>
inline void opt_offset(const std::string& p, std::true_type)
{
    T(p, "offset", static_cast<unsigned long long>(Tr::offset()));
}
template<typename Tr>
inline void opt_offset(const std::string& p, std::false_type)
{
    T(p, "offset", std::string("-"));
}
template<typename Tr>
inline void opt_deprecated(const std::string& p, std::true_type)
{
    T(p, "deprecated", static_cast<unsigned long long>(Tr::deprecated()));
}
template<typename Tr>
inline void opt_deprecated(const std::string& p, std::false_type)
{
    T(p, "deprecated", std::string("-"));
}
#define VT_OPT_BITS(NAME)                                                   \
    template<typename Tr>                                                   \
    inline void opt_##NAME(const std::string& p, std::true_type)            \
    {                                                                       \
        T(p, #NAME, vrt::bits_hex(Tr::NAME()));                             \
    }                                                                       \
    template<typename Tr>                                                   \
    inline void opt_##NAME(const std::string& p, std::false_type)           \
    {                                                                       \
        T(p, #NAME, std::string("-"));                                      \
    }
VT_OPT_BITS(min_value)
VT_OPT_BITS(max_value)
VT_OPT_BITS(null_value)
#undef VT_OPT_BITS

// value_type <-> traits_tag round trip: "1" ok, "0" broken, "-" no mapping available
template<typename V, typename Tag>
inline std::string roundtrip_plain2(std::true_type)
{
    return std::is_same<sbepp::traits_tag_t<V>, Tag>::value ? "1" : "0";
}
template<typename V, typename Tag>
inline std::string roundtrip_plain2(std::false_type)
{
    return "-";
}
template<typename Tr, typename Tag>
inline std::string roundtrip_plain(std::true_type)
{
    return roundtrip_plain2<typename Tr::value_type, Tag>(has_traits_tag<typename Tr::value_type>{});
}
template<typename Tr, typename Tag>
inline std::string roundtrip_plain(std::false_type)
{
    return "-";
}
template<typename Tr, typename Tag>
inline std::string roundtrip_tmpl(std::true_type)
{
    return roundtrip_plain2<typename Tr::template value_type<char>, Tag>(has_traits_tag<typename Tr::template value_type<char>>{});
}
template<typename Tr, typename Tag>
inline std::string roundtrip_tmpl(std::false_type)
{
    return "-";
}
template<typename Tr, typename Tag>
inline std::string roundtrip()
{
    const std::string a = roundtrip_plain<Tr, Tag>(has_plain_value_type<Tr>{});
    const std::string b = roundtrip_tmpl<Tr, Tag>(has_tmpl_value_type<Tr>{});
    return std::string(has_plain_value_type<Tr>::value ? "plain:" : (has_tmpl_value_type<Tr>::value ? "tmpl:" : "none:"))
           + (has_plain_value_type<Tr>::value ? a : b);
}

template<typename Tag>
constexpr int tag_kinds()
{
    // bit mask of every predicate that accepts the tag: exactly one bit must be set
    return (sbepp::is_type_tag<Tag>::value ? 1 : 0) | (sbepp::is_enum_tag<Tag>::value ? 2 : 0) | (sbepp::is_set_tag<Tag>::value ? 4 : 0)
           | (sbepp::is_composite_tag<Tag>::value ? 8 : 0) | (sbepp::is_field_tag<Tag>::value ? 16 : 0)
           | (sbepp::is_group_tag<Tag>::value ? 32 : 0) | (sbepp::is_data_tag<Tag>::value ? 64 : 0)
           | (sbepp::is_message_tag<Tag>::value ? 128 : 0) | (sbepp::is_schema_tag<Tag>::value ? 256 : 0)
           | (sbepp::is_enum_value_tag<Tag>::value ? 512 : 0) | (sbepp::is_set_choice_tag<Tag>::value ? 1024 : 0);
}

template<typename Tag>
void dump_encoding(const std::string& prefix);

template<typename F, typename... Ts>
inline void each(sbepp::type_list<Ts...>, F& f)
{
    int dummy[] = {0, (f.template call<Ts>(), 0)...};
    (void)dummy;
}
template<typename... Ts>
inline unsigned long long count(sbepp::type_list<Ts...>)
{
    return sizeof...(Ts);
}

struct enc_visitor
{
    std::string prefix;
    template<typename Tag>
    void call()
    {
        dump_encoding<Tag>(prefix);
    }
};

template<typename Tag>
inline void dump_type(const std::string& prefix)
{
    using tr = sbepp::type_traits<Tag>;
    const std::string p = prefix + tr::name();
    T(p, "kind", std::string("type"));
    T(p, "tagkinds", static_cast<unsigned long long>(tag_kinds<Tag>()));
    T(p, "description", hs(tr::description()));
    T(p, "presence", static_cast<unsigned long long>(static_cast<int>(tr::presence())));
    T(p, "primitive", std::string(prim_name<typename tr::primitive_type>()));
    T(p, "length", static_cast<unsigned long long>(tr::length()));
    if(tr::presence() != sbepp::field_presence::constant)
        opt_offset<tr>(p, has_offset<tr>{});
    T(p, "semantic_type", hs(tr::semantic_type()));
    T(p, "since", static_cast<unsigned long long>(tr::since_version()));
    opt_deprecated<tr>(p, has_deprecated<tr>{});
    T(p, "character_encoding", hs(tr::character_encoding()));
    opt_min_value<tr>(p, has_min_value<tr>{});
    opt_max_value<tr>(p, has_max_value<tr>{});
    opt_null_value<tr>(p, has_null_value<tr>{});
    T(p, "roundtrip", roundtrip<tr, Tag>());
}

struct enum_value_visitor
{
    std::string prefix;
    template<typename Tag>
    void call()
    {
        using tr = sbepp::enum_value_traits<Tag>;
        const std::string p = prefix + tr::name();
        T(p, "kind", std::string("enum_value"));
        T(p, "tagkinds", static_cast<unsigned long long>(tag_kinds<Tag>()));
        T(p, "description", hs(tr::description()));
        T(p, "since", static_cast<unsigned long long>(tr::since_version()));
        opt_deprecated<tr>(p, has_deprecated<tr>{});
        T(p, "value", vrt::bits_hex(sbepp::to_underlying(tr::value())));
    }
};

template<typename Tag>
inline void dump_enum(const std::string& prefix)
{
    using tr = sbepp::enum_traits<Tag>;
    const std::string p = prefix + tr::name();
    T(p, "kind", std::string("enum"));
    T(p, "tagkinds", static_cast<unsigned long long>(tag_kinds<Tag>()));
    T(p, "description", hs(tr::description()));
    T(p, "encoding", std::string(prim_name<typename tr::encoding_type>()));
    opt_offset<tr>(p, has_offset<tr>{});
    T(p, "since", static_cast<unsigned long long>(tr::since_version()));
    opt_deprecated<tr>(p, has_deprecated<tr>{});
    T(p, "roundtrip", roundtrip<tr, Tag>());
    T(p, "underlying_ok", static_cast<unsigned long long>(
        std::is_same<typename std::underlying_type<typename tr::value_type>::type, typename tr::encoding_type>::value));
    T(p, "values", count(typename tr::value_tags{}));
    enum_value_visitor v{p + "."};
    each(typename tr::value_tags{}, v);
}

struct choice_visitor
{
    std::string prefix;
    template<typename Tag>
    void call()
    {
        using tr = sbepp::set_choice_traits<Tag>;
        const std::string p = prefix + tr::name();
        T(p, "kind", std::string("choice"));
        T(p, "tagkinds", static_cast<unsigned long long>(tag_kinds<Tag>()));
        T(p, "description", hs(tr::description()));
        T(p, "since", static_cast<unsigned long long>(tr::since_version()));
        opt_deprecated<tr>(p, has_deprecated<tr>{});
        T(p, "index", static_cast<unsigned long long>(tr::index()));
    }
};

template<typename Tag>
inline void dump_set(const std::string& prefix)
{
    using tr = sbepp::set_traits<Tag>;
    const std::string p = prefix + tr::name();
    T(p, "kind", std::string("set"));
    T(p, "tagkinds", static_cast<unsigned long long>(tag_kinds<Tag>()));
    T(p, "description", hs(tr::description()));
    T(p, "encoding", std::string(prim_name<typename tr::encoding_type>()));
    opt_offset<tr>(p, has_offset<tr>{});
    T(p, "since", static_cast<unsigned long long>(tr::since_version()));
    opt_deprecated<tr>(p, has_deprecated<tr>{});
    T(p, "roundtrip", roundtrip<tr, Tag>());
    T(p, "choices", count(typename tr::choice_tags{}));
    choice_visitor v{p + "."};
    each(typename tr::choice_tags{}, v);
}

template<typename Tag>
inline void dump_composite(const std::string& prefix)
{
    using tr = sbepp::composite_traits<Tag>;
    const std::string p = prefix + tr::name();
    T(p, "kind", std::string("composite"));
    T(p, "tagkinds", static_cast<unsigned long long>(tag_kinds<Tag>()));
    T(p, "description", hs(tr::description()));
    opt_offset<tr>(p, has_offset<tr>{});
    T(p, "semantic_type", hs(tr::semantic_type()));
    T(p, "since", static_cast<unsigned long long>(tr::since_version()));
    opt_deprecated<tr>(p, has_deprecated<tr>{});
    T(p, "size_bytes", static_cast<unsigned long long>(tr::size_bytes()));
    T(p, "roundtrip", roundtrip<tr, Tag>());
    T(p, "elements", count(typename tr::element_tags{}));
    enc_visitor v{p + "."};
    each(typename tr::element_tags{}, v);
}

template<typename Tag, int K>
struct enc_dispatch
{
    static void run(const std::string& p)
    {
        vrt::line("T " + p + "? kind unknown-tag-kind-" + std::to_string(K));
    }
};
template<typename Tag>
struct enc_dispatch<Tag, 1>
{
    static void run(const std::string& p)
    {
        dump_type<Tag>(p);
    }
};
template<typename Tag>
struct enc_dispatch<Tag, 2>
{
    static void run(const std::string& p)
    {
        dump_enum<Tag>(p);
    }
};
template<typename Tag>
struct enc_dispatch<Tag, 4>
{
    static void run(const std::string& p)
    {
        dump_set<Tag>(p);
    }
};
template<typename Tag>
struct enc_dispatch<Tag, 8>
{
    static void run(const std::string& p)
    {
        dump_composite<Tag>(p);
    }
};
template<typename Tag>
void dump_encoding(const std::string& prefix)
{
    enc_dispatch<Tag, (sbepp::is_type_tag<Tag>::value ? 1 : 0) | (sbepp::is_enum_tag<Tag>::value ? 2 : 0)
                          | (sbepp::is_set_tag<Tag>::value ? 4 : 0) | (sbepp::is_composite_tag<Tag>::value ? 8 : 0)>::run(prefix);
}

// ---- name of whatever a value_type_tag / length_type_tag designates
template<typename Tag, int K>
struct enc_name
{
    static std::string get()
    {
        return "?";
    }
};
template<typename Tag>
struct enc_name<Tag, 1>
{
    static std::string get()
    {
        return std::string("type:") + sbepp::type_traits<Tag>::name();
    }
};
template<typename Tag>
struct enc_name<Tag, 2>
{
    static std::string get()
    {
        return std::string("enum:") + sbepp::enum_traits<Tag>::name();
    }
};
template<typename Tag>
struct enc_name<Tag, 4>
{
    static std::string get()
    {
        return std::string("set:") + sbepp::set_traits<Tag>::name();
    }
};
template<typename Tag>
struct enc_name<Tag, 8>
{
    static std::string get()
    {
        return std::string("composite:") + sbepp::composite_traits<Tag>::name();
    }
};
template<typename Tag>
inline std::string encoding_name()
{
    return enc_name<Tag, (sbepp::is_type_tag<Tag>::value ? 1 : 0) | (sbepp::is_enum_tag<Tag>::value ? 2 : 0)
                             | (sbepp::is_set_tag<Tag>::value ? 4 : 0) | (sbepp::is_composite_tag<Tag>::value ? 8 : 0)>::get();
}

template<typename Tr>
inline std::string field_value_tag(std::true_type)
{
    return encoding_name<typename Tr::value_type_tag>();
}
template<typename Tr>
inline std::string field_value_tag(std::false_type)
{
    return "-";
}
template<typename Tr>
inline std::string field_roundtrip(std::true_type)
{
    return roundtrip<Tr, typename Tr::value_type_tag>();
}
template<typename Tr>
inline std::string field_roundtrip(std::false_type)
{
    return "-";
}

template<typename SchemaTag>
struct level_visitor;

template<typename SchemaTag, typename Tr>
inline void dump_level_members(const std::string& p)
{
    T(p, "fields", count(typename Tr::field_tags{}));
    T(p, "groups", count(typename Tr::group_tags{}));
    T(p, "data", count(typename Tr::data_tags{}));
    level_visitor<SchemaTag> v{p + ".", 0};
    each(typename Tr::field_tags{}, v);
    v.kind = 1;
    each(typename Tr::group_tags{}, v);
    v.kind = 2;
    each(typename Tr::data_tags{}, v);
}

template<typename SchemaTag>
struct level_visitor
{
    std::string prefix;
    int kind;
    template<typename Tag>
    void call()
    {
        if(kind == 0)
            field<Tag>(std::integral_constant<bool, sbepp::is_field_tag<Tag>::value>{});
        else if(kind == 1)
            group<Tag>(std::integral_constant<bool, sbepp::is_group_tag<Tag>::value>{});
        else
            data<Tag>(std::integral_constant<bool, sbepp::is_data_tag<Tag>::value>{});
    }
    template<typename Tag>
    void field(std::false_type)
    {
        vrt::line("T " + prefix + "? kind not-a-field-tag-in-field_tags");
    }
    template<typename Tag>
    void group(std::false_type)
    {
        vrt::line("T " + prefix + "? kind not-a-group-tag-in-group_tags");
    }
    template<typename Tag>
    void data(std::false_type)
    {
        vrt::line("T " + prefix + "? kind not-a-data-tag-in-data_tags");
    }
    template<typename Tag>
    void field(std::true_type)
    {
        using tr = sbepp::field_traits<Tag>;
        const std::string p = prefix + tr::name();
        T(p, "kind", std::string("field"));
        T(p, "tagkinds", static_cast<unsigned long long>(tag_kinds<Tag>()));
        T(p, "id", static_cast<unsigned long long>(tr::id()));
        T(p, "description", hs(tr::description()));
        T(p, "presence", static_cast<unsigned long long>(static_cast<int>(tr::presence())));
        if(tr::presence() != sbepp::field_presence::constant)
            opt_offset<tr>(p, has_offset<tr>{});
        T(p, "since", static_cast<unsigned long long>(tr::since_version()));
        opt_deprecated<tr>(p, has_deprecated<tr>{});
        T(p, "value_type_tag", field_value_tag<tr>(has_value_type_tag<tr>{}));
        T(p, "roundtrip", field_roundtrip<tr>(has_value_type_tag<tr>{}));
    }
    template<typename Tag>
    void group(std::true_type)
    {
        using tr = sbepp::group_traits<Tag>;
        const std::string p = prefix + tr::name();
        T(p, "kind", std::string("group"));
        T(p, "tagkinds", static_cast<unsigned long long>(tag_kinds<Tag>()));
        T(p, "id", static_cast<unsigned long long>(tr::id()));
        T(p, "description", hs(tr::description()));
        T(p, "block_length", static_cast<unsigned long long>(tr::block_length()));
        T(p, "semantic_type", hs(tr::semantic_type()));
        T(p, "since", static_cast<unsigned long long>(tr::since_version()));
        opt_deprecated<tr>(p, has_deprecated<tr>{});
        T(p, "dimension", std::string(sbepp::composite_traits<typename tr::dimension_type_tag>::name()));
        T(p, "dimension_type_ok", static_cast<unsigned long long>(
            std::is_same<sbepp::traits_tag_t<typename tr::template dimension_type<char>>, typename tr::dimension_type_tag>::value));
        T(p, "roundtrip_group", static_cast<unsigned long long>(std::is_same<sbepp::traits_tag_t<typename tr::template value_type<char>>, Tag>::value));
        T(p, "roundtrip_entry", static_cast<unsigned long long>(std::is_same<sbepp::traits_tag_t<typename tr::template entry_type<char>>, Tag>::value));
        T(p, "is_group_view", static_cast<unsigned long long>(sbepp::is_group<typename tr::template value_type<char>>::value));
        T(p, "is_entry_view", static_cast<unsigned long long>(sbepp::is_group_entry<typename tr::template entry_type<char>>::value));
        T(p, "flat", static_cast<unsigned long long>(sbepp::is_flat_group<typename tr::template value_type<char>>::value));
        dump_level_members<SchemaTag, tr>(p);
    }
    template<typename Tag>
    void data(std::true_type)
    {
        using tr = sbepp::data_traits<Tag>;
        const std::string p = prefix + tr::name();
        T(p, "kind", std::string("data"));
        T(p, "tagkinds", static_cast<unsigned long long>(tag_kinds<Tag>()));
        T(p, "id", static_cast<unsigned long long>(tr::id()));
        T(p, "description", hs(tr::description()));
        T(p, "since", static_cast<unsigned long long>(tr::since_version()));
        opt_deprecated<tr>(p, has_deprecated<tr>{});
        T(p, "length_type", std::string(sbepp::type_traits<typename tr::length_type_tag>::name()));
        T(p, "length_primitive", std::string(prim_name<typename tr::length_type::value_type>()));
        T(p, "length_type_ok", static_cast<unsigned long long>(
            std::is_same<typename tr::length_type, typename sbepp::type_traits<typename tr::length_type_tag>::value_type>::value));
        T(p, "element", std::string(prim_name<typename tr::template value_type<char>::value_type>()));
        T(p, "is_data_view", static_cast<unsigned long long>(sbepp::is_data<typename tr::template value_type<char>>::value));
        T(p, "size_bytes_3", static_cast<unsigned long long>(tr::size_bytes(3)));
    }
};

template<typename SchemaTag>
struct message_visitor
{
    template<typename Tag>
    void call()
    {
        using tr = sbepp::message_traits<Tag>;
        const std::string p = std::string("msg:") + tr::name();
        T(p, "kind", std::string("message"));
        T(p, "tagkinds", static_cast<unsigned long long>(tag_kinds<Tag>()));
        T(p, "id", static_cast<unsigned long long>(tr::id()));
        T(p, "description", hs(tr::description()));
        T(p, "block_length", static_cast<unsigned long long>(tr::block_length()));
        T(p, "semantic_type", hs(tr::semantic_type()));
        T(p, "since", static_cast<unsigned long long>(tr::since_version()));
        opt_deprecated<tr>(p, has_deprecated<tr>{});
        T(p, "schema_tag_ok", static_cast<unsigned long long>(std::is_same<typename tr::schema_tag, SchemaTag>::value));
        T(p, "roundtrip", static_cast<unsigned long long>(std::is_same<sbepp::traits_tag_t<typename tr::template value_type<char>>, Tag>::value));
        T(p, "is_message_view", static_cast<unsigned long long>(sbepp::is_message<typename tr::template value_type<char>>::value));
        dump_level_members<SchemaTag, tr>(p);
    }
};

struct type_visitor
{
    template<typename Tag>
    void call()
    {
        vrt::line("TYPE-BEGIN");
        dump_encoding<Tag>("type:");
        vrt::line("TYPE-END");
    }
};

template<typename SchemaTag>
inline void dump_schema()
{
    using tr = sbepp::schema_traits<SchemaTag>;
    const std::string p = "schema";
    T(p, "tagkinds", static_cast<unsigned long long>(tag_kinds<SchemaTag>()));
    T(p, "package", hs(tr::package()));
    T(p, "id", static_cast<unsigned long long>(tr::id()));
    T(p, "version", static_cast<unsigned long long>(tr::version()));
    T(p, "semantic_version", hs(tr::semantic_version()));
    T(p, "byte_order", std::string(tr::byte_order() == sbepp::endian::big ? "big" : "little"));
    T(p, "description", hs(tr::description()));
    T(p, "header", std::string(sbepp::composite_traits<typename tr::header_type_tag>::name()));
    T(p, "header_type_ok", static_cast<unsigned long long>(
        std::is_same<sbepp::traits_tag_t<typename tr::template header_type<char>>, typename tr::header_type_tag>::value));
    T(p, "types", count(typename tr::type_tags{}));
    T(p, "messages", count(typename tr::message_tags{}));
    type_visitor tv;
    each(typename tr::type_tags{}, tv);
    message_visitor<SchemaTag> mv;
    each(typename tr::message_tags{}, mv);
}

// named probe: the tag is spelled from the schema model; prints which predicates accept it and its name
template<typename Tag, int K>
struct probe_name
{
    static std::string get()
    {
        return "?";
    }
};
#define VT_PROBE(K, TRAITS)                                 \
    template<typename Tag>                                  \
    struct probe_name<Tag, K>                               \
    {                                                       \
        static std::string get()                            \
        {                                                   \
            return sbepp::TRAITS<Tag>::name();              \
        }                                                   \
    };
VT_PROBE(1, type_traits)
VT_PROBE(2, enum_traits)
VT_PROBE(4, set_traits)
VT_PROBE(8, composite_traits)
VT_PROBE(16, field_traits)
VT_PROBE(32, group_traits)
VT_PROBE(64, data_traits)
VT_PROBE(128, message_traits)
VT_PROBE(512, enum_value_traits)
VT_PROBE(1024, set_choice_traits)
#undef VT_PROBE
template<typename Tag>
inline void probe(const char* path)
{
    // field tags of enum/set/composite fields inherit the type tag's members but are *field* tags
    vrt::line(std::string("P ") + path + " " + std::to_string(tag_kinds<Tag>()) + " " + probe_name<Tag, tag_kinds<Tag>() & 2047>::get());
}
} // namespace vt
