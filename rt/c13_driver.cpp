// C13: <data> views (dynamic_array_ref) against a std::vector model.
// Exhaustive DFS over all operation/argument choices to depth C13_DEPTH from
// every state with size <= 3 over a two-letter alphabet, then seeded random
// sequences.  After every operation: length prefix (decoded independently),
// payload, returned iterator, canaries and the untouched tail are compared.
#include "vrt_assert.hpp"
#include <sbepp/sbepp.hpp>

#include <cstdio>
#include <cstdint>
#include <cstdlib>
#include <cstring>
#include <string>
#include <vector>
#include <forward_list>
#include <iterator>

#ifndef C13_DEPTH
#    define C13_DEPTH 2
#endif
#ifndef C13_RANDOM_OPS
#    define C13_RANDOM_OPS 10000
#endif
#ifndef C13_LEN
#    define C13_LEN 2 // 0:uint8 1:uint16 2:uint32 3:uint64
#endif

static unsigned long long g_transitions = 0, g_mismatch = 0, g_asserts = 0, g_random_ops = 0, g_reads = 0;
static unsigned long long g_states_seen = 0;
static int g_samples = 0;
// byte type of the view (documented: char, unsigned char, std::byte): C13_BYTE_KIND 0 char, 1 unsigned char, 2 std::byte
#if defined(C13_BYTE_KIND) && C13_BYTE_KIND == 1
typedef unsigned char c13_byte_t;
#elif defined(C13_BYTE_KIND) && C13_BYTE_KIND == 2
#include <cstddef>
typedef std::byte c13_byte_t;
#else
typedef char c13_byte_t;
#endif
static const char* g_inst = "";

enum op_kind
{
    OP_PUSH_BACK,
    OP_POP_BACK,
    OP_INSERT_VAL,
    OP_INSERT_COUNT,
    OP_INSERT_FWD,
    OP_INSERT_INPUT,
    OP_INSERT_ILIST,
    OP_ERASE_POS,
    OP_ERASE_RANGE,
    OP_RESIZE,
    OP_RESIZE_VAL,
    OP_RESIZE_DEFAULT,
    OP_ASSIGN_COUNT,
    OP_ASSIGN_ITER,
    OP_ASSIGN_INPUT_ITER,
    OP_ASSIGN_ILIST,
    OP_ASSIGN_STRING,
    OP_ASSIGN_RANGE,
    OP_CLEAR,
    // the value argument is a reference to an element of the same view (legal for a vector: v.insert(v.begin(), v.back()))
    OP_PUSH_BACK_ALIAS,
    OP_INSERT_VAL_ALIAS,
    OP_INSERT_COUNT_ALIAS,
    OP_RESIZE_VAL_ALIAS,
    OP_KINDS
};
static const char* const op_names[OP_KINDS] = {
    "push_back", "pop_back", "insert(pos,v)", "insert(pos,n,v)", "insert(pos,fwd_it)", "insert(pos,input_it)",
    "insert(pos,ilist)", "erase(pos)", "erase(first,last)", "resize(n)", "resize(n,v)", "resize(n,default_init)",
    "assign(n,v)", "assign(first,last)", "assign(input_it)", "assign(ilist)", "assign_string", "assign_range", "clear",
    "push_back(self[i])", "insert(pos,self[i])", "insert(pos,n,self[i])", "resize(n,self[i])"};
static unsigned long long g_per_op[OP_KINDS];

struct op
{
    int kind;
    std::size_t a, b;          // positions / counts
    unsigned char v;           // value
    std::vector<unsigned char> in; // input sequence
};

static std::string describe(const op& o)
{
    char buf[160];
    std::string in;
    for(auto c : o.in)
    {
        char t[4];
        std::snprintf(t, sizeof t, "%02x", c);
        in += t;
    }
    std::snprintf(buf, sizeof buf, "%s a=%zu b=%zu v=%02x in=%s", op_names[o.kind], o.a, o.b, o.v, in.c_str());
    return buf;
}

// genuinely single-pass input iterator (istream_iterator semantics): all copies share one source position, reading through
// any copy consumes the source, the current element is cached in the iterator
template<typename V>
struct sp_source
{
    const V* cur;
    const V* end;
};

template<typename V>
struct input_it
{
    using iterator_category = std::input_iterator_tag;
    using value_type = V;
    using difference_type = std::ptrdiff_t;
    using pointer = const V*;
    using reference = const V&;
    sp_source<V>* src;
    V cached;
    bool at_end;
    input_it() : src(nullptr), cached(), at_end(true)
    {
    }
    explicit input_it(sp_source<V>& s) : src(&s), cached(), at_end(false)
    {
        read();
    }
    void read()
    {
        if(src->cur == src->end)
        {
            at_end = true;
        }
        else
        {
            cached = *src->cur++;
        }
    }
    reference operator*() const
    {
        return cached;
    }
    input_it& operator++()
    {
        read();
        return *this;
    }
    input_it operator++(int)
    {
        auto t = *this;
        read();
        return t;
    }
    bool operator==(const input_it& o) const
    {
        return at_end == o.at_end;
    }
    bool operator!=(const input_it& o) const
    {
        return at_end != o.at_end;
    }
};

template<typename Len, typename V, sbepp::endian E>
struct tester
{
    using arr_t = sbepp::detail::dynamic_array_ref<c13_byte_t, V, Len, E>;
    using carr_t = sbepp::detail::dynamic_array_ref<const c13_byte_t, V, Len, E>;
    using size_type = typename Len::value_type;
    static constexpr std::size_t PFX = sizeof(size_type);
    static constexpr std::size_t CANARY = 8;

    std::size_t cap;
    std::vector<unsigned char> storage; // [canary][prefix][cap][canary] -- heap, so ASan guards the outside too
    std::vector<V> model;

    explicit tester(std::size_t cap_) : cap(cap_), storage(CANARY + PFX + cap_ + CANARY)
    {
        for(std::size_t i = 0; i < storage.size(); i++)
            storage[i] = static_cast<unsigned char>(0xC0 + (i * 7) % 61);
    }

    unsigned char* base()
    {
        return storage.data() + CANARY;
    }

    arr_t view()
    {
        return arr_t{reinterpret_cast<c13_byte_t*>(base()), PFX + cap};
    }

    void write_prefix(std::uint64_t n)
    {
        for(std::size_t i = 0; i < PFX; i++)
        {
            const std::size_t sh = (E == sbepp::endian::little) ? i : (PFX - 1 - i);
            base()[i] = static_cast<unsigned char>((n >> (8 * sh)) & 0xFF);
        }
    }

    std::uint64_t read_prefix()
    {
        std::uint64_t n = 0;
        for(std::size_t i = 0; i < PFX; i++)
        {
            const std::size_t sh = (E == sbepp::endian::little) ? i : (PFX - 1 - i);
            n |= static_cast<std::uint64_t>(base()[i]) << (8 * sh);
        }
        return n;
    }

    void set_state(const std::vector<V>& m)
    {
        model = m;
        write_prefix(m.size());
        for(std::size_t i = 0; i < m.size(); i++)
            base()[PFX + i] = static_cast<unsigned char>(m[i]);
    }

    // applies `o` to model; returns expected iterator offset or (size_t)-1 when the op returns void
    std::size_t apply_model(const op& o)
    {
        const std::size_t none = static_cast<std::size_t>(-1);
        std::vector<V> in;
        for(auto c : o.in)
            in.push_back(static_cast<V>(c));
        const V v = static_cast<V>(o.v);
        switch(o.kind)
        {
        case OP_PUSH_BACK: model.push_back(v); return none;
        case OP_POP_BACK: model.pop_back(); return none;
        // (the returned iterator of vector::insert/erase designates position `a`)
        case OP_INSERT_VAL:
        {
            auto it = model.insert(model.begin() + o.a, v);
            return static_cast<std::size_t>(it - model.begin());
        }
        case OP_INSERT_COUNT:
        {
            auto it = model.insert(model.begin() + o.a, o.b, v);
            return static_cast<std::size_t>(it - model.begin());
        }
        case OP_INSERT_FWD:
        case OP_INSERT_INPUT:
        case OP_INSERT_ILIST:
        {
            auto it = model.insert(model.begin() + o.a, in.begin(), in.end());
            return static_cast<std::size_t>(it - model.begin());
        }
        case OP_ERASE_POS:
        {
            auto it = model.erase(model.begin() + o.a);
            return static_cast<std::size_t>(it - model.begin());
        }
        case OP_ERASE_RANGE:
        {
            auto it = model.erase(model.begin() + o.a, model.begin() + o.b);
            return static_cast<std::size_t>(it - model.begin());
        }
        case OP_RESIZE: model.resize(o.a); return none;
        case OP_RESIZE_VAL: model.resize(o.a, v); return none;
        case OP_RESIZE_DEFAULT: model.resize(o.a); return none; // new elements unspecified, compared as "don't care"
        case OP_ASSIGN_COUNT: model.assign(o.a, v); return none;
        case OP_ASSIGN_ITER:
        case OP_ASSIGN_INPUT_ITER:
        case OP_ASSIGN_ILIST:
        case OP_ASSIGN_STRING:
        case OP_ASSIGN_RANGE: model.assign(in.begin(), in.end()); return none;
        case OP_CLEAR: model.clear(); return none;
        case OP_PUSH_BACK_ALIAS:
        {
            const V av = model[o.v];
            model.push_back(av);
            return none;
        }
        case OP_INSERT_VAL_ALIAS:
        {
            const V av = model[o.v];
            auto it = model.insert(model.begin() + o.a, av);
            return static_cast<std::size_t>(it - model.begin());
        }
        case OP_INSERT_COUNT_ALIAS:
        {
            const V av = model[o.v];
            auto it = model.insert(model.begin() + o.a, o.b, av);
            return static_cast<std::size_t>(it - model.begin());
        }
        case OP_RESIZE_VAL_ALIAS:
        {
            const V av = model[o.v];
            model.resize(o.a, av);
            return none;
        }
        }
        return none;
    }

    std::size_t apply_impl(const op& o)
    {
        const std::size_t none = static_cast<std::size_t>(-1);
        arr_t a = view();
        std::vector<V> in;
        for(auto c : o.in)
            in.push_back(static_cast<V>(c));
        const V v = static_cast<V>(o.v);
        V raw[8] = {};
        for(std::size_t i = 0; i < in.size() && i < 8; i++)
            raw[i] = in[i];
        switch(o.kind)
        {
        case OP_PUSH_BACK: a.push_back(v); return none;
        case OP_POP_BACK: a.pop_back(); return none;
        case OP_INSERT_VAL: return static_cast<std::size_t>(a.insert(a.begin() + o.a, v) - a.begin());
        case OP_INSERT_COUNT:
            return static_cast<std::size_t>(a.insert(a.begin() + o.a, static_cast<size_type>(o.b), v) - a.begin());
        case OP_INSERT_FWD:
        {
            std::forward_list<V> fl(in.begin(), in.end());
            return static_cast<std::size_t>(a.insert(a.begin() + o.a, fl.begin(), fl.end()) - a.begin());
        }
        case OP_INSERT_INPUT:
        {
            sp_source<V> src{in.data(), in.data() + in.size()};
            return static_cast<std::size_t>(a.insert(a.begin() + o.a, input_it<V>{src}, input_it<V>{}) - a.begin());
        }
        case OP_INSERT_ILIST:
            switch(in.size())
            {
            case 0: return static_cast<std::size_t>(a.insert(a.begin() + o.a, std::initializer_list<V>{}) - a.begin());
            case 1: return static_cast<std::size_t>(a.insert(a.begin() + o.a, {raw[0]}) - a.begin());
            case 2: return static_cast<std::size_t>(a.insert(a.begin() + o.a, {raw[0], raw[1]}) - a.begin());
            default: return static_cast<std::size_t>(a.insert(a.begin() + o.a, {raw[0], raw[1], raw[2]}) - a.begin());
            }
        case OP_ERASE_POS: return static_cast<std::size_t>(a.erase(a.begin() + o.a) - a.begin());
        case OP_ERASE_RANGE: return static_cast<std::size_t>(a.erase(a.begin() + o.a, a.begin() + o.b) - a.begin());
        case OP_RESIZE: a.resize(static_cast<size_type>(o.a)); return none;
        case OP_RESIZE_VAL: a.resize(static_cast<size_type>(o.a), v); return none;
        case OP_RESIZE_DEFAULT: a.resize(static_cast<size_type>(o.a), sbepp::default_init); return none;
        case OP_ASSIGN_COUNT: a.assign(static_cast<size_type>(o.a), v); return none;
        case OP_ASSIGN_ITER: a.assign(in.begin(), in.end()); return none;
        case OP_ASSIGN_INPUT_ITER:
        {
            sp_source<V> src{in.data(), in.data() + in.size()};
            a.assign(input_it<V>{src}, input_it<V>{});
            return none;
        }
        case OP_ASSIGN_ILIST:
            switch(in.size())
            {
            case 0: a.assign(std::initializer_list<V>{}); break;
            case 1: a.assign({raw[0]}); break;
            case 2: a.assign({raw[0], raw[1]}); break;
            default: a.assign({raw[0], raw[1], raw[2]}); break;
            }
            return none;
        case OP_ASSIGN_STRING:
        {
            std::string s(o.in.begin(), o.in.end());
            a.assign_string(s.c_str());
            return none;
        }
        case OP_ASSIGN_RANGE: a.assign_range(in); return none;
        case OP_CLEAR: a.clear(); return none;
        case OP_PUSH_BACK_ALIAS: a.push_back(a[static_cast<size_type>(o.v)]); return none;
        case OP_INSERT_VAL_ALIAS:
            return static_cast<std::size_t>(a.insert(a.begin() + o.a, a[static_cast<size_type>(o.v)]) - a.begin());
        case OP_INSERT_COUNT_ALIAS:
            return static_cast<std::size_t>(
                a.insert(a.begin() + o.a, static_cast<size_type>(o.b), a[static_cast<size_type>(o.v)]) - a.begin());
        case OP_RESIZE_VAL_ALIAS: a.resize(static_cast<size_type>(o.a), a[static_cast<size_type>(o.v)]); return none;
        }
        return none;
    }

    bool check_after(const op& o, const std::vector<unsigned char>& before, std::size_t old_size, std::size_t exp_ret,
                     std::size_t got_ret, bool asserted, const char* phase)
    {
        bool bad = asserted;
        std::string why;
        if(asserted)
            why += " asserted(" + std::string(vrt::astate().expr) + ")";
        if(!asserted)
        {
            if(read_prefix() != model.size())
            {
                bad = true;
                why += " prefix";
            }
            const std::size_t new_size = model.size();
            const std::size_t dont_care_from = (o.kind == OP_RESIZE_DEFAULT && new_size > old_size) ? old_size : new_size;
            for(std::size_t i = 0; i < dont_care_from && i < new_size; i++)
                if(base()[PFX + i] != static_cast<unsigned char>(model[i]))
                {
                    bad = true;
                    why += " payload";
                    break;
                }
            if(exp_ret != got_ret)
            {
                bad = true;
                why += " returned-iterator";
            }
            // canaries and the area beyond max(old,new) payload must be untouched
            const std::size_t used = (old_size > new_size ? old_size : new_size);
            for(std::size_t i = 0; i < storage.size(); i++)
            {
                const bool inside = (i >= CANARY && i < CANARY + PFX + used);
                if(!inside && storage[i] != before[i])
                {
                    bad = true;
                    char t[64];
                    std::snprintf(t, sizeof t, " outside-write@%ld", static_cast<long>(i) - static_cast<long>(CANARY));
                    why += t;
                    break;
                }
            }
            // read API agrees with the model
            carr_t ca{reinterpret_cast<const c13_byte_t*>(base()), PFX + cap};
            g_reads++;
            if(ca.size() != new_size || ca.empty() != (new_size == 0) || sbepp::size_bytes(ca) != PFX + new_size
               || static_cast<std::size_t>(ca.end() - ca.begin()) != new_size
               || reinterpret_cast<const unsigned char*>(ca.data()) != base() + PFX)
            {
                bad = true;
                why += " read-api";
            }
            else if(new_size && o.kind != OP_RESIZE_DEFAULT)
            {
                std::size_t i = new_size;
                bool ok = (ca.front() == model.front()) && (ca.back() == model.back());
                for(auto it = ca.rbegin(); it != ca.rend(); ++it)
                {
                    --i;
                    ok = ok && (*it == model[i]) && (ca[static_cast<size_type>(i)] == model[i]);
                }
                if(!ok || i != 0)
                {
                    bad = true;
                    why += " read-elements";
                }
            }
        }
        if(bad)
        {
            g_mismatch++;
            std::string st;
            for(std::size_t i = CANARY; i < CANARY + PFX + 12 && i < storage.size(); i++)
            {
                char t[4];
                std::snprintf(t, sizeof t, "%02x", storage[i]);
                st += t;
            }
            std::printf("MISMATCH inst=%s phase=%s op=[%s] old_size=%zu model_size=%zu why=%s buf=%s ret=%zd expected_ret=%zd asserted=%d\n",
                        g_inst, phase, describe(o).c_str(), old_size, model.size(), why.c_str(), st.c_str(),
                        static_cast<std::ptrdiff_t>(got_ret), static_cast<std::ptrdiff_t>(exp_ret), int(asserted));
        }
        return !bad;
    }

    // one transition on the current state; returns false on mismatch
    bool step(const op& o, const char* phase)
    {
        const std::vector<unsigned char> before = storage;
        const std::size_t old_size = model.size();
        const std::size_t exp_ret = apply_model(o);
        static volatile std::size_t got_ret;
        got_ret = static_cast<std::size_t>(-2);
        bool as = VRT_TRAPPED(got_ret = apply_impl(o));
        g_transitions++;
        g_per_op[o.kind]++;
        if(as)
            g_asserts++;
        bool ok = check_after(o, before, old_size, exp_ret, got_ret, as, phase);
        if(ok && o.kind == OP_RESIZE_DEFAULT)
        {
            // default-initialised elements are unspecified: adopt whatever the buffer holds
            for(std::size_t i = old_size; i < model.size(); i++)
                model[i] = static_cast<V>(base()[PFX + i]);
        }
        if(ok && g_samples < 6 && (g_transitions % 7919) == 3)
        {
            g_samples++;
            std::printf("SAMPLE inst=%s op=[%s] old_size=%zu new_size=%zu\n", g_inst, describe(o).c_str(), old_size,
                        model.size());
        }
        return ok && !as;
    }

    // all operation instances valid for a vector of size n whose result fits in `limit`
    static void enumerate_ops(std::size_t n, std::size_t limit, std::vector<op>& out)
    {
        const unsigned char letters[2] = {'a', 'b'};
        std::vector<std::vector<unsigned char>> inputs;
        inputs.push_back({});
        for(int l1 = 0; l1 < 2; l1++)
        {
            inputs.push_back({letters[l1]});
            for(int l2 = 0; l2 < 2; l2++)
                inputs.push_back({letters[l1], letters[l2]});
        }
        for(int l = 0; l < 2; l++)
        {
            if(n + 1 <= limit)
                out.push_back(op{OP_PUSH_BACK, 0, 0, letters[l], {}});
            for(std::size_t pos = 0; pos <= n; pos++)
            {
                if(n + 1 <= limit)
                    out.push_back(op{OP_INSERT_VAL, pos, 0, letters[l], {}});
                for(std::size_t cnt = 0; cnt <= 2; cnt++)
                    if(n + cnt <= limit)
                        out.push_back(op{OP_INSERT_COUNT, pos, cnt, letters[l], {}});
            }
            for(std::size_t cnt = 0; cnt <= n + 2 && cnt <= limit; cnt++)
            {
                out.push_back(op{OP_RESIZE_VAL, cnt, 0, letters[l], {}});
                out.push_back(op{OP_ASSIGN_COUNT, cnt, 0, letters[l], {}});
            }
        }
        if(n)
            out.push_back(op{OP_POP_BACK, 0, 0, 0, {}});
        for(std::size_t pos = 0; pos <= n; pos++)
            for(const auto& in : inputs)
                if(n + in.size() <= limit)
                {
                    out.push_back(op{OP_INSERT_FWD, pos, 0, 0, in});
                    out.push_back(op{OP_INSERT_INPUT, pos, 0, 0, in});
                    out.push_back(op{OP_INSERT_ILIST, pos, 0, 0, in});
                }
        for(std::size_t pos = 0; pos < n; pos++)
            out.push_back(op{OP_ERASE_POS, pos, 0, 0, {}});
        for(std::size_t f = 0; f <= n; f++)
            for(std::size_t l = f; l <= n; l++)
                out.push_back(op{OP_ERASE_RANGE, f, l, 0, {}});
        for(std::size_t cnt = 0; cnt <= n + 2 && cnt <= limit; cnt++)
        {
            out.push_back(op{OP_RESIZE, cnt, 0, 0, {}});
            out.push_back(op{OP_RESIZE_DEFAULT, cnt, 0, 0, {}});
        }
        for(const auto& in : inputs)
        {
            out.push_back(op{OP_ASSIGN_ITER, 0, 0, 0, in});
            out.push_back(op{OP_ASSIGN_INPUT_ITER, 0, 0, 0, in});
            out.push_back(op{OP_ASSIGN_ILIST, 0, 0, 0, in});
            out.push_back(op{OP_ASSIGN_STRING, 0, 0, 0, in});
            out.push_back(op{OP_ASSIGN_RANGE, 0, 0, 0, in});
        }
        out.push_back(op{OP_CLEAR, 0, 0, 0, {}});
        for(std::size_t i = 0; i < n; i++)
        {
            const unsigned char ai = static_cast<unsigned char>(i);
            if(n + 1 <= limit)
                out.push_back(op{OP_PUSH_BACK_ALIAS, 0, 0, ai, {}});
            for(std::size_t pos = 0; pos <= n; pos++)
            {
                if(n + 1 <= limit)
                    out.push_back(op{OP_INSERT_VAL_ALIAS, pos, 0, ai, {}});
                for(std::size_t cnt = 0; cnt <= 2; cnt++)
                    if(n + cnt <= limit)
                        out.push_back(op{OP_INSERT_COUNT_ALIAS, pos, cnt, ai, {}});
            }
            for(std::size_t cnt = 0; cnt <= n + 2 && cnt <= limit; cnt++)
                out.push_back(op{OP_RESIZE_VAL_ALIAS, cnt, 0, ai, {}});
        }
    }

    void dfs(int depth)
    {
        if(depth == 0)
            return;
        std::vector<op> ops;
        enumerate_ops(model.size(), cap, ops);
        const std::vector<V> saved_model = model;
        const std::vector<unsigned char> saved_storage = storage;
        for(const auto& o : ops)
        {
            if(step(o, "dfs"))
                dfs(depth - 1);
            model = saved_model;
            storage = saved_storage;
        }
    }

    static void run_dfs()
    {
        const unsigned char letters[2] = {'a', 'b'};
        for(std::size_t n = 0; n <= 3; n++)
            for(unsigned c = 0; c < (1u << n); c++)
            {
                tester t(16);
                std::vector<V> init;
                for(std::size_t i = 0; i < n; i++)
                    init.push_back(static_cast<V>(letters[(c >> i) & 1]));
                t.set_state(init);
                g_states_seen++;
                t.dfs(C13_DEPTH);
            }
    }

    static void run_random(unsigned long long seed)
    {
        const std::size_t maxlen = static_cast<std::size_t>(Len::max_value()) < 200 ? static_cast<std::size_t>(Len::max_value())
                                                                                 : std::size_t(200);
        // uint8 length: also walk right up to max_size()
        const std::size_t capn = (sizeof(size_type) == 1) ? std::size_t(Len::max_value()) : maxlen;
        tester t(capn);
        t.set_state({});
        unsigned long long x = seed * 6364136223846793005ULL + 1442695040888963407ULL;
        auto rnd = [&x](std::size_t n) -> std::size_t
        {
            x ^= x << 13;
            x ^= x >> 7;
            x ^= x << 17;
            return n ? static_cast<std::size_t>((x >> 11) % n) : 0;
        };
        for(unsigned long long i = 0; i < C13_RANDOM_OPS; i++)
        {
            const std::size_t n = t.model.size();
            op o{0, 0, 0, static_cast<unsigned char>(1 + rnd(255)), {}};
            o.kind = static_cast<int>(rnd(OP_KINDS));
            const std::size_t room = capn - n;
            std::size_t inlen = rnd(7);
            bool valid = true;
            switch(o.kind)
            {
            case OP_PUSH_BACK: valid = room >= 1; break;
            case OP_POP_BACK: valid = n >= 1; break;
            case OP_INSERT_VAL: valid = room >= 1; o.a = rnd(n + 1); break;
            case OP_INSERT_COUNT: o.a = rnd(n + 1); o.b = rnd(room < 9 ? room + 1 : 9); break;
            case OP_INSERT_FWD:
            case OP_INSERT_INPUT:
                o.a = rnd(n + 1);
                if(inlen > room)
                    inlen = room;
                break;
            case OP_INSERT_ILIST:
                o.a = rnd(n + 1);
                inlen = inlen % 4;
                if(inlen > room)
                    inlen = room;
                break;
            case OP_ERASE_POS: valid = n >= 1; o.a = rnd(n); break;
            case OP_ERASE_RANGE: o.a = rnd(n + 1); o.b = o.a + rnd(n - o.a + 1); break;
            case OP_RESIZE:
            case OP_RESIZE_VAL:
            case OP_RESIZE_DEFAULT:
            case OP_ASSIGN_COUNT:
                // bias towards staying large so that boundaries near capacity are hit
            {
                const std::size_t grow = n + rnd(5);
                o.a = (rnd(4) == 0) ? rnd(capn + 1) : (grow <= capn ? grow : capn);
            }
                break;
            case OP_PUSH_BACK_ALIAS: valid = room >= 1 && n >= 1; o.v = static_cast<unsigned char>(rnd(n)); break;
            case OP_INSERT_VAL_ALIAS: valid = room >= 1 && n >= 1; o.a = rnd(n + 1); o.v = static_cast<unsigned char>(rnd(n)); break;
            case OP_INSERT_COUNT_ALIAS:
                valid = n >= 1;
                o.a = rnd(n + 1);
                o.b = rnd(room < 9 ? room + 1 : 9);
                o.v = static_cast<unsigned char>(rnd(n));
                break;
            case OP_RESIZE_VAL_ALIAS:
            {
                valid = n >= 1;
                const std::size_t grow = n + rnd(5);
                o.a = (rnd(4) == 0) ? rnd(capn + 1) : (grow <= capn ? grow : capn);
                o.v = static_cast<unsigned char>(rnd(n));
            }
                break;
            case OP_ASSIGN_ILIST: inlen = inlen % 4; break;
            case OP_ASSIGN_ITER:
            case OP_ASSIGN_INPUT_ITER:
            case OP_ASSIGN_STRING:
            case OP_ASSIGN_RANGE:
                inlen = (rnd(8) == 0) ? rnd(capn + 1) : inlen;
                break;
            default: break;
            }
            if(!valid)
                continue;
            if(o.kind >= OP_INSERT_FWD && o.kind <= OP_INSERT_ILIST || o.kind >= OP_ASSIGN_ITER && o.kind <= OP_ASSIGN_RANGE)
                for(std::size_t k = 0; k < inlen; k++)
                    o.in.push_back(static_cast<unsigned char>(1 + rnd(255)));
            g_random_ops++;
            if(!t.step(o, "random"))
            {
                // resynchronise the buffer with the model and carry on
                t.set_state(t.model);
            }
        }
    }
};

template<typename Len>
static void run_len(const char* lname, unsigned long long seed)
{
    static char names[6][64];
    int k = 0;
#define RUN(V, VN, E, EN)                                                        \
    std::snprintf(names[k], sizeof names[k], "%s/%s/%s", lname, VN, EN);         \
    g_inst = names[k++];                                                         \
    tester<Len, V, E>::run_dfs();                                                \
    tester<Len, V, E>::run_random(seed + k);                                     \
    std::printf("DONE inst=%s transitions=%llu\n", g_inst, g_transitions);
    RUN(char, "char", sbepp::endian::little, "le")
    RUN(char, "char", sbepp::endian::big, "be")
    RUN(std::uint8_t, "uint8", sbepp::endian::little, "le")
    RUN(std::uint8_t, "uint8", sbepp::endian::big, "be")
    RUN(std::int8_t, "int8", sbepp::endian::little, "le")
    RUN(std::int8_t, "int8", sbepp::endian::big, "be")
#undef RUN
}

int main(int argc, char** argv)
{
    unsigned long long seed = argc > 1 ? std::strtoull(argv[1], nullptr, 10) : 1;
#if C13_LEN == 0
    run_len<sbepp::uint8_t>("uint8", seed);
#elif C13_LEN == 1
    run_len<sbepp::uint16_t>("uint16", seed);
#elif C13_LEN == 2
    run_len<sbepp::uint32_t>("uint32", seed);
#else
    run_len<sbepp::uint64_t>("uint64", seed);
#endif
    for(int i = 0; i < OP_KINDS; i++)
        std::printf("OP %s %llu\n", op_names[i], g_per_op[i]);
    std::printf("TOTAL transitions=%llu random_ops=%llu start_states=%llu reads=%llu mismatches=%llu asserts=%llu\n",
                g_transitions, g_random_ops, g_states_seen, g_reads, g_mismatch, g_asserts);
    return 0;
}
