// C14, constant-evaluation leg (C++20 and later).  static_array_ref's operations are constexpr there, so a call evaluated
// in a constant expression is an execution like any other and must write the documented bytes / return the documented
// length.  Exhaustive over N <= C14_CXN, every initial content over {NUL,a,b}^N, every input of length 0..N over the same
// alphabet, every eos mode, for the overloads usable in constant expressions (element type == byte type == char).
// The array sits inside a larger buffer: one guard byte in front, and the tail "xy\0z" behind it -- the bytes a reader that
// runs past element N-1 would meet.  Every cell is evaluated
//   (1) in a forced constant expression (`static constexpr auto table = run_all<N>()`),
//   (2) at run time through the same function,
//   (3) by the reference (documented meaning), and all three are compared (bytes incl. guard and tail, returned value).
#include <sbepp/sbepp.hpp>

#include <array>
#include <cstdint>
#include <cstdio>
#include <cstring>
#include <string>
#include <string_view>

#if !SBEPP_HAS_CONSTEXPR_ACCESSORS
#    error "this leg needs constexpr accessors (C++20)"
#endif
#ifndef C14_CXN
#    define C14_CXN 3
#endif

struct tag_t
{
};

enum
{
    K_STRLEN, K_STRLEN_R, K_STRLEN_CONST, K_STRLEN_R_CONST, K_ASSIGN_STRING_CSTR, K_ASSIGN_STRING_RANGE, K_ASSIGN_STRING_CSTR_DEFAULT,
    K_ASSIGN_STRING_RANGE_DEFAULT, K_ASSIGN_RANGE, K_ASSIGN_ITER, K_ASSIGN_ILIST, K_ASSIGN_COUNT, K_FILL, K_RAW_ASSIGN_RANGE, K_KINDS
};
static const char* const kind_names[K_KINDS] = {"strlen", "strlen_r", "strlen/const-view", "strlen_r/const-view", "assign_string_cstr",
                                                 "assign_string_range", "assign_string_cstr/default-eos", "assign_string_range/default-eos",
                                                 "assign_range", "assign_iter", "assign_ilist", "assign_count", "fill", "raw_assign_range"};

constexpr char alphabet[3] = {'\0', 'a', 'b'};
constexpr std::size_t TAIL = 4;
constexpr char tail_bytes[TAIL] = {'x', 'y', '\0', 'z'};
constexpr char GUARD = '\x6e';

struct cell_id
{
    int kind;
    unsigned ic;  // initial content number
    unsigned L;   // input length
    unsigned inc; // input content number (or letter for count/fill)
    int mode;     // eos mode 0..2, -1 none
};

template<std::size_t N>
struct result
{
    std::array<char, 1 + N + TAIL> bytes{};
    std::size_t ret = 0;
    constexpr bool operator==(const result& o) const
    {
        return bytes == o.bytes && ret == o.ret;
    }
};

constexpr unsigned pow3(std::size_t n)
{
    unsigned r = 1;
    while(n--)
        r *= 3;
    return r;
}

constexpr void decode(unsigned c, std::size_t n, char* out)
{
    for(std::size_t i = 0; i < n; i++)
    {
        out[i] = alphabet[c % 3];
        c /= 3;
    }
}

constexpr bool has_nul(unsigned c, std::size_t n)
{
    for(std::size_t i = 0; i < n; i++)
    {
        if(c % 3 == 0)
            return true;
        c /= 3;
    }
    return false;
}

// the enumeration of the scope, shared by the constant-evaluated table, the run-time pass and the counters
template<std::size_t N, typename F>
constexpr void enumerate(F&& f)
{
    for(unsigned ic = 0; ic < pow3(N); ic++)
    {
        for(int k = K_STRLEN; k <= K_STRLEN_R_CONST; k++)
        {
#if !SBEPP_HAS_IS_CONSTANT_EVALUATED
            // without std::is_constant_evaluated() (here: switched off by the harness for clang 14 in c++2b mode, DESIGN 2.1)
            // strlen() has only its memchr branch and is documented as not usable in constant expressions
            if(k == K_STRLEN || k == K_STRLEN_CONST)
                continue;
#endif
            f(cell_id{k, ic, 0, 0, -1});
        }
        for(unsigned L = 0; L <= N; L++)
        {
            for(unsigned inc = 0; inc < pow3(L); inc++)
            {
                for(int m = 0; m < 3; m++)
                {
                    if(!has_nul(inc, L))
                        f(cell_id{K_ASSIGN_STRING_CSTR, ic, L, inc, m});
                    f(cell_id{K_ASSIGN_STRING_RANGE, ic, L, inc, m});
                }
                if(!has_nul(inc, L))
                {
                    f(cell_id{K_ASSIGN_STRING_CSTR_DEFAULT, ic, L, inc, 2});
                    f(cell_id{K_ASSIGN_STRING_RANGE_DEFAULT, ic, L, inc, 2});
                }
                f(cell_id{K_ASSIGN_RANGE, ic, L, inc, -1});
                f(cell_id{K_ASSIGN_ITER, ic, L, inc, -1});
                f(cell_id{K_ASSIGN_ILIST, ic, L, inc, -1});
                f(cell_id{K_RAW_ASSIGN_RANGE, ic, L, inc, -1});
            }
            for(unsigned letter = 0; letter < 3; letter++)
                f(cell_id{K_ASSIGN_COUNT, ic, L, letter, -1});
        }
        for(unsigned letter = 0; letter < 3; letter++)
            f(cell_id{K_FILL, ic, static_cast<unsigned>(N), letter, -1});
    }
}

template<std::size_t N>
constexpr std::size_t count_cells()
{
    std::size_t n = 0;
    enumerate<N>([&](const cell_id&) { n++; });
    return n;
}

template<std::size_t N>
constexpr result<N> run_cell(const cell_id& c)
{
    using arr_t = sbepp::detail::static_array_ref<char, char, N, tag_t>;
    using carr_t = sbepp::detail::static_array_ref<const char, char, N, tag_t>;
    constexpr sbepp::eos_null modes[3] = {sbepp::eos_null::none, sbepp::eos_null::single, sbepp::eos_null::all};
    result<N> r{};
    r.bytes[0] = GUARD;
    decode(c.ic, N, r.bytes.data() + 1);
    for(std::size_t i = 0; i < TAIL; i++)
        r.bytes[1 + N + i] = tail_bytes[i];
    char in[N + 2] = {};
    decode(c.inc, c.L, in);
    in[c.L] = '\0';
    const char* const pin = in;
    const arr_t a{r.bytes.data() + 1, N + TAIL};
    const carr_t ca{r.bytes.data() + 1, N + TAIL};
    switch(c.kind)
    {
    case K_STRLEN: r.ret = a.strlen(); break;
    case K_STRLEN_R: r.ret = a.strlen_r(); break;
    case K_STRLEN_CONST: r.ret = ca.strlen(); break;
    case K_STRLEN_R_CONST: r.ret = ca.strlen_r(); break;
    case K_ASSIGN_STRING_CSTR: r.ret = static_cast<std::size_t>(a.assign_string(pin, modes[c.mode]) - a.begin()); break;
    case K_ASSIGN_STRING_RANGE:
        r.ret = static_cast<std::size_t>(a.assign_string(std::string_view{pin, c.L}, modes[c.mode]) - a.begin());
        break;
    case K_ASSIGN_STRING_CSTR_DEFAULT: r.ret = static_cast<std::size_t>(a.assign_string(pin) - a.begin()); break;
    case K_ASSIGN_STRING_RANGE_DEFAULT: r.ret = static_cast<std::size_t>(a.assign_string(std::string_view{pin, c.L}) - a.begin()); break;
    case K_ASSIGN_RANGE: r.ret = static_cast<std::size_t>(a.assign_range(std::string_view{pin, c.L}) - a.begin()); break;
    case K_ASSIGN_ITER: r.ret = static_cast<std::size_t>(a.assign(pin, pin + c.L) - a.begin()); break;
    case K_ASSIGN_ILIST:
        switch(c.L)
        {
        case 0: r.ret = static_cast<std::size_t>(a.assign(std::initializer_list<char>{}) - a.begin()); break;
        case 1: r.ret = static_cast<std::size_t>(a.assign({in[0]}) - a.begin()); break;
        case 2: r.ret = static_cast<std::size_t>(a.assign({in[0], in[1]}) - a.begin()); break;
        case 3: r.ret = static_cast<std::size_t>(a.assign({in[0], in[1], in[2]}) - a.begin()); break;
        default: r.ret = static_cast<std::size_t>(a.assign({in[0], in[1], in[2], in[3]}) - a.begin()); break;
        }
        break;
    case K_ASSIGN_COUNT: r.ret = static_cast<std::size_t>(a.assign(c.L, alphabet[c.inc]) - a.begin()); break;
    case K_FILL:
        a.fill(alphabet[c.inc]);
        r.ret = N;
        break;
    case K_RAW_ASSIGN_RANGE: r.ret = static_cast<std::size_t>(a.raw().assign_range(std::string_view{pin, c.L}) - a.raw().begin()); break;
    default: break;
    }
    return r;
}

// the documented meaning
template<std::size_t N>
static result<N> reference(const cell_id& c)
{
    result<N> r{};
    r.bytes[0] = GUARD;
    decode(c.ic, N, r.bytes.data() + 1);
    for(std::size_t i = 0; i < TAIL; i++)
        r.bytes[1 + N + i] = tail_bytes[i];
    char* arr = r.bytes.data() + 1;
    if(c.kind <= K_STRLEN_R_CONST)
    {
        std::size_t l = N, rr = 0;
        for(std::size_t i = 0; i < N; i++)
            if(arr[i] == 0)
            {
                l = i;
                break;
            }
        for(std::size_t i = N; i > 0; i--)
            if(arr[i - 1] != 0)
            {
                rr = i;
                break;
            }
        r.ret = (c.kind == K_STRLEN || c.kind == K_STRLEN_CONST) ? l : rr;
        return r;
    }
    char in[N + 2] = {};
    std::size_t L = c.L;
    if(c.kind == K_ASSIGN_COUNT || c.kind == K_FILL)
        for(std::size_t i = 0; i < L; i++)
            in[i] = alphabet[c.inc];
    else
        decode(c.inc, L, in);
    for(std::size_t i = 0; i < L; i++)
        arr[i] = in[i];
    if(c.mode == 2)
        for(std::size_t i = L; i < N; i++)
            arr[i] = 0;
    else if(c.mode == 1 && L < N)
        arr[L] = 0;
    r.ret = L;
    return r;
}

template<std::size_t N>
constexpr auto run_all()
{
    std::array<result<N>, count_cells<N>()> all{};
    std::size_t i = 0;
    enumerate<N>([&](const cell_id& c) { all[i++] = run_cell<N>(c); });
    return all;
}

static unsigned long long g_cells = 0, g_mismatch = 0, g_per_kind[K_KINDS];

static std::string hex(const char* p, std::size_t n)
{
    static const char* d = "0123456789abcdef";
    std::string s;
    for(std::size_t i = 0; i < n; i++)
    {
        s.push_back(d[(static_cast<unsigned char>(p[i]) >> 4) & 15]);
        s.push_back(d[static_cast<unsigned char>(p[i]) & 15]);
    }
    return s;
}

template<std::size_t N>
static void check()
{
    static constexpr auto table = run_all<N>(); // (1) forced constant evaluation of every cell
    std::size_t i = 0;
    enumerate<N>(
        [&](const cell_id& c)
        {
            volatile unsigned vic = c.ic; // (2) the same function at run time
            cell_id rc = c;
            rc.ic = vic;
            const auto rt = run_cell<N>(rc);
            const auto md = reference<N>(c); // (3) the documented meaning
            const auto& cx = table[i++];
            g_cells++;
            g_per_kind[c.kind]++;
            if(!(cx == md) || !(cx == rt))
            {
                g_mismatch++;
                char init[N + 1] = {}, in[N + 1] = {};
                decode(c.ic, N, init);
                decode(c.inc, c.L, in);
                std::printf("MISMATCH op=%s N=%zu mode=%d init=%s L=%u in=%s constexpr=%s ret=%zu runtime=%s ret=%zu expected=%s ret=%zu %s\n",
                            kind_names[c.kind], N, c.mode, hex(init, N).c_str(), c.L, hex(in, c.L).c_str(),
                            hex(cx.bytes.data(), cx.bytes.size()).c_str(), cx.ret, hex(rt.bytes.data(), rt.bytes.size()).c_str(), rt.ret,
                            hex(md.bytes.data(), md.bytes.size()).c_str(), md.ret, (cx == rt) ? "constexpr==runtime" : "constexpr!=runtime");
            }
        });
    std::printf("CXDONE N=%zu cells=%zu\n", N, i);
}

template<std::size_t N>
struct for_n
{
    static void run()
    {
        for_n<N - 1>::run();
        check<N>();
    }
};
template<>
struct for_n<0>
{
    static void run()
    {
        check<0>();
    }
};

int main()
{
    static_assert(C14_CXN <= 4, "the initializer_list switch handles up to four elements");
    for_n<C14_CXN>::run();
    for(int k = 0; k < K_KINDS; k++)
        std::printf("CXOP %s %llu\n", kind_names[k], g_per_kind[k]);
#if !SBEPP_HAS_IS_CONSTANT_EVALUATED
    std::printf("CXNOTE strlen-not-constant-evaluated\n");
#endif
    std::printf("CXTOTAL cells=%llu mismatches=%llu\n", g_cells, g_mismatch);
    return 0;
}
