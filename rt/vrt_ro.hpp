// C11 static half: detection idioms for every library-level mutator of array / data / group /
// message views and for view/cursor conversions.  The generated probe TU adds one detector per
// generated setter.  Each line: "C <path> <op> <byte-mutable> <cursor: - | m | c> <callable>".
#pragma once
#include "vrt_traits.hpp"
#include <initializer_list>
#include <string>
#include <vector>

namespace vro
{
using vt::void_t;

#define VRO_DETECT(NAME, EXPR)                                 \
    template<typename V, typename = void>                      \
    struct NAME : std::false_type                              \
    {                                                          \
    };                                                         \
    template<typename V>                                       \
    struct NAME<V, void_t<decltype(EXPR)>> : std::true_type    \
    {                                                          \
    };

// byte constness of the view an expression yields: -1 expression ill-formed, 0 mutable bytes, 1 const bytes
#define VRO_RESULT_BYTE(NAME, EXPR)                                                                         \
    template<typename V, typename = void>                                                                   \
    struct NAME                                                                                             \
    {                                                                                                       \
        static const int value = -1;                                                                        \
    };                                                                                                      \
    template<typename V>                                                                                    \
    struct NAME<V, void_t<decltype(EXPR)>>                                                                  \
    {                                                                                                       \
        static const int value = std::is_const<sbepp::byte_type_t<decltype(EXPR)>>::value ? 1 : 0;         \
    };

template<typename V>
using vt_of = typename V::value_type;
template<typename V>
using it_of = typename V::iterator;
template<typename V>
using sz_of = typename V::size_type;

// ---- static_array_ref
VRO_DETECT(a_assign_string_cstr, std::declval<V>().assign_string(std::declval<const char*>()))
VRO_DETECT(a_assign_string_mode, std::declval<V>().assign_string(std::declval<const char*>(), sbepp::eos_null::none))
VRO_DETECT(a_assign_string_range, std::declval<V>().assign_string(std::declval<std::string&>()))
VRO_DETECT(a_assign_range, std::declval<V>().assign_range(std::declval<std::vector<vt_of<V>>&>()))
VRO_DETECT(a_fill, std::declval<V>().fill(std::declval<vt_of<V>>()))
VRO_DETECT(a_assign_count, std::declval<V>().assign(std::size_t(1), std::declval<vt_of<V>>()))
VRO_DETECT(a_assign_iter, std::declval<V>().assign(std::declval<const vt_of<V>*>(), std::declval<const vt_of<V>*>()))
VRO_DETECT(a_assign_ilist, std::declval<V>().assign(std::declval<std::initializer_list<vt_of<V>>>()))
VRO_DETECT(a_elem_assign, std::declval<V>()[0] = std::declval<vt_of<V>>())
VRO_DETECT(a_front_assign, std::declval<V>().front() = std::declval<vt_of<V>>())
VRO_DETECT(a_deref_begin_assign, *std::declval<V>().begin() = std::declval<vt_of<V>>())
VRO_DETECT(a_data_assign, *std::declval<V>().data() = std::declval<vt_of<V>>())
VRO_DETECT(a_raw_elem_assign, std::declval<V>().raw()[0] = std::declval<typename std::remove_cv<sbepp::byte_type_t<V>>::type>())

// ---- dynamic_array_ref
VRO_DETECT(d_clear, std::declval<V>().clear())
VRO_DETECT(d_resize, std::declval<V>().resize(std::declval<sz_of<V>>()))
VRO_DETECT(d_resize_val, std::declval<V>().resize(std::declval<sz_of<V>>(), std::declval<vt_of<V>>()))
VRO_DETECT(d_resize_default, std::declval<V>().resize(std::declval<sz_of<V>>(), sbepp::default_init))
VRO_DETECT(d_push_back, std::declval<V>().push_back(std::declval<vt_of<V>>()))
VRO_DETECT(d_pop_back, std::declval<V>().pop_back())
VRO_DETECT(d_erase_pos, std::declval<V>().erase(std::declval<it_of<V>>()))
VRO_DETECT(d_erase_range, std::declval<V>().erase(std::declval<it_of<V>>(), std::declval<it_of<V>>()))
VRO_DETECT(d_insert_val, std::declval<V>().insert(std::declval<it_of<V>>(), std::declval<vt_of<V>>()))
VRO_DETECT(d_insert_count, std::declval<V>().insert(std::declval<it_of<V>>(), std::declval<sz_of<V>>(), std::declval<vt_of<V>>()))
VRO_DETECT(d_insert_iter, std::declval<V>().insert(std::declval<it_of<V>>(), std::declval<const vt_of<V>*>(), std::declval<const vt_of<V>*>()))
VRO_DETECT(d_insert_ilist, std::declval<V>().insert(std::declval<it_of<V>>(), std::declval<std::initializer_list<vt_of<V>>>()))
VRO_DETECT(d_assign_count, std::declval<V>().assign(std::declval<sz_of<V>>(), std::declval<vt_of<V>>()))
VRO_DETECT(d_assign_iter, std::declval<V>().assign(std::declval<const vt_of<V>*>(), std::declval<const vt_of<V>*>()))
VRO_DETECT(d_assign_ilist, std::declval<V>().assign(std::declval<std::initializer_list<vt_of<V>>>()))
VRO_DETECT(d_assign_string, std::declval<V>().assign_string(std::declval<const char*>()))
VRO_DETECT(d_assign_range, std::declval<V>().assign_range(std::declval<std::vector<vt_of<V>>&>()))
VRO_DETECT(d_elem_assign, std::declval<V>()[0] = std::declval<vt_of<V>>())
VRO_DETECT(d_front_assign, std::declval<V>().front() = std::declval<vt_of<V>>())
VRO_DETECT(d_back_assign, std::declval<V>().back() = std::declval<vt_of<V>>())
VRO_DETECT(d_data_assign, *std::declval<V>().data() = std::declval<vt_of<V>>())
VRO_DETECT(d_raw_clear, std::declval<V>().raw().clear())

// ---- groups / messages
VRO_DETECT(g_resize, std::declval<V>().resize(std::declval<sz_of<V>>()))
VRO_DETECT(g_clear, std::declval<V>().clear())
VRO_DETECT(g_fill_header, sbepp::fill_group_header(std::declval<V>(), std::declval<sz_of<V>>()))
VRO_DETECT(g_header_setter, sbepp::get_header(std::declval<V>()).numInGroup(std::declval<decltype(sbepp::get_header(std::declval<V>()).numInGroup())>()))
VRO_DETECT(m_fill_header, sbepp::fill_message_header(std::declval<V>()))
VRO_DETECT(m_header_setter, sbepp::get_header(std::declval<V>()).blockLength(std::declval<decltype(sbepp::get_header(std::declval<V>()).blockLength())>()))

template<typename V>
inline const char* mut()
{
    return std::is_const<sbepp::byte_type_t<V>>::value ? "0" : "1";
}

inline void C(const std::string& path, const char* op, const char* byte_mutable, const char* cursor, bool callable)
{
    vrt::line("C " + path + " " + op + " " + byte_mutable + " " + cursor + " " + (callable ? "1" : "0"));
}

inline void B(const std::string& path, const char* wrapper, const char* view_mutable, const char* cursor_mutable, int result_const)
{
    vrt::line("B " + path + " " + wrapper + " " + view_mutable + " " + cursor_mutable + " " + std::to_string(result_const));
}

#define VRO_ROW(DET) C(p, #DET, mut<V>(), "-", DET<V>::value)

template<typename V>
inline void probe_array(const std::string& p)
{
    VRO_ROW(a_assign_string_cstr);
    VRO_ROW(a_assign_string_mode);
    VRO_ROW(a_assign_string_range);
    VRO_ROW(a_assign_range);
    VRO_ROW(a_fill);
    VRO_ROW(a_assign_count);
    VRO_ROW(a_assign_iter);
    VRO_ROW(a_assign_ilist);
    VRO_ROW(a_elem_assign);
    VRO_ROW(a_front_assign);
    VRO_ROW(a_deref_begin_assign);
    VRO_ROW(a_data_assign);
    VRO_ROW(a_raw_elem_assign);
}
template<typename V>
inline void probe_data(const std::string& p)
{
    VRO_ROW(d_clear);
    VRO_ROW(d_resize);
    VRO_ROW(d_resize_val);
    VRO_ROW(d_resize_default);
    VRO_ROW(d_push_back);
    VRO_ROW(d_pop_back);
    VRO_ROW(d_erase_pos);
    VRO_ROW(d_erase_range);
    VRO_ROW(d_insert_val);
    VRO_ROW(d_insert_count);
    VRO_ROW(d_insert_iter);
    VRO_ROW(d_insert_ilist);
    VRO_ROW(d_assign_count);
    VRO_ROW(d_assign_iter);
    VRO_ROW(d_assign_ilist);
    VRO_ROW(d_assign_string);
    VRO_ROW(d_assign_range);
    VRO_ROW(d_elem_assign);
    VRO_ROW(d_front_assign);
    VRO_ROW(d_back_assign);
    VRO_ROW(d_data_assign);
    VRO_ROW(d_raw_clear);
}
template<typename V>
inline void probe_group(const std::string& p)
{
    VRO_ROW(g_resize);
    VRO_ROW(g_clear);
    VRO_ROW(g_fill_header);
    VRO_ROW(g_header_setter);
}
template<typename V>
inline void probe_message(const std::string& p)
{
    VRO_ROW(m_fill_header);
    VRO_ROW(m_header_setter);
}

// conversions: towards more const only
template<typename Mutable, typename Const>
inline void probe_conv(const std::string& p)
{
    vrt::line("V " + p + " mutable->const " + (std::is_convertible<Mutable, Const>::value ? "1" : "0"));
    vrt::line("V " + p + " const->mutable " + (std::is_convertible<Const, Mutable>::value ? "1" : "0"));
    vrt::line("V " + p + " const->mutable-explicit " + (std::is_constructible<Mutable, Const>::value ? "1" : "0"));
    vrt::line("V " + p + " const-assign-to-mutable " + (std::is_assignable<Mutable&, Const>::value ? "1" : "0"));
}
} // namespace vro
