// LD_PRELOAD fault injector for sbeppc's output path (C20).
//   VERIF_SHIM_DIR   only calls that target this directory (or fds opened under it) are counted
//   VERIF_SHIM_LOG   log file (appended): "CALL k <name> <detail>" / "INJECTED k <name> <what>"
//   VERIF_SHIM_K     1-based index of the counted call to disturb (0 = dry run, count only)
//   VERIF_SHIM_KIND  errno number for a failure, or "short" (genuine short write, then the rest proceeds),
//                    or "short-then-<errno>" (short write, the retry on the same fd fails)
#define _GNU_SOURCE
#include <dlfcn.h>
#include <errno.h>
#include <fcntl.h>
#include <stdarg.h>
#include <stdio.h>
#include <stdlib.h>
#include <string.h>
#include <sys/stat.h>
#include <sys/types.h>
#include <sys/uio.h>
#include <unistd.h>

static int g_init = 0;
static const char* g_dir = 0;
static size_t g_dirlen = 0;
static int g_logfd = -1;
static long g_k = 0, g_count = 0;
static int g_errno = 0, g_short = 0, g_then_errno = 0;
static int g_pending_fail_fd = -1;
static unsigned char g_tracked[4096];

static ssize_t (*real_write)(int, const void*, size_t);
static ssize_t (*real_writev)(int, const struct iovec*, int);
static int (*real_mkdir)(const char*, mode_t);
static int (*real_mkdirat)(int, const char*, mode_t);
static FILE* (*real_fopen)(const char*, const char*);
static FILE* (*real_fopen64)(const char*, const char*);
static int (*real_open)(const char*, int, ...);
static int (*real_open64)(const char*, int, ...);
static int (*real_openat)(int, const char*, int, ...);
static int (*real_close)(int);
static int (*real_rename)(const char*, const char*);
static int (*real_renameat)(int, const char*, int, const char*);
static int (*real_renameat2)(int, const char*, int, const char*, unsigned);
static int (*real_link)(const char*, const char*);
static int (*real_linkat)(int, const char*, int, const char*, int);

static void shim_init(void)
{
    if(g_init)
        return;
    g_init = 1;
    real_write = dlsym(RTLD_NEXT, "write");
    real_writev = dlsym(RTLD_NEXT, "writev");
    real_mkdir = dlsym(RTLD_NEXT, "mkdir");
    real_mkdirat = dlsym(RTLD_NEXT, "mkdirat");
    real_fopen = dlsym(RTLD_NEXT, "fopen");
    real_fopen64 = dlsym(RTLD_NEXT, "fopen64");
    real_open = dlsym(RTLD_NEXT, "open");
    real_open64 = dlsym(RTLD_NEXT, "open64");
    real_openat = dlsym(RTLD_NEXT, "openat");
    real_close = dlsym(RTLD_NEXT, "close");
    real_rename = dlsym(RTLD_NEXT, "rename");
    real_renameat = dlsym(RTLD_NEXT, "renameat");
    real_renameat2 = dlsym(RTLD_NEXT, "renameat2");
    real_link = dlsym(RTLD_NEXT, "link");
    real_linkat = dlsym(RTLD_NEXT, "linkat");
    g_dir = getenv("VERIF_SHIM_DIR");
    g_dirlen = g_dir ? strlen(g_dir) : 0;
    const char* k = getenv("VERIF_SHIM_K");
    g_k = k ? atol(k) : 0;
    const char* kind = getenv("VERIF_SHIM_KIND");
    if(kind)
    {
        if(strncmp(kind, "short-then-", 11) == 0)
        {
            g_short = 1;
            g_then_errno = atoi(kind + 11);
        }
        else if(strcmp(kind, "short") == 0)
            g_short = 1;
        else
            g_errno = atoi(kind);
    }
    const char* log = getenv("VERIF_SHIM_LOG");
    if(log && real_open)
    {
        g_logfd = real_open(log, O_WRONLY | O_CREAT | O_APPEND, 0644);
        if(g_logfd >= 0 && g_logfd < 4096)
            g_tracked[g_logfd] = 0;
    }
}

static void logline(const char* fmt, ...)
{
    if(g_logfd < 0)
        return;
    char buf[600];
    va_list ap;
    va_start(ap, fmt);
    int n = vsnprintf(buf, sizeof buf, fmt, ap);
    va_end(ap);
    if(n > 0)
        real_write(g_logfd, buf, (size_t)(n < (int)sizeof buf ? n : (int)sizeof buf - 1));
}

static int under_dir(const char* path)
{
    return g_dir && path && strncmp(path, g_dir, g_dirlen) == 0;
}

// returns 1 if this counted call is the one to disturb
static int counted(const char* name, const char* detail)
{
    g_count++;
    logline("CALL %ld %s %s\n", g_count, name, detail ? detail : "");
    return g_k && g_count == g_k;
}

int mkdir(const char* path, mode_t mode)
{
    shim_init();
    if(under_dir(path) && counted("mkdir", path) && g_errno)
    {
        logline("INJECTED %ld mkdir errno=%d\n", g_count, g_errno);
        errno = g_errno;
        return -1;
    }
    return real_mkdir(path, mode);
}

// A writer that builds each file under a temporary name and moves it into place reaches the destination through
// rename/link: those calls are output-directed too (none is made by the current sbeppc; counted when they appear).
int rename(const char* from, const char* to)
{
    shim_init();
    if((under_dir(to) || under_dir(from)) && counted("rename", to) && g_errno)
    {
        logline("INJECTED %ld rename errno=%d\n", g_count, g_errno);
        errno = g_errno;
        return -1;
    }
    return real_rename(from, to);
}

int renameat(int fd1, const char* from, int fd2, const char* to)
{
    shim_init();
    if((under_dir(to) || under_dir(from)) && counted("renameat", to) && g_errno)
    {
        logline("INJECTED %ld renameat errno=%d\n", g_count, g_errno);
        errno = g_errno;
        return -1;
    }
    return real_renameat(fd1, from, fd2, to);
}

int renameat2(int fd1, const char* from, int fd2, const char* to, unsigned flags)
{
    shim_init();
    if((under_dir(to) || under_dir(from)) && counted("renameat2", to) && g_errno)
    {
        logline("INJECTED %ld renameat2 errno=%d\n", g_count, g_errno);
        errno = g_errno;
        return -1;
    }
    if(real_renameat2)
        return real_renameat2(fd1, from, fd2, to, flags);
    return real_renameat(fd1, from, fd2, to);
}

int link(const char* from, const char* to)
{
    shim_init();
    if((under_dir(to) || under_dir(from)) && counted("link", to) && g_errno)
    {
        logline("INJECTED %ld link errno=%d\n", g_count, g_errno);
        errno = g_errno;
        return -1;
    }
    return real_link(from, to);
}

int linkat(int fd1, const char* from, int fd2, const char* to, int flags)
{
    shim_init();
    if((under_dir(to) || under_dir(from)) && counted("linkat", to) && g_errno)
    {
        logline("INJECTED %ld linkat errno=%d\n", g_count, g_errno);
        errno = g_errno;
        return -1;
    }
    return real_linkat(fd1, from, fd2, to, flags);
}

int mkdirat(int dfd, const char* path, mode_t mode)
{
    shim_init();
    if(under_dir(path) && counted("mkdirat", path) && g_errno)
    {
        logline("INJECTED %ld mkdirat errno=%d\n", g_count, g_errno);
        errno = g_errno;
        return -1;
    }
    return real_mkdirat(dfd, path, mode);
}

static void track(int fd)
{
    if(fd >= 0 && fd < 4096)
        g_tracked[fd] = 1;
}

#define OPEN_BODY(NAME, CALL)                                      \
    shim_init();                                                   \
    int is_out = under_dir(path) && (flags & (O_WRONLY | O_RDWR)); \
    if(is_out && counted(NAME, path) && g_errno)                   \
    {                                                              \
        logline("INJECTED %ld " NAME " errno=%d\n", g_count, g_errno); \
        errno = g_errno;                                           \
        return -1;                                                 \
    }                                                              \
    mode_t mode = 0;                                               \
    if(flags & (O_CREAT | O_TMPFILE))                              \
    {                                                              \
        va_list ap;                                                \
        va_start(ap, flags);                                       \
        mode = va_arg(ap, mode_t);                                 \
        va_end(ap);                                                \
    }                                                              \
    int fd = CALL;                                                 \
    if(is_out)                                                     \
        track(fd);                                                 \
    return fd;

int open(const char* path, int flags, ...)
{
    OPEN_BODY("open", real_open(path, flags, mode))
}

int open64(const char* path, int flags, ...)
{
    OPEN_BODY("open64", real_open64(path, flags, mode))
}

int openat(int dfd, const char* path, int flags, ...)
{
    OPEN_BODY("openat", real_openat(dfd, path, flags, mode))
}

static FILE* fopen_common(const char* name, FILE* (*real)(const char*, const char*), const char* path, const char* mode)
{
    shim_init();
    int is_out = under_dir(path) && mode && (strchr(mode, 'w') || strchr(mode, 'a') || strchr(mode, '+'));
    if(is_out && counted(name, path) && g_errno)
    {
        logline("INJECTED %ld %s errno=%d\n", g_count, name, g_errno);
        errno = g_errno;
        return 0;
    }
    FILE* f = real(path, mode);
    if(f && is_out)
        track(fileno(f));
    return f;
}

FILE* fopen(const char* path, const char* mode)
{
    shim_init();
    return fopen_common("fopen", real_fopen, path, mode);
}

FILE* fopen64(const char* path, const char* mode)
{
    shim_init();
    return fopen_common("fopen64", real_fopen64, path, mode);
}

int close(int fd)
{
    shim_init();
    if(fd >= 0 && fd < 4096)
        g_tracked[fd] = 0;
    if(fd == g_pending_fail_fd)
        g_pending_fail_fd = -1;
    return real_close(fd);
}

ssize_t write(int fd, const void* buf, size_t n)
{
    shim_init();
    if(fd >= 0 && fd < 4096 && g_tracked[fd])
    {
        char d[64];
        snprintf(d, sizeof d, "fd=%d len=%zu", fd, n);
        if(fd == g_pending_fail_fd)
        {
            g_count++;
            logline("CALL %ld write %s\nINJECTED %ld write errno=%d (retry after short write)\n", g_count, d, g_count, g_then_errno);
            g_pending_fail_fd = -1;
            errno = g_then_errno;
            return -1;
        }
        if(counted("write", d))
        {
            if(g_errno)
            {
                logline("INJECTED %ld write errno=%d\n", g_count, g_errno);
                errno = g_errno;
                return -1;
            }
            if(g_short && n > 1)
            {
                logline("INJECTED %ld write short %zu of %zu\n", g_count, n / 2, n);
                if(g_then_errno)
                    g_pending_fail_fd = fd;
                return real_write(fd, buf, n / 2);
            }
        }
    }
    return real_write(fd, buf, n);
}

ssize_t writev(int fd, const struct iovec* iov, int cnt)
{
    shim_init();
    if(fd >= 0 && fd < 4096 && g_tracked[fd])
    {
        size_t total = 0;
        for(int i = 0; i < cnt; i++)
            total += iov[i].iov_len;
        char d[64];
        snprintf(d, sizeof d, "fd=%d len=%zu", fd, total);
        if(fd == g_pending_fail_fd)
        {
            g_count++;
            logline("CALL %ld writev %s\nINJECTED %ld writev errno=%d (retry after short write)\n", g_count, d, g_count, g_then_errno);
            g_pending_fail_fd = -1;
            errno = g_then_errno;
            return -1;
        }
        if(counted("writev", d))
        {
            if(g_errno)
            {
                logline("INJECTED %ld writev errno=%d\n", g_count, g_errno);
                errno = g_errno;
                return -1;
            }
            if(g_short && total > 1)
            {
                // genuine short write: only the first half of the first non-empty buffer
                for(int i = 0; i < cnt; i++)
                    if(iov[i].iov_len)
                    {
                        size_t part = iov[i].iov_len > 1 ? iov[i].iov_len / 2 : 1;
                        logline("INJECTED %ld writev short %zu of %zu\n", g_count, part, total);
                        if(g_then_errno)
                            g_pending_fail_fd = fd;
                        return real_write(fd, iov[i].iov_base, part);
                    }
            }
        }
    }
    return real_writev(fd, iov, cnt);
}
