// Guard-page arena and fault trap.
//   * one mmap(PROT_NONE, MAP_NORESERVE) reservation: [front guard][buffer pages][huge tail]
//   * the n-byte buffer under test ends exactly at a page boundary, so byte n is the first
//     inaccessible byte and far out-of-bounds reads steered by 16/32-bit header values still
//     land in PROT_NONE memory
//   * SIGSEGV/SIGBUS handler on an alternate stack records si_addr relative to the buffer
//     fail-stop mode: siglongjmp out of the operation
//     resume mode: make the touched page accessible, continue; pages are re-protected and zeroed
//     after the operation (used to answer "did the assertion handler run during this operation?"
//     even after an out-of-bounds access)
//   * logical step counter: with -fsanitize-coverage=trace-pc every instrumented edge calls
//     __sanitizer_cov_trace_pc; past the cap the operation is aborted (no wall-clock verdicts)
#pragma once
#include <csetjmp>
#include <csignal>
#include <cstdint>
#include <cstdio>
#include <cstdlib>
#include <cstring>
#include <sys/mman.h>
#include <unistd.h>
#include <vector>

namespace vrt
{
struct arena_state
{
    unsigned char* base = nullptr;   // start of reservation
    std::size_t page = 4096;
    std::size_t front = 16 * 4096;   // front guard
    std::size_t buf_pages = 64;      // room for the buffer (256 KiB)
    std::size_t tail = std::size_t(8) << 30; // 8 GiB of PROT_NONE behind the buffer
    unsigned char* buf_end = nullptr; // page boundary where every buffer ends
    unsigned char* cur = nullptr;     // current buffer start
    std::size_t cur_n = 0;
    bool readonly = false;

    sigjmp_buf jb;
    volatile sig_atomic_t armed = 0;
    volatile sig_atomic_t resume = 0;
    volatile long faults = 0;
    volatile long first_fault_off = 0; // relative to cur
    volatile int first_fault_write = 0;
    std::vector<unsigned char*> opened; // pages made accessible in resume mode

    volatile unsigned long long steps = 0;
    unsigned long long step_cap = 0;
    volatile sig_atomic_t step_armed = 0;
    volatile sig_atomic_t step_overflow = 0;
};

static arena_state g_ar; // single-TU drivers only

inline arena_state& ar()
{
    return g_ar;
}

inline void fault_handler(int, siginfo_t* si, void* ctx)
{
    arena_state& a = ar();
    unsigned char* addr = static_cast<unsigned char*>(si->si_addr);
    if(!a.armed)
    {
        const char msg[] = "FATAL unexpected-fault-outside-operation\n";
        (void)!write(1, msg, sizeof msg - 1);
        _exit(70);
    }
    if(a.faults == 0)
    {
        a.first_fault_off = static_cast<long>(addr - a.cur);
#if defined(__x86_64__)
        // bit 1 of the page-fault error code: write access
        a.first_fault_write = (static_cast<ucontext_t*>(ctx)->uc_mcontext.gregs[REG_ERR] & 2) ? 1 : 0;
#endif
    }
    a.faults++;
    const bool inside = addr >= a.base && addr < a.base + a.front + a.buf_pages * a.page + a.tail;
    if(a.resume && inside && a.faults < 4096)
    {
        unsigned char* pg = reinterpret_cast<unsigned char*>(reinterpret_cast<std::uintptr_t>(addr) & ~(std::uintptr_t(a.page) - 1));
        if(mprotect(pg, a.page, PROT_READ | PROT_WRITE) == 0)
        {
            if(a.opened.size() < a.opened.capacity())
                a.opened.push_back(pg);
            return; // re-execute the faulting instruction
        }
    }
    a.armed = 0;
    siglongjmp(a.jb, 2);
}

inline void arena_init()
{
    arena_state& a = ar();
    if(a.base)
        return;
    a.page = static_cast<std::size_t>(sysconf(_SC_PAGESIZE));
    const std::size_t total = a.front + a.buf_pages * a.page + a.tail;
    void* p = mmap(nullptr, total, PROT_NONE, MAP_PRIVATE | MAP_ANONYMOUS | MAP_NORESERVE, -1, 0);
    if(p == MAP_FAILED)
    {
        // fall back to a smaller tail
        a.tail = std::size_t(64) << 20;
        p = mmap(nullptr, a.front + a.buf_pages * a.page + a.tail, PROT_NONE, MAP_PRIVATE | MAP_ANONYMOUS | MAP_NORESERVE, -1, 0);
        if(p == MAP_FAILED)
        {
            std::printf("FATAL mmap\n");
            std::exit(71);
        }
    }
    a.base = static_cast<unsigned char*>(p);
    a.buf_end = a.base + a.front + a.buf_pages * a.page;
    a.opened.reserve(8192);
    static unsigned char altstack[1 << 16];
    stack_t ss;
    ss.ss_sp = altstack;
    ss.ss_size = sizeof altstack;
    ss.ss_flags = 0;
    sigaltstack(&ss, nullptr);
    struct sigaction sa;
    std::memset(&sa, 0, sizeof sa);
    sa.sa_sigaction = fault_handler;
    sa.sa_flags = SA_SIGINFO | SA_ONSTACK | SA_NODEFER;
    sigemptyset(&sa.sa_mask);
    sigaction(SIGSEGV, &sa, nullptr);
    sigaction(SIGBUS, &sa, nullptr);
}

// Places `n` bytes so that they end at the guard boundary; returns the buffer start.
inline unsigned char* arena_place(const unsigned char* data, std::size_t n, bool readonly = false)
{
    arena_state& a = ar();
    arena_init();
    const std::size_t span = a.buf_pages * a.page;
    if(n > span)
    {
        std::printf("FATAL buffer-too-large %zu\n", n);
        std::exit(72);
    }
    unsigned char* region = a.buf_end - span;
    mprotect(region, span, PROT_READ | PROT_WRITE);
    a.cur = a.buf_end - n;
    a.cur_n = n;
    // bytes in front of the buffer inside the first used page belong to nobody: fill with a pattern
    const std::size_t used_pages = (n + a.page - 1) / a.page;
    unsigned char* first = a.buf_end - used_pages * a.page;
    std::memset(first, 0xA5, static_cast<std::size_t>(a.cur - first));
    if(n)
        std::memcpy(a.cur, data, n);
    // everything before the used pages is inaccessible again
    if(first > region)
        mprotect(region, static_cast<std::size_t>(first - region), PROT_NONE);
    a.readonly = readonly;
    if(readonly && used_pages)
        mprotect(first, used_pages * a.page, PROT_READ);
    return a.cur;
}

inline void arena_close_opened()
{
    arena_state& a = ar();
    for(unsigned char* pg : a.opened)
    {
        std::memset(pg, 0, a.page);
        mprotect(pg, a.page, PROT_NONE);
    }
    a.opened.clear();
}

// Runs `stmt` with the trap armed.  Evaluates to 0 normally, 2 if aborted by a fault (fail-stop),
// 3 if aborted by the step cap.
#define VRT_GUARDED(resume_mode, cap, stmt)                   \
    ([&]() -> int {                                          \
        ::vrt::arena_state& vrt_a = ::vrt::ar();             \
        vrt_a.faults = 0;                                    \
        vrt_a.first_fault_off = 0;                           \
        vrt_a.first_fault_write = 0;                         \
        vrt_a.resume = (resume_mode);                        \
        vrt_a.steps = 0;                                     \
        vrt_a.step_cap = (cap);                              \
        vrt_a.step_overflow = 0;                             \
        const int vrt_rc = sigsetjmp(vrt_a.jb, 1);           \
        if(vrt_rc == 0)                                      \
        {                                                    \
            vrt_a.armed = 1;                                 \
            vrt_a.step_armed = 1;                            \
            stmt;                                            \
            vrt_a.step_armed = 0;                            \
            vrt_a.armed = 0;                                 \
            return 0;                                        \
        }                                                    \
        vrt_a.step_armed = 0;                                \
        vrt_a.armed = 0;                                     \
        return vrt_rc;                                       \
    }())
} // namespace vrt

#ifdef VRT_STEP_COUNTER
#    if defined(__clang__)
#        define VRT_NO_COV __attribute__((no_sanitize("coverage")))
#    else
#        define VRT_NO_COV __attribute__((no_sanitize_coverage))
#    endif
extern "C" VRT_NO_COV void __sanitizer_cov_trace_pc()
{
    ::vrt::arena_state& a = ::vrt::g_ar; // no call: ar() itself is instrumented
    if(!a.step_armed)
        return;
    if(++a.steps > a.step_cap && a.step_cap)
    {
        a.step_armed = 0;
        a.step_overflow = 1;
        a.armed = 0;
        siglongjmp(a.jb, 3);
    }
}
#endif
