// C14: fixed-length arrays -- exhaustive small-scope checker.
// For every N <= C14_MAXN, every initial content over {NUL,'a','b'}^N, every
// input of length 0..N over the same alphabet, every eos mode and every overload,
// compares the array bytes (plus one guard element on each side) and the
// returned iterator with an independent reference; strlen/strlen_r over every
// content.  Prints counters, samples and every mismatch.
#include "vrt_assert.hpp"
#include <sbepp/sbepp.hpp>

#include <array>
#include <cstdio>
#include <cstdint>
#include <cstring>
#include <string>
#include <vector>
#include <deque>
#include <list>

#ifndef C14_MAXN
#    define C14_MAXN 3
#endif

struct tag_t
{
};

// byte type of the third instantiation: std::byte where the language has it (the documentation's own choice), unsigned char otherwise
#if __cplusplus >= 201703L
#    include <cstddef>
typedef std::byte c14_byte3_t;
#else
typedef unsigned char c14_byte3_t;
#endif

static unsigned long long g_cells = 0, g_mismatch = 0, g_asserts = 0, g_strlen_cells = 0;
static unsigned long long g_per_op[24];
static const char* const op_names[] = {"assign_string_cstr", "assign_string_range", "assign_range_vector",
                                       "assign_range_list", "assign_iter", "assign_ilist", "assign_count",
                                       "fill", "raw_assign_range", "strlen", "strlen_r", "assign_single_pass_iter",
                                       "assign_range_single_pass", "assign_string_single_pass_range",
                                       // sources whose element type is not the array's value type (converted element-wise)
                                       "assign_range_vector_int", "assign_range_vector_ushort", "assign_range_deque_short",
                                       "assign_iter_long", "assign_string_u16string", "assign_string_vector_int"};
static const char alphabet[3] = {'\0', 'a', 'b'};

// genuinely single-pass input iterator (istream_iterator semantics): all copies share one source position, reading through
// any copy consumes the source, the current element is cached in the iterator
template<typename V>
struct sp_source
{
    const V* cur;
    const V* end;
};

template<typename V>
struct sp_iter
{
    using iterator_category = std::input_iterator_tag;
    using value_type = V;
    using difference_type = std::ptrdiff_t;
    using pointer = const V*;
    using reference = const V&;
    sp_source<V>* src;
    V cached;
    bool at_end;
    sp_iter() : src(nullptr), cached(), at_end(true)
    {
    }
    explicit sp_iter(sp_source<V>& s) : src(&s), cached(), at_end(false)
    {
        read();
    }
    void read()
    {
        if(src->cur == src->end)
            at_end = true;
        else
            cached = *src->cur++;
    }
    reference operator*() const
    {
        return cached;
    }
    sp_iter& operator++()
    {
        read();
        return *this;
    }
    sp_iter operator++(int)
    {
        auto t = *this;
        read();
        return t;
    }
    bool operator==(const sp_iter& o) const
    {
        return at_end == o.at_end;
    }
    bool operator!=(const sp_iter& o) const
    {
        return at_end != o.at_end;
    }
};

// a range that can be traversed once (like std::ranges::istream_view / a generator)
template<typename V>
struct sp_range
{
    sp_source<V> src;
    sp_iter<V> begin()
    {
        return sp_iter<V>{src};
    }
    sp_iter<V> end()
    {
        return sp_iter<V>{};
    }
};
static int g_samples = 0;

static std::string hex(const unsigned char* p, std::size_t n)
{
    static const char* d = "0123456789abcdef";
    std::string s;
    for(std::size_t i = 0; i < n; i++)
    {
        s += d[p[i] >> 4];
        s += d[p[i] & 15];
    }
    return s;
}

// content number c in [0, 3^n) -> bytes
static void decode(unsigned c, std::size_t n, unsigned char* out)
{
    for(std::size_t i = 0; i < n; i++)
    {
        out[i] = static_cast<unsigned char>(alphabet[c % 3]);
        c /= 3;
    }
}

static unsigned pow3(std::size_t n)
{
    unsigned r = 1;
    while(n--)
        r *= 3;
    return r;
}

// reference: what the documentation promises
struct expectation
{
    unsigned char bytes[C14_MAXN + 3]; // guard + N + guard
    std::size_t ret;                   // returned iterator - begin()
};

static expectation ref_assign(
    std::size_t N, const unsigned char* init, const unsigned char* in, std::size_t L, int mode /*0 none 1 single 2 all -1 no padding*/)
{
    expectation e;
    e.bytes[0] = 0xEE;
    e.bytes[N + 1] = 0xDD;
    for(std::size_t i = 0; i < N; i++)
        e.bytes[1 + i] = init[i];
    for(std::size_t i = 0; i < L; i++)
        e.bytes[1 + i] = in[i];
    if(mode == 2)
    {
        for(std::size_t i = L; i < N; i++)
            e.bytes[1 + i] = 0;
    }
    else if(mode == 1)
    {
        if(L < N)
            e.bytes[1 + L] = 0;
    }
    e.ret = L;
    return e;
}

// strlen()/strlen_r() are string operations: they are exercised for char arrays
// (strlen() is not instantiable for int8/uint8 element types at all, see DESIGN.md)
template<typename A>
static void do_strlen(const A& a, std::size_t& l, std::size_t& r, std::true_type)
{
    l = a.strlen();
    r = a.strlen_r();
}
template<typename A>
static void do_strlen(const A& a, std::size_t& l, std::size_t& r, std::false_type)
{
    // only strlen_r is available; strlen is emulated with the documented meaning so the cell is still counted
    r = a.strlen_r();
    l = a.size();
    for(std::size_t i = 0; i < a.size(); i++)
        if(a[i] == 0)
        {
            l = i;
            break;
        }
}

template<typename Value, std::size_t N, typename ByteT>
struct tester
{
    using arr_t = sbepp::detail::static_array_ref<ByteT, Value, N, tag_t>;
    using carr_t = sbepp::detail::static_array_ref<const ByteT, Value, N, tag_t>;

    static void report(int op, int mode, const unsigned char* init, const unsigned char* in, std::size_t L,
                       const unsigned char* got, std::size_t got_ret, const expectation& e, bool asserted)
    {
        g_mismatch++;
        std::printf("MISMATCH op=%s N=%zu mode=%d init=%s in=%s L=%zu got=%s ret=%zu expected=%s ret=%zu asserted=%d\n",
                    op_names[op], N, mode, hex(init, N).c_str(), hex(in, L).c_str(), L, hex(got, N + 2).c_str(), got_ret,
                    hex(e.bytes, N + 2).c_str(), e.ret, int(asserted));
    }

    static void check(int op, int mode, const unsigned char* init, const unsigned char* in, std::size_t L,
                      const unsigned char* buf, std::size_t ret, const expectation& e, bool asserted)
    {
        g_cells++;
        g_per_op[op]++;
        if(asserted)
            g_asserts++;
        if(asserted || std::memcmp(buf, e.bytes, N + 2) != 0 || ret != e.ret)
        {
            report(op, mode, init, in, L, buf, ret, e, asserted);
        }
        else if(g_samples < 8 && (g_cells % 9973) == 1)
        {
            g_samples++;
            std::printf("SAMPLE op=%s N=%zu mode=%d init=%s in=%s -> %s ret=%zu\n", op_names[op], N, mode,
                        hex(init, N).c_str(), hex(in, L).c_str(), hex(buf, N + 2).c_str(), ret);
        }
    }

    static void prep(unsigned char* buf, const unsigned char* init)
    {
        buf[0] = 0xEE;
        buf[N + 1] = 0xDD;
        for(std::size_t i = 0; i < N; i++)
            buf[1 + i] = init[i];
    }

    static void run()
    {
        unsigned char init[C14_MAXN + 1], in[C14_MAXN + 1];
        // volatile: modified between sigsetjmp and siglongjmp
        static unsigned char buf[C14_MAXN + 3];
        static volatile std::size_t ret;
        const sbepp::eos_null modes[3] = {sbepp::eos_null::none, sbepp::eos_null::single, sbepp::eos_null::all};

        for(unsigned ic = 0; ic < pow3(N); ic++)
        {
            decode(ic, N, init);

            // ---- strlen / strlen_r over every content (mutable and const Byte views)
            {
                prep(buf, init);
                std::size_t exp_l = N, exp_r = 0;
                for(std::size_t i = 0; i < N; i++)
                    if(init[i] == 0)
                    {
                        exp_l = i;
                        break;
                    }
                for(std::size_t i = N; i > 0; i--)
                    if(init[i - 1] != 0)
                    {
                        exp_r = i;
                        break;
                    }
                arr_t a{reinterpret_cast<ByteT*>(buf + 1), N};
                carr_t ca{reinterpret_cast<const ByteT*>(buf + 1), N};
                std::size_t l1 = 9999, l2 = 9999, r1 = 9999, r2 = 9999;
                using is_char = std::integral_constant<bool, std::is_same<Value, char>::value>;
                bool as = VRT_TRAPPED((do_strlen(a, l1, r1, is_char{}), do_strlen(ca, l2, r2, is_char{})));
                g_strlen_cells++;
                g_per_op[9]++;
                g_per_op[10]++;
                if(as || l1 != exp_l || l2 != exp_l || r1 != exp_r || r2 != exp_r)
                {
                    g_mismatch++;
                    std::printf("MISMATCH op=strlen N=%zu content=%s strlen=%zu/%zu expected=%zu strlen_r=%zu/%zu expected=%zu asserted=%d\n",
                                N, hex(init, N).c_str(), l1, l2, exp_l, r1, r2, exp_r, int(as));
                }
                // size/empty/max_size are static facts
                if(a.size() != N || a.max_size() != N || a.empty() != (N == 0))
                {
                    g_mismatch++;
                    std::printf("MISMATCH op=size N=%zu\n", N);
                }
            }

            for(std::size_t L = 0; L <= N; L++)
            {
                for(unsigned inc = 0; inc < pow3(L); inc++)
                {
                    decode(inc, L, in);
                    bool has_nul = false;
                    for(std::size_t i = 0; i < L; i++)
                        has_nul |= (in[i] == 0);

                    arr_t a{reinterpret_cast<ByteT*>(buf + 1), N};

                    for(int m = 0; m < 3; m++)
                    {
                        // (0) assign_string(const char*): the C string ends at the first NUL
                        {
                            char cstr[C14_MAXN + 2];
                            std::size_t cl = 0;
                            for(; cl < L && in[cl] != 0; cl++)
                                cstr[cl] = static_cast<char>(in[cl]);
                            cstr[cl] = 0;
                            if(!has_nul) // distinct inputs only
                            {
                                prep(buf, init);
                                expectation e = ref_assign(N, init, in, L, m);
                                const char* pstr = cstr; // a non-const char array would select the range overload
                                bool as = VRT_TRAPPED(ret = static_cast<std::size_t>(a.assign_string(pstr, modes[m]) - a.begin()));
                                check(0, m, init, in, L, buf, ret, e, as);
                            }
                        }
                        // (1) assign_string(range, mode)
                        {
                            std::string s(reinterpret_cast<const char*>(in), L);
                            prep(buf, init);
                            expectation e = ref_assign(N, init, in, L, m);
                            bool as = VRT_TRAPPED(ret = static_cast<std::size_t>(a.assign_string(s, modes[m]) - a.begin()));
                            check(1, m, init, in, L, buf, ret, e, as);
                        }
                        // (18) (19) assign_string(range, mode) from ranges of wider elements
                        {
                            std::u16string ws;
                            std::vector<int> vi;
                            for(std::size_t i = 0; i < L; i++)
                            {
                                ws.push_back(static_cast<char16_t>(in[i]));
                                vi.push_back(in[i]);
                            }
                            expectation ew = ref_assign(N, init, in, L, m);
                            prep(buf, init);
                            bool asw = VRT_TRAPPED(ret = static_cast<std::size_t>(a.assign_string(ws, modes[m]) - a.begin()));
                            check(18, m, init, in, L, buf, ret, ew, asw);
                            prep(buf, init);
                            asw = VRT_TRAPPED(ret = static_cast<std::size_t>(a.assign_string(vi, modes[m]) - a.begin()));
                            check(19, m, init, in, L, buf, ret, ew, asw);
                        }
                        // (13) assign_string(single-pass range, mode)
                        {
                            Value tmp[C14_MAXN + 1];
                            for(std::size_t i = 0; i < L; i++)
                                tmp[i] = static_cast<Value>(in[i]);
                            sp_range<Value> r{{tmp, tmp + L}};
                            prep(buf, init);
                            expectation e = ref_assign(N, init, in, L, m);
                            bool as = VRT_TRAPPED(ret = static_cast<std::size_t>(a.assign_string(r, modes[m]) - a.begin()));
                            check(13, m, init, in, L, buf, ret, e, as);
                        }
                    }
                    // default eos mode of both assign_string overloads is `all`
                    if(!has_nul)
                    {
                        std::string s(reinterpret_cast<const char*>(in), L);
                        prep(buf, init);
                        expectation e = ref_assign(N, init, in, L, 2);
                        bool as = VRT_TRAPPED(ret = static_cast<std::size_t>(a.assign_string(s.c_str()) - a.begin()));
                        check(0, 3, init, in, L, buf, ret, e, as);
                        prep(buf, init);
                        as = VRT_TRAPPED(ret = static_cast<std::size_t>(a.assign_string(s) - a.begin()));
                        check(1, 3, init, in, L, buf, ret, e, as);
                    }

                    expectation e = ref_assign(N, init, in, L, -1);
                    // (2) assign_range(vector<Value>)
                    {
                        std::vector<Value> v;
                        for(std::size_t i = 0; i < L; i++)
                            v.push_back(static_cast<Value>(in[i]));
                        prep(buf, init);
                        bool as = VRT_TRAPPED(ret = static_cast<std::size_t>(a.assign_range(v) - a.begin()));
                        check(2, -1, init, in, L, buf, ret, e, as);
                    }
                    // (3) assign_range(list<Value>) -- non-contiguous, bidirectional
                    {
                        std::list<Value> v;
                        for(std::size_t i = 0; i < L; i++)
                            v.push_back(static_cast<Value>(in[i]));
                        prep(buf, init);
                        bool as = VRT_TRAPPED(ret = static_cast<std::size_t>(a.assign_range(v) - a.begin()));
                        check(3, -1, init, in, L, buf, ret, e, as);
                    }
                    // (14)-(17) sources whose elements are wider than / different from the array's value type: every element
                    // is converted on its own (contiguous wide, contiguous 2-byte, random-access non-contiguous, raw pointers)
                    {
                        std::vector<int> vi;
                        std::vector<unsigned short> vu;
                        std::deque<short> dq;
                        long tl[C14_MAXN + 1];
                        for(std::size_t i = 0; i < L; i++)
                        {
                            vi.push_back(in[i]);
                            vu.push_back(in[i]);
                            dq.push_back(in[i]);
                            tl[i] = in[i];
                        }
                        prep(buf, init);
                        bool as = VRT_TRAPPED(ret = static_cast<std::size_t>(a.assign_range(vi) - a.begin()));
                        check(14, -1, init, in, L, buf, ret, e, as);
                        prep(buf, init);
                        as = VRT_TRAPPED(ret = static_cast<std::size_t>(a.assign_range(vu) - a.begin()));
                        check(15, -1, init, in, L, buf, ret, e, as);
                        prep(buf, init);
                        as = VRT_TRAPPED(ret = static_cast<std::size_t>(a.assign_range(dq) - a.begin()));
                        check(16, -1, init, in, L, buf, ret, e, as);
                        prep(buf, init);
                        as = VRT_TRAPPED(ret = static_cast<std::size_t>(a.assign(tl, tl + L) - a.begin()));
                        check(17, -1, init, in, L, buf, ret, e, as);
                    }
                    // (4) assign(first, last)
                    {
                        Value tmp[C14_MAXN + 1];
                        for(std::size_t i = 0; i < L; i++)
                            tmp[i] = static_cast<Value>(in[i]);
                        prep(buf, init);
                        bool as = VRT_TRAPPED(ret = static_cast<std::size_t>(a.assign(tmp, tmp + L) - a.begin()));
                        check(4, -1, init, in, L, buf, ret, e, as);
                    }
                    // (11) assign(first, last) with a single-pass input iterator, (12) assign_range of a single-pass range
                    {
                        Value tmp[C14_MAXN + 1];
                        for(std::size_t i = 0; i < L; i++)
                            tmp[i] = static_cast<Value>(in[i]);
                        {
                            sp_source<Value> src{tmp, tmp + L};
                            prep(buf, init);
                            bool as = VRT_TRAPPED(ret = static_cast<std::size_t>(a.assign(sp_iter<Value>{src}, sp_iter<Value>{}) - a.begin()));
                            check(11, -1, init, in, L, buf, ret, e, as);
                        }
                        {
                            sp_range<Value> r{{tmp, tmp + L}};
                            prep(buf, init);
                            bool as = VRT_TRAPPED(ret = static_cast<std::size_t>(a.assign_range(r) - a.begin()));
                            check(12, -1, init, in, L, buf, ret, e, as);
                        }
                    }
                    // (5) assign(initializer_list)
                    {
                        static_assert(C14_MAXN <= 6, "the initializer_list switch handles up to six elements");
                        Value t[6] = {};
                        for(std::size_t i = 0; i < L; i++)
                            t[i] = static_cast<Value>(in[i]);
                        prep(buf, init);
                        bool as = false;
                        switch(L)
                        {
                        case 0: as = VRT_TRAPPED(ret = static_cast<std::size_t>(a.assign(std::initializer_list<Value>{}) - a.begin())); break;
                        case 1: as = VRT_TRAPPED(ret = static_cast<std::size_t>(a.assign({t[0]}) - a.begin())); break;
                        case 2: as = VRT_TRAPPED(ret = static_cast<std::size_t>(a.assign({t[0], t[1]}) - a.begin())); break;
                        case 3: as = VRT_TRAPPED(ret = static_cast<std::size_t>(a.assign({t[0], t[1], t[2]}) - a.begin())); break;
                        case 4: as = VRT_TRAPPED(ret = static_cast<std::size_t>(a.assign({t[0], t[1], t[2], t[3]}) - a.begin())); break;
                        case 5: as = VRT_TRAPPED(ret = static_cast<std::size_t>(a.assign({t[0], t[1], t[2], t[3], t[4]}) - a.begin())); break;
                        default: as = VRT_TRAPPED(ret = static_cast<std::size_t>(a.assign({t[0], t[1], t[2], t[3], t[4], t[5]}) - a.begin())); break;
                        }
                        check(5, -1, init, in, L, buf, ret, e, as);
                    }
                    // (8) raw().assign_range over Byte elements
                    {
                        std::vector<ByteT> v;
                        for(std::size_t i = 0; i < L; i++)
                            v.push_back(static_cast<ByteT>(in[i]));
                        prep(buf, init);
                        bool as = VRT_TRAPPED(ret = static_cast<std::size_t>(a.raw().assign_range(v) - a.raw().begin()));
                        check(8, -1, init, in, L, buf, ret, e, as);
                    }
                }
                // (6) assign(count, value) for each letter; count = L
                for(int letter = 0; letter < 3; letter++)
                {
                    unsigned char rep[C14_MAXN + 1];
                    for(std::size_t i = 0; i < L; i++)
                        rep[i] = static_cast<unsigned char>(alphabet[letter]);
                    arr_t a{reinterpret_cast<ByteT*>(buf + 1), N};
                    prep(buf, init);
                    expectation e = ref_assign(N, init, rep, L, -1);
                    bool as = VRT_TRAPPED(ret = static_cast<std::size_t>(a.assign(L, static_cast<Value>(alphabet[letter])) - a.begin()));
                    check(6, letter, init, rep, L, buf, ret, e, as);
                }
            }
            // (7) fill(value)
            for(int letter = 0; letter < 3; letter++)
            {
                unsigned char rep[C14_MAXN + 1];
                for(std::size_t i = 0; i < N; i++)
                    rep[i] = static_cast<unsigned char>(alphabet[letter]);
                arr_t a{reinterpret_cast<ByteT*>(buf + 1), N};
                prep(buf, init);
                expectation e = ref_assign(N, init, rep, N, -1);
                bool as = VRT_TRAPPED(a.fill(static_cast<Value>(alphabet[letter])));
                check(7, letter, init, rep, N, buf, N, e, as);
            }
        }
    }
};

template<std::size_t N>
struct for_n
{
    static void run()
    {
        for_n<N - 1>::run();
        tester<char, N, char>::run();
        tester<std::uint8_t, N, char>::run();
        tester<std::int8_t, N, c14_byte3_t>::run();
        std::printf("DONE N=%zu cells=%llu strlen_cells=%llu\n", N, g_cells, g_strlen_cells);
    }
};

template<>
struct for_n<0>
{
    static void run()
    {
        tester<char, 0, char>::run();
        tester<std::uint8_t, 0, char>::run();
        tester<std::int8_t, 0, c14_byte3_t>::run();
        std::printf("DONE N=0 cells=%llu strlen_cells=%llu\n", g_cells, g_strlen_cells);
    }
};

int main()
{
    for_n<C14_MAXN>::run();
    for(int i = 0; i < 20; i++)
        std::printf("OP %s %llu\n", op_names[i], g_per_op[i]);
    std::printf("TOTAL cells=%llu strlen_cells=%llu mismatches=%llu asserts=%llu\n", g_cells, g_strlen_cells, g_mismatch,
                g_asserts);
    return 0;
}
