// C14, second leg: array lengths and byte values beyond the exhaustive small scope of c14_driver.cpp.
// "for every array length N" and "for every array content" quantify over more than N <= 6 and {NUL,a,b}: an
// implementation may treat lengths at word/vector boundaries or bytes >= 0x80 differently.  This driver samples
//   * N in {7,8,9,15,16,17,31,32,33,63,64,65,127,128,129,255,256,257,1000}: seeded contents over ALL byte values, input
//     lengths {0,1,2,N/2,N-9..N} + random, every overload of the small-scope driver that takes a run-time length;
//     strlen/strlen_r for a single NUL at every position (N <= 257) / sampled positions, for runs of trailing and leading
//     NULs of every length, and for random contents;
//   * N in {1,2}: every byte value 0..255 in every position (content and input), all eos modes.
// Oracle: the same documented meaning as in c14_driver.cpp, written over std::vector.  One guard element each side.
#include "vrt_assert.hpp"
#include <sbepp/sbepp.hpp>

#include <cstdio>
#include <cstdint>
#include <cstring>
#include <deque>
#include <list>
#include <string>
#include <vector>

#ifndef C14_SEED
#    define C14_SEED 1
#endif
#ifndef C14_ROUNDS
#    define C14_ROUNDS 6
#endif

struct tag_t
{
};

static unsigned long long g_cells = 0, g_mismatch = 0, g_asserts = 0, g_strlen_cells = 0;
static unsigned long long g_per_op[24];
static const char* const op_names[] = {"assign_string_cstr", "assign_string_range", "assign_range_vector", "assign_range_list",
                                       "assign_iter", "assign_count", "fill", "raw_assign_range", "strlen", "strlen_r",
                                       "assign_range_vector_int", "assign_range_deque_short", "assign_string_u16string",
                                       "assign_string_default", "byte-values"};
static int g_samples = 0;

static std::uint64_t g_rng = 0x9E3779B97F4A7C15ull * (C14_SEED + 1);
static std::uint64_t rnd()
{
    g_rng ^= g_rng << 13;
    g_rng ^= g_rng >> 7;
    g_rng ^= g_rng << 17;
    return g_rng;
}

static std::string hex(const unsigned char* p, std::size_t n)
{
    static const char* d = "0123456789abcdef";
    std::string s;
    for(std::size_t i = 0; i < n && i < 300; i++)
    {
        s += d[p[i] >> 4];
        s += d[p[i] & 15];
    }
    return s;
}

typedef std::vector<unsigned char> bytes;

static bytes ref_assign(const bytes& init, const bytes& in, int mode /*0 none 1 single 2 all -1 no padding*/)
{
    const std::size_t N = init.size(), L = in.size();
    bytes e(N + 2);
    e[0] = 0xEE;
    e[N + 1] = 0xDD;
    for(std::size_t i = 0; i < N; i++)
        e[1 + i] = init[i];
    for(std::size_t i = 0; i < L; i++)
        e[1 + i] = in[i];
    if(mode == 2)
        for(std::size_t i = L; i < N; i++)
            e[1 + i] = 0;
    else if(mode == 1 && L < N)
        e[1 + L] = 0;
    return e;
}

template<typename A>
static void do_strlen(const A& a, std::size_t& l, std::size_t& r, std::true_type)
{
    l = a.strlen();
    r = a.strlen_r();
}
template<typename A>
static void do_strlen(const A& a, std::size_t& l, std::size_t& r, std::false_type)
{
    r = a.strlen_r();
    l = a.size();
    for(std::size_t i = 0; i < a.size(); i++)
        if(a[i] == 0)
        {
            l = i;
            break;
        }
}

template<typename Value, std::size_t N, typename ByteT>
struct tester
{
    using arr_t = sbepp::detail::static_array_ref<ByteT, Value, N, tag_t>;
    using carr_t = sbepp::detail::static_array_ref<const ByteT, Value, N, tag_t>;
    static unsigned char buf[N + 2];
    static volatile std::size_t ret;

    static void prep(const bytes& init)
    {
        buf[0] = 0xEE;
        buf[N + 1] = 0xDD;
        for(std::size_t i = 0; i < N; i++)
            buf[1 + i] = init[i];
    }

    static void check(int op, int mode, const bytes& init, const bytes& in, const bytes& e, std::size_t eret, bool asserted)
    {
        g_cells++;
        g_per_op[op]++;
        if(asserted)
            g_asserts++;
        if(asserted || std::memcmp(buf, e.data(), N + 2) != 0 || ret != eret)
        {
            g_mismatch++;
            if(g_mismatch < 200)
                std::printf("MISMATCH op=%s/bigN N=%zu mode=%d L=%zu init=%s in=%s got=%s ret=%zu expected=%s ret=%zu asserted=%d\n",
                            op_names[op], N, mode, in.size(), hex(init.data(), N).c_str(), hex(in.data(), in.size()).c_str(),
                            hex(buf, N + 2).c_str(), std::size_t(ret), hex(e.data(), N + 2).c_str(), eret, int(asserted));
        }
        else if(g_samples < 6 && (g_cells % 4999) == 1)
        {
            g_samples++;
            std::printf("SAMPLE op=%s N=%zu mode=%d L=%zu ret=%zu\n", op_names[op], N, mode, in.size(), std::size_t(ret));
        }
    }

    static void strlen_cell(const bytes& content)
    {
        prep(content);
        std::size_t exp_l = N, exp_r = 0;
        for(std::size_t i = 0; i < N; i++)
            if(content[i] == 0)
            {
                exp_l = i;
                break;
            }
        for(std::size_t i = N; i > 0; i--)
            if(content[i - 1] != 0)
            {
                exp_r = i;
                break;
            }
        arr_t a{reinterpret_cast<ByteT*>(buf + 1), N};
        carr_t ca{reinterpret_cast<const ByteT*>(buf + 1), N};
        std::size_t l1 = 99999, l2 = 99999, r1 = 99999, r2 = 99999;
        using is_char = std::integral_constant<bool, std::is_same<Value, char>::value>;
        bool as = VRT_TRAPPED((do_strlen(a, l1, r1, is_char{}), do_strlen(ca, l2, r2, is_char{})));
        g_strlen_cells++;
        g_per_op[8]++;
        g_per_op[9]++;
        if(as || l1 != exp_l || l2 != exp_l || r1 != exp_r || r2 != exp_r)
        {
            g_mismatch++;
            if(g_mismatch < 200)
                std::printf("MISMATCH op=strlen/bigN N=%zu content=%s strlen=%zu/%zu expected=%zu strlen_r=%zu/%zu expected=%zu asserted=%d\n",
                            N, hex(content.data(), N).c_str(), l1, l2, exp_l, r1, r2, exp_r, int(as));
        }
    }

    // every overload with one (init, in) pair
    static void assign_cells(const bytes& init, const bytes& in)
    {
        const sbepp::eos_null modes[3] = {sbepp::eos_null::none, sbepp::eos_null::single, sbepp::eos_null::all};
        const std::size_t L = in.size();
        bool has_nul = false;
        for(std::size_t i = 0; i < L; i++)
            has_nul |= (in[i] == 0);
        arr_t a{reinterpret_cast<ByteT*>(buf + 1), N};
        for(int m = 0; m < 3; m++)
        {
            bytes e = ref_assign(init, in, m);
            if(!has_nul)
            {
                std::string s(reinterpret_cast<const char*>(in.data()), L);
                const char* p = s.c_str();
                prep(init);
                bool as = VRT_TRAPPED(ret = static_cast<std::size_t>(a.assign_string(p, modes[m]) - a.begin()));
                check(0, m, init, in, e, L, as);
            }
            {
                std::string s(reinterpret_cast<const char*>(in.data()), L);
                prep(init);
                bool as = VRT_TRAPPED(ret = static_cast<std::size_t>(a.assign_string(s, modes[m]) - a.begin()));
                check(1, m, init, in, e, L, as);
            }
            {
                // u16string elements are converted one by one; keep them in the 7-bit range so that the conversion is value-preserving
                bool seven = true;
                for(std::size_t i = 0; i < L; i++)
                    seven &= in[i] < 0x80;
                if(seven)
                {
                    std::u16string ws;
                    for(std::size_t i = 0; i < L; i++)
                        ws.push_back(static_cast<char16_t>(in[i]));
                    prep(init);
                    bool as = VRT_TRAPPED(ret = static_cast<std::size_t>(a.assign_string(ws, modes[m]) - a.begin()));
                    check(12, m, init, in, e, L, as);
                }
            }
        }
        if(!has_nul)
        {
            std::string s(reinterpret_cast<const char*>(in.data()), L);
            bytes e = ref_assign(init, in, 2);
            prep(init);
            bool as = VRT_TRAPPED(ret = static_cast<std::size_t>(a.assign_string(s.c_str()) - a.begin()));
            check(13, 3, init, in, e, L, as);
            prep(init);
            as = VRT_TRAPPED(ret = static_cast<std::size_t>(a.assign_string(s) - a.begin()));
            check(13, 3, init, in, e, L, as);
        }
        bytes e = ref_assign(init, in, -1);
        {
            std::vector<Value> v;
            std::list<Value> l;
            std::vector<ByteT> vb;
            for(std::size_t i = 0; i < L; i++)
            {
                v.push_back(static_cast<Value>(in[i]));
                l.push_back(static_cast<Value>(in[i]));
                vb.push_back(static_cast<ByteT>(in[i]));
            }
            prep(init);
            bool as = VRT_TRAPPED(ret = static_cast<std::size_t>(a.assign_range(v) - a.begin()));
            check(2, -1, init, in, e, L, as);
            prep(init);
            as = VRT_TRAPPED(ret = static_cast<std::size_t>(a.assign_range(l) - a.begin()));
            check(3, -1, init, in, e, L, as);
            prep(init);
            as = VRT_TRAPPED(ret = static_cast<std::size_t>(a.assign(v.data(), v.data() + L) - a.begin()));
            check(4, -1, init, in, e, L, as);
            prep(init);
            as = VRT_TRAPPED(ret = static_cast<std::size_t>(a.raw().assign_range(vb) - a.raw().begin()));
            check(7, -1, init, in, e, L, as);
        }
        {
            // element-wise conversion from wider elements holding the value of the target element type
            std::vector<int> vi;
            std::deque<short> dq;
            for(std::size_t i = 0; i < L; i++)
            {
                vi.push_back(static_cast<int>(static_cast<Value>(in[i])));
                dq.push_back(static_cast<short>(static_cast<Value>(in[i])));
            }
            prep(init);
            bool as = VRT_TRAPPED(ret = static_cast<std::size_t>(a.assign_range(vi) - a.begin()));
            check(10, -1, init, in, e, L, as);
            prep(init);
            as = VRT_TRAPPED(ret = static_cast<std::size_t>(a.assign_range(dq) - a.begin()));
            check(11, -1, init, in, e, L, as);
        }
    }

    static void count_fill_cells(const bytes& init, std::size_t L, unsigned char v)
    {
        arr_t a{reinterpret_cast<ByteT*>(buf + 1), N};
        bytes rep(L, v);
        bytes e = ref_assign(init, rep, -1);
        prep(init);
        bool as = VRT_TRAPPED(ret = static_cast<std::size_t>(a.assign(L, static_cast<Value>(v)) - a.begin()));
        check(5, v, init, rep, e, L, as);
        bytes all(N, v);
        e = ref_assign(init, all, -1);
        prep(init);
        as = VRT_TRAPPED(a.fill(static_cast<Value>(v)));
        ret = N;
        check(6, v, init, all, e, N, as);
    }

    static bytes random_content(int flavour)
    {
        bytes c(N);
        for(std::size_t i = 0; i < N; i++)
        {
            std::uint64_t r = rnd();
            switch(flavour)
            {
            case 0: c[i] = static_cast<unsigned char>(1 + r % 255); break;                    // no NUL
            case 1: c[i] = static_cast<unsigned char>((r % 5) ? 1 + (r >> 8) % 255 : 0); break; // sparse NULs
            case 2: c[i] = static_cast<unsigned char>(0x80 + r % 128); break;                   // high bytes only
            default: c[i] = static_cast<unsigned char>(r); break;
            }
        }
        return c;
    }

    static void run_big()
    {
        // strlen family
        bytes full = random_content(0);
        strlen_cell(full);
        strlen_cell(bytes(N, 0));
        std::size_t step = N <= 257 ? 1 : 37;
        for(std::size_t p = 0; p < N; p += step)
        {
            bytes c = random_content(p % 2 ? 0 : 2);
            c[p] = 0; // single NUL at p
            strlen_cell(c);
            bytes t = random_content(0); // trailing NULs from p
            for(std::size_t i = p; i < N; i++)
                t[i] = 0;
            strlen_cell(t);
            bytes l = random_content(2); // leading NULs up to p
            for(std::size_t i = 0; i <= p; i++)
                l[i] = 0;
            strlen_cell(l);
            bytes two = random_content(0); // two NULs: p and a later one
            two[p] = 0;
            two[p + (rnd() % (N - p))] = 0;
            strlen_cell(two);
        }
        for(int r = 0; r < 8 * C14_ROUNDS; r++)
            strlen_cell(random_content(r % 4));

        // assignment family
        std::vector<std::size_t> lens;
        lens.push_back(0);
        lens.push_back(1);
        lens.push_back(2);
        lens.push_back(N / 2);
        for(std::size_t d = 0; d <= 9 && d <= N; d++)
            lens.push_back(N - d);
        for(int r = 0; r < C14_ROUNDS; r++)
            lens.push_back(rnd() % (N + 1));
        for(std::size_t li = 0; li < lens.size(); li++)
        {
            const std::size_t L = lens[li];
            for(int fl = 0; fl < 4; fl++)
            {
                bytes init = random_content((fl + 1) % 4);
                bytes in(L);
                for(std::size_t i = 0; i < L; i++)
                {
                    std::uint64_t r = rnd();
                    in[i] = fl == 0 ? static_cast<unsigned char>(1 + r % 127) : fl == 1 ? static_cast<unsigned char>(1 + r % 255)
                            : fl == 2 ? static_cast<unsigned char>((r % 7) ? 1 + (r >> 8) % 255 : 0)
                                      : static_cast<unsigned char>(0x80 + r % 128);
                }
                assign_cells(init, in);
                count_fill_cells(init, L, static_cast<unsigned char>(fl == 0 ? 0 : fl == 1 ? 'x' : fl == 2 ? 0x80 : 0xFF));
            }
        }
        std::printf("DONE N=%zu cells=%llu strlen_cells=%llu\n", N, g_cells, g_strlen_cells);
    }

    // every byte value in every position (N <= 2)
    static void run_bytes()
    {
        const unsigned total = N == 1 ? 256u : 65536u;
        for(unsigned c = 0; c < total; c++)
        {
            bytes content(N);
            content[0] = static_cast<unsigned char>(c & 255);
            if(N == 2)
                content[1] = static_cast<unsigned char>(c >> 8);
            strlen_cell(content);
            g_per_op[14]++;
            // the same bytes as input over a fixed and over a complementary initial content
            if(N == 1 || (c % 5) == 0)
            {
                bytes init(N, static_cast<unsigned char>(~c));
                assign_cells(init, content);
                bytes shorter(content.begin(), content.begin() + (N - 1));
                assign_cells(init, shorter);
                count_fill_cells(init, N, static_cast<unsigned char>(c & 255));
            }
        }
        std::printf("DONE bytes N=%zu cells=%llu strlen_cells=%llu\n", N, g_cells, g_strlen_cells);
    }
};
template<typename Value, std::size_t N, typename ByteT>
unsigned char tester<Value, N, ByteT>::buf[N + 2];
template<typename Value, std::size_t N, typename ByteT>
volatile std::size_t tester<Value, N, ByteT>::ret;

template<std::size_t N>
static void big()
{
    tester<char, N, char>::run_big();
    tester<std::uint8_t, N, char>::run_big();
    tester<std::int8_t, N, unsigned char>::run_big();
}

int main()
{
    big<7>();
    big<8>();
    big<9>();
    big<15>();
    big<16>();
    big<17>();
    big<31>();
    big<32>();
    big<33>();
    big<63>();
    big<64>();
    big<65>();
    big<127>();
    big<128>();
    big<129>();
    big<255>();
    big<256>();
    big<257>();
    big<1000>();
    tester<char, 1, char>::run_bytes();
    tester<std::uint8_t, 1, unsigned char>::run_bytes();
    tester<std::int8_t, 1, char>::run_bytes();
    tester<char, 2, char>::run_bytes();
    tester<std::uint8_t, 2, char>::run_bytes();
    tester<std::int8_t, 2, unsigned char>::run_bytes();
    for(int i = 0; i < 15; i++)
        std::printf("OP %s %llu\n", op_names[i], g_per_op[i]);
    std::printf("TOTAL cells=%llu strlen_cells=%llu mismatches=%llu asserts=%llu\n", g_cells, g_strlen_cells, g_mismatch, g_asserts);
    return 0;
}
