"""C02, constant-evaluation leg (C++20 and later).

For a schema and a list of (message, image, value tree) the generator emits a TU in which every image is a
`static constexpr std::array<char, N>` and a *constexpr* collector walks the message through the generated
random-access accessors (fields, composite members recursively, fixed arrays element by element, enums, sets,
group sizes and entries, <data> sizes and bytes), storing every value as a 64-bit pattern in a constexpr result
object.  `constexpr auto cx_k = collect(img_k)` forces constant evaluation; the program prints the constexpr
result ("X") and the result of calling the *same* collector at run time on a laundered copy ("R").  The python
side derives the expected sequence from the value tree that was fed to the reference encoder.
"""
from . import gen_driver as G, refmodel as R

HEAD = r'''// generated constexpr decode driver for schema %(pkg)s
#include <%(pkg)s/%(pkg)s.hpp>
#include "vrt_codec.hpp"
#include <array>
#include <bit>
#include <cstdio>
#include <cstring>
#if !SBEPP_HAS_CONSTEXPR_ACCESSORS
#error "constexpr accessors are not available in this configuration"
#endif
namespace vcx
{
template<std::size_t K>
struct out
{
    std::array<unsigned long long, K> v{};
    std::size_t n = 0;
    constexpr void put(unsigned long long x)
    {
        if(n < K)
            v[n] = x;
        ++n;
    }
};
template<typename T>
constexpr unsigned long long bits(T v)
{
    if constexpr(std::is_floating_point_v<T>)
    {
        if constexpr(sizeof(T) == 4)
            return std::bit_cast<std::uint32_t>(v);
        else
            return std::bit_cast<std::uint64_t>(v);
    }
    else
    {
        return static_cast<unsigned long long>(static_cast<std::make_unsigned_t<T>>(v));
    }
}
template<typename O, typename V>
constexpr void put(O& o, V v)
{
    constexpr int k = vrt::kind_of<V>::value;
    if constexpr(k == 0)
        o.put(bits(v));
    else if constexpr(k == 1)
        o.put(bits(v.value()));
    else if constexpr(k == 2)
        o.put(bits(sbepp::to_underlying(v)));
    else if constexpr(k == 3)
        o.put(bits(*v));
    else
    {
        // sbepp documents element access of array/<data> views as constexpr only when the element type equals the
        // byte type (a cast between different pointer types is not a constant expression): elements of char
        // arrays are collected, for int8/uint8 elements only the size is
        o.put(v.size());
        if constexpr(std::is_same_v<std::remove_cv_t<typename V::value_type>, char>)
        {
            for(std::size_t i = 0; i < v.size(); i++)
                o.put(bits(v[i]));
        }
    }
}
template<typename O>
void print(const char* tag, int id, const O& o)
{
    std::printf("%%s %%d %%zu", tag, id, o.n);
    for(std::size_t i = 0; i < o.n && i < o.v.size(); i++)
        std::printf(" %%llx", o.v[i]);
    std::printf("\n");
}
} // namespace vcx
'''


class CxGen:
    def __init__(self, schema):
        self.s = schema
        self.m = R.Model(schema)
        self.pkg = schema.package
        self.comp_ids = {}
        self.level_ids = {}
        self.code = []
        self.done = set()

    def cid(self, comp):
        return self.comp_ids.setdefault(id(comp), len(self.comp_ids))

    def lid(self, level):
        return self.level_ids.setdefault(id(level), len(self.level_ids))

    def gen_composite(self, comp):
        k = self.cid(comp)
        if ("c", k) in self.done:
            return k
        self.done.add(("c", k))
        body = []
        for e, off in self.m.composite_layout(comp)[0]:
            tgt = self.m.deref(e)
            if tgt.kind == "composite":
                body.append("    cC%d(o, c.%s());" % (self.gen_composite(tgt), e.name))
            elif off is not None:
                body.append("    vcx::put(o, c.%s());" % e.name)
        self.code.append("template<typename O, typename V>\nconstexpr void cC%d(O& o, V c)\n{\n    (void)o; (void)c;\n%s\n}\n" % (k, "\n".join(body)))
        return k

    def gen_level(self, level):
        k = self.lid(level)
        if ("l", k) in self.done:
            return k
        self.done.add(("l", k))
        m = self.m
        subs = {g.name: self.gen_level(g) for g in level.groups}
        body = []
        for f, off in m.level_layout(level)[0]:
            if off is None:
                continue
            enc = m.field_enc(f)
            if enc is not None and enc.kind == "composite":
                body.append("    cC%d(o, l.%s());" % (self.gen_composite(enc), f.name))
            else:
                body.append("    vcx::put(o, l.%s());" % f.name)
        for g in level.groups:
            body.append("    {\n        auto g = l.%s();\n        o.put(g.size());\n        for(const auto e : g)\n            cL%d(o, e);\n    }"
                        % (g.name, subs[g.name]))
        for d in level.data:
            body.append("    vcx::put(o, l.%s());" % d.name)
        self.code.append("template<typename O, typename V>\nconstexpr void cL%d(O& o, V l)\n{\n    (void)o; (void)l;\n%s\n}\n" % (k, "\n".join(body)))
        return k

    def generate(self, cases):
        """cases: list of (message index, image bytes, expected count)"""
        for mi, msg in enumerate(self.s.messages):
            k = self.gen_level(msg)
            self.code.append(
                "template<typename O, std::size_t N>\nconstexpr O cxM%d(const std::array<char, N>& a)\n{\n    O o{};\n"
                "    ::%s::messages::%s<const char> m{a.data(), a.size()};\n    cL%d(o, m);\n    return o;\n}\n" % (mi, self.pkg, msg.name, k))
        src = HEAD % dict(pkg=self.pkg) + "\n".join(self.code)
        body = []
        for i, (mi, image, cnt) in enumerate(cases):
            init = ", ".join("char(%d)" % (b if b < 128 else b - 256) for b in image)
            src += "static constexpr std::array<char, %d> img_%d = {{%s}};\n" % (len(image), i, init)
            src += "static constexpr auto cx_%d = cxM%d<vcx::out<%d>>(img_%d);\n" % (i, mi, cnt + 4, i)
            body.append("    vcx::print(\"X\", %d, cx_%d);\n    {\n        std::array<char, %d> rt;\n        std::memcpy(rt.data(), img_%d.data(), rt.size());\n"
                        "        asm volatile(\"\" : : \"r\"(rt.data()) : \"memory\");\n        const auto r = cxM%d<vcx::out<%d>>(rt);\n"
                        "        vcx::print(\"R\", %d, r);\n    }" % (i, i, len(image), i, mi, cnt + 4, i))
        src += "int main()\n{\n%s\n    return 0;\n}\n" % "\n".join(body)
        return src


def expected_sequence(m, msg, vals):
    """64-bit patterns the collector must produce, derived from the value tree (constants are not encoded: skipped;
    elements only for char arrays / char <data>, see vcx::put)."""
    out = []

    def arr(b, prim):
        b = bytes(b)
        out.append(len(b))
        if prim == "char":
            out.extend(b)

    def comp(c, value):
        for e, off in m.composite_layout(c)[0]:
            tgt = m.deref(e)
            if tgt.kind == "composite":
                comp(tgt, value[e.name])
            elif off is None:
                continue
            elif tgt.kind == "type" and tgt.is_array():
                arr(value[e.name], tgt.prim)
            else:
                out.append(value[e.name])

    def level(lv, v):
        for f, off in m.level_layout(lv)[0]:
            if off is None:
                continue
            enc = m.field_enc(f)
            if enc is None:
                out.append(v.fields[f.name])
            elif enc.kind == "composite":
                comp(enc, v.fields[f.name])
            elif enc.kind == "type" and enc.is_array():
                arr(v.fields[f.name], enc.prim)
            else:
                out.append(v.fields[f.name])
        for g in lv.groups:
            entries = v.groups[g.name]
            out.append(len(entries))
            for ev in entries:
                level(g, ev)
        for d in lv.data:
            arr(v.data[d.name], m.data_elem_prim(d))

    level(msg, vals)
    return out
