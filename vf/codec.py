"""Shared session layer for the codec-driver based checks (C01, C02, C03, C05, C17, C19)."""
import os
import re

from . import build, common as C, gen_driver as G, refmodel as R, schema as S


class Prepared:
    def __init__(self, schema):
        self.schema = schema
        self.xml = schema.to_xml()
        self.model = R.Model(schema)
        self.gen = build.gen_headers(self.xml, "rel")
        self.ok = self.gen["rc"] == 0
        self.src = G.Gen(schema).generate() if self.ok else None
        self.dep = C.sha(self.xml)


_prep_cache = {}


def prepare(schema):
    k = schema.name
    if k not in _prep_cache:
        _prep_cache[k] = Prepared(schema)
    return _prep_cache[k]


def compile_codec(prep, cfg):
    return build.compile_driver(prep.src, cfg, inc_dirs=(prep.gen["dir"],), dep_key=prep.dep, name="codec-" + prep.schema.package)


# quick runs print a few MB per driver run; a thorough C19 run (12 images x up to 400 stop points, one image with 64 KiB
# <data> members) legitimately prints more than 40 MB, which the first version of this cap cut off (a false alarm of the
# thorough tier, DESIGN 5) -- the thorough tiers keep the limit they always had
def codec_max_output():
    return (40 << 20) if os.environ.get("VERIF_TIER", "quick") == "quick" else (192 << 20)
MAX_BLOCK_LINES = 60000


class RunResult:
    def __init__(self):
        self.blocks = {}     # id -> list of lines
        self.deaths = []     # (id, rc, tail of output)
        self.ubsan = []
        self.raw_tail = ""


def run_codec(exe, commands, timeout=600):
    """commands: list of (id, text line).  Restarts after a crash, attributing the death to the case in progress."""
    res = RunResult()
    pending = list(commands)
    guard = 0
    while pending and guard < 50:
        guard += 1
        inp = "\n".join(c for _, c in pending) + "\n"
        # a driver gone astray (a cursor that no longer advances, a count read from the wrong bytes) can print without
        # bound; 16 supervisors each holding hundreds of megabytes of lines took 50 GB in a trial with seeded change
        # C19-5, so the capture is capped well above what a sound run prints (a few MB) and a block keeps at most
        # MAX_BLOCK_LINES lines (the first difference is what gets reported, it lies long before that)
        rc, o, _, to = C.run([exe], input=inp.encode(), timeout=timeout, env=build.drv_env(), max_output=codec_max_output())
        out = o.decode(errors="replace")
        del o
        res.ubsan += build.ubsan_reports(out)
        cur = None
        done = set()
        for ln in out.splitlines():
            if ln.startswith("B "):
                cur = ln.split(" ")[1]
                res.blocks[cur] = []
            elif ln.startswith("E ") and cur is not None and ln.split(" ")[1] == cur:
                done.add(cur)
                cur = None
            elif cur is not None:
                blk = res.blocks[cur]
                if len(blk) < MAX_BLOCK_LINES:
                    blk.append(ln)
                elif len(blk) == MAX_BLOCK_LINES:
                    blk.append("<more than %d lines dropped by the supervisor>" % MAX_BLOCK_LINES)
        res.raw_tail = out[-3000:]
        if to:
            res.deaths.append((cur or "?", "timeout", out[-1500:]))
        elif rc != 0:
            # keep the head of a sanitizer report (kind + stack), not the shadow-byte dump at its end
            k = out.find("ERROR: AddressSanitizer")
            if k < 0:
                k = max(0, len(out) - 2500)
            res.deaths.append((cur or "?", rc, out[max(0, k - 300):k + 3000]))
        else:
            break
        # drop everything up to and including the case that died
        ids = [i for i, _ in pending]
        if cur is not None and cur in ids:
            pending = pending[ids.index(cur) + 1:]
        else:
            nd = [i for i in ids if i not in done]
            pending = [p for p in pending if p[0] in nd][1:]
    return res


def first_diff(expected, observed):
    """Index and pair of the first differing line, or None."""
    for i in range(max(len(expected), len(observed))):
        e = expected[i] if i < len(expected) else "<nothing>"
        o = observed[i] if i < len(observed) else "<nothing>"
        if e != o:
            return i, e, o
    return None


def classify(m, msg, line):
    """Stable site for a log line: kind of observation + kind of the member it belongs to (no names, no offsets)."""
    parts = line.split(" ")
    kind = parts[0]
    path = parts[1] if len(parts) > 1 else ""
    what = member_kind(m, msg, path)
    return "%s:%s" % (kind, what)


def member_kind(m, msg, path):
    if path.startswith("#") or path in ("cursor_end", "size_bytes_cursor", "events", "events2", "trait_message", "dimension_size"):
        return path.lstrip("#")
    if path.startswith("trait_group:"):
        return "trait_group"
    level = msg
    toks = [t for t in re.split(r"\.", path) if t != ""]
    enc = None
    i = 0
    kind = "?"
    while i < len(toks):
        t = toks[i]
        mm = re.match(r"^(.*?)\[(\d+)\]$", t)
        name = mm.group(1) if mm else t
        if enc is not None and enc.kind == "composite":
            e = enc.element(name)
            if e is None:
                return "?"
            enc = m.deref(e)
            kind = "composite-member:" + enc_kind(m, enc)
            i += 1
            continue
        f = next((x for x in level.fields if x.name == name), None)
        if f is not None:
            enc = m.field_enc(f)
            if enc is None:
                kind = "field:%s" % f.type
                enc = None
            else:
                kind = "field:" + enc_kind(m, enc)
            i += 1
            continue
        g = next((x for x in level.groups if x.name == name), None)
        if g is not None:
            kind = ("entry" if mm else "group") + ":" + ("flat" if not g.groups and not g.data else "nested")
            level = g
            enc = None
            i += 1
            continue
        d = next((x for x in level.data if x.name == name), None)
        if d is not None:
            return "data:%s" % m.data_len_prim(d)
        return "?"
    return kind


def enc_kind(m, enc):
    if enc.kind == "type":
        if enc.is_const():
            return "const"
        if enc.is_array():
            return "array"
        return "%s:%s" % (enc.eff_presence(), enc.prim)
    if enc.kind in ("enum", "set"):
        return "%s:%s" % (enc.kind, m.enum_prim(enc))
    return enc.kind


def all_schemas(tier, seed, nrandom_quick=2, nrandom_thorough=40):
    n = nrandom_quick if tier == "quick" else nrandom_thorough
    return S.corpus() + S.random_schemas(seed, n)


def std_configs(tier, checked=False):
    H = ("SBEPP_ENABLE_ASSERTS_WITH_HANDLER",)
    if tier == "quick":
        # the byte type of the views is a documented axis (char, unsigned char, std::byte): one of each in the quick tier
        return [build.Cfg("g++", "17", "san"), build.Cfg("clang++", "11", "san", defs=("VRT_BYTE_KIND=1",)),
                build.Cfg("g++", "20", "plain", defs=("VRT_BYTE_KIND=2",))]
    cfgs = [build.Cfg(cxx, std, "san") for cxx, std in build.all_compiler_std()]
    cfgs += [build.Cfg("g++", "17", "san", defs=("VRT_BYTE_KIND=2",)), build.Cfg("clang++", "20", "san", defs=("VRT_BYTE_KIND=2",)),
             build.Cfg("clang++", "14", "san", defs=("VRT_BYTE_KIND=1",)), build.Cfg("g++", "23", "plain", defs=("VRT_BYTE_KIND=1",)),
             build.Cfg("clang++", "17", "plain", defs=("VRT_BYTE_KIND=2", "SBEPP_HAS_BITCAST=0"))]
    cfgs += [build.Cfg("g++", "20", "plain"), build.Cfg("clang++", "23", "plain"),
             build.Cfg("g++", "20", "san", defs=("SBEPP_HAS_BITCAST=0",)), build.Cfg("clang++", "23", "san", defs=("SBEPP_HAS_BITCAST=0",))]
    return cfgs
