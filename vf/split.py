"""Multi-file forms of a schema (XInclude), for C08/C09/C20.

`Schema.to_xml()` has a fixed shape: prolog line, `<sbe:messageSchema ...>` line, `    <types>` ... `    </types>`, the
messages, `</sbe:messageSchema>`.  `split(xml, mode)` moves parts of it into included files *textually* and keeps the
line and column of every moved line computable, so that the location sbeppc prints for a rejected multi-file schema can
be compared with the location it printed for the single-file form:

    mode "types"     the <types> block lives in types_inc.xml, included where the block was
    mode "messages"  every message lives in its own msg_<k>_inc.xml, included where it was
    mode "both"      both of the above
    mode "nested"    the <types> block lives in types_inc.xml which is included by mid_inc.xml which the main file includes

An included file is: XML prolog line, then the moved lines unchanged (same indentation, so same columns).
"""
import re

PROLOG = '<?xml version="1.0" encoding="UTF-8"?>\n'
XI = ' xmlns:xi="http://www.w3.org/2001/XInclude"'


class Split:
    def __init__(self, main, files, linemap):
        self.main, self.files, self.linemap = main, files, linemap

    def locate(self, line):
        """(file name, line) in the split form of line `line` (1-based) of the single-file form, or None if that line
        does not exist as such in the split form."""
        return self.linemap.get(line)


def split(xml, mode="types", main_name="schema.xml"):
    lines = xml.split("\n")
    if lines and lines[-1] == "":
        lines.pop()
    try:
        t0 = next(i for i, l in enumerate(lines) if l == "    <types>")
        t1 = next(i for i, l in enumerate(lines) if l == "    </types>" and i > t0)
    except StopIteration:
        return None
    if "<sbe:messageSchema" not in lines[1] or "xmlns:xi" in lines[1]:
        return None
    # message blocks: from a line starting "    <sbe:message " to the matching "    </sbe:message>" (or self-closing)
    msgs = []
    i = t1 + 1
    while i < len(lines):
        if lines[i].startswith("    <sbe:message "):
            j = i
            if not lines[i].rstrip().endswith("/>"):
                while j < len(lines) and lines[j] != "    </sbe:message>":
                    j += 1
                if j >= len(lines):
                    return None
            msgs.append((i, j))
            i = j + 1
        else:
            i += 1
    files = {}
    linemap = {}
    out = []

    def emit(idx):
        out.append(lines[idx])
        linemap[idx + 1] = (main_name, len(out))

    def move(name, a, b, via=None):
        body = [lines[k] for k in range(a, b + 1)]
        files[name] = PROLOG + "\n".join(body) + "\n"
        for k in range(a, b + 1):
            linemap[k + 1] = (name, 2 + (k - a))
        if via:
            files[via] = PROLOG + '<xi:include%s href="%s"/>\n' % (XI, name)
            out.append('    <xi:include href="%s"/>' % via)
        else:
            out.append('    <xi:include href="%s"/>' % name)

    mi = 0
    i = 0
    while i < len(lines):
        if i == 1:
            out.append(lines[1].replace("<sbe:messageSchema", "<sbe:messageSchema" + XI, 1))
            linemap[2] = (main_name, len(out))
            i += 1
        elif i == t0 and mode in ("types", "both", "nested"):
            move("types_inc.xml", t0, t1, via="mid_inc.xml" if mode == "nested" else None)
            i = t1 + 1
        elif mode in ("messages", "both") and mi < len(msgs) and i == msgs[mi][0]:
            move("msg_%d_inc.xml" % mi, msgs[mi][0], msgs[mi][1])
            i = msgs[mi][1] + 1
            mi += 1
        else:
            emit(i)
            i += 1
    return Split("\n".join(out) + "\n", files, linemap)


LOC_RE = re.compile(r"Error\S*: (\S+?):(\d+):(\d+): ")


def first_location(out):
    """(file, line, col) of the first located diagnostic in sbeppc's output, or None."""
    m = LOC_RE.search(re.sub(r"\x1b\[[0-9;]*m", "", out))
    if not m:
        return None
    return m.group(1), int(m.group(2)), int(m.group(3))


def first_message(out):
    """Text of the first Error line after its location, digits kept (used to compare single-file and split runs)."""
    txt = re.sub(r"\x1b\[[0-9;]*m", "", out)
    m = re.search(r"Error\S*: (?:\S+?:\d+:\d+: )?(.*)", txt)
    return m.group(1).strip() if m else ""
