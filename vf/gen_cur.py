"""C04: cursor protocol interpreter.  One generated function per level executes a single cursor action
(member x wrapper x get/set) on a level instance with the cursor placed at an arbitrary offset, under
sbepp's assertion handler, and reports: asserted?, returned value / address of the returned view,
cursor.pointer() afterwards, state of the buffer.  The python side (predict) is the protocol model.
"""
from . import gen_driver as G, refmodel as R
from .schema import PRIM_SIZE

WRAPPERS = ["plain", "init", "dont_move", "init_dont_move", "skip"]
W_EXPR = ["c", "sbepp::cursor_ops::init(c)", "sbepp::cursor_ops::dont_move(c)", "sbepp::cursor_ops::init_dont_move(c)",
          "sbepp::cursor_ops::skip(c)"]

HELPERS = r'''
#include "vrt_assert.hpp"
namespace vrt
{
template<typename V>
inline std::string show_impl(V v, std::true_type /*view*/)
{
    return "@" + std::to_string(reinterpret_cast<const unsigned char*>(sbepp::addressof(v)) - g_base);
}
template<typename V>
inline std::string show_impl(V v, std::false_type)
{
    return txt(v);
}
template<typename V>
inline std::string show(V v)
{
    return show_impl(v, std::integral_constant<bool, sbepp::is_composite<V>::value || sbepp::is_array_type<V>::value
                                                     || sbepp::is_group<V>::value || sbepp::is_data<V>::value>{});
}
template<typename V>
inline V flip(V v)
{
    unsigned char* b = reinterpret_cast<unsigned char*>(&v);
    b[0] ^= 1;
    return v;
}
template<typename G>
inline typename G::value_type nth(G g, unsigned long long i)
{
    auto it = g.begin();
    for(unsigned long long k = 0; k < i; k++)
        ++it;
    return *it;
}
} // namespace vrt
static std::string g_text;
'''


class CurGen:
    def __init__(self, schema):
        self.s = schema
        self.m = R.Model(schema)
        self.pkg = schema.package
        self.level_ids = {}
        self.code = []
        self.levels = []     # (level, path) in id order

    def lid(self, level):
        if id(level) not in self.level_ids:
            self.level_ids[id(level)] = len(self.level_ids)
        return self.level_ids[id(level)]

    def members(self, level):
        """[(name, kind)] kind in scalar | view | group | data ; non-constant fields, groups, data in schema order"""
        m = self.m
        out = []
        for f, off in m.level_layout(level)[0]:
            if off is None:
                continue
            enc = m.field_enc(f)
            view = enc is not None and (enc.kind == "composite" or (enc.kind == "type" and enc.is_array()))
            out.append((f.name, "view" if view else "scalar"))
        out += [(g.name, "group") for g in level.groups]
        out += [(d.name, "data") for d in level.data]
        return out

    def gen_level(self, level, path):
        k = self.lid(level)
        self.levels.append((level, path))
        cases = []
        for mi, (name, kind) in enumerate(self.members(level)):
            gets = "\n".join(
                "            case %d: %s break;" % (w, ("l.%s(%s); g_text = \"-\";" % (name, W_EXPR[w])) if w == 4 else
                                                   ("g_text = vrt::show(l.%s(%s));" % (name, W_EXPR[w])))
                for w in range(5))
            if kind == "scalar":
                sets = "\n".join("            case %d: l.%s(nv, %s); g_text = \"set\"; break;" % (w, name, W_EXPR[w]) for w in range(4))
                setter = ("        {\n            const auto nv = vrt::flip(l.%s());\n            switch(w)\n            {\n%s\n            }\n        }" % (name, sets))
            else:
                setter = "        g_text = \"no-setter\";"
            cases.append("    case %d:\n        if(!set)\n        {\n            switch(w)\n            {\n%s\n            }\n        }\n        else\n%s\n        break;"
                         % (mi, gets, setter))
        self.code.append("template<typename V>\nstatic void act_L%d(V l, int member, int w, bool set, sbepp::cursor<char>& c)\n{\n"
                         "    (void)l; (void)w; (void)set; (void)c;\n    switch(member)\n    {\n%s\n    default: break;\n    }\n}\n" % (k, "\n".join(cases)))
        for g in level.groups:
            self.gen_level(g, path + [g.name])
        return k

    def gen_ranges(self, base):
        """One function per (level, group member): iterate a cursor range / subrange of that group, recording the
        address of every entry and dumping it through the cursor with the codec driver's dumper."""
        tags = {}
        for msg in self.s.messages:
            for path, lv in msg.walk_levels():
                tags[id(lv)] = "::%s::schema::messages::%s%s" % (self.pkg, msg.name, "".join("::" + x for x in path))
        for level, path in self.levels:
            k = self.lid(level)
            for gi, g in enumerate(level.groups):
                body = ("g_addrs += std::to_string(reinterpret_cast<const unsigned char*>(sbepp::addressof(e)) - g_base) + \",\"; "
                        "dL%d_cur<%s>(vrt::idx(\"e\", i), e, c, false); ++i;" % (base.lid(g), tags[id(g)]))
                self.code.append(
                    "template<typename V>\nstatic void rng_L%d_%d(V l, int form, unsigned long long pos, unsigned long long count, sbepp::cursor<char>& c)\n{\n"
                    "    auto g = l.%s();\n    typedef typename decltype(g)::size_type ST;\n    std::size_t i = 0;\n    (void)pos; (void)count;\n"
                    "    switch(form)\n    {\n"
                    "    case 0: for(const auto e : g.cursor_range(c)) { %s } break;\n"
                    "    case 1: for(const auto e : g.cursor_subrange(c, static_cast<ST>(pos))) { %s } break;\n"
                    "    case 2: for(const auto e : g.cursor_subrange(c, static_cast<ST>(pos), static_cast<ST>(count))) { %s } break;\n"
                    "    default: { auto it = g.cursor_begin(c); const auto end = g.cursor_end(c); for(; it != end; ++it) { const auto e = *it; %s } } break;\n"
                    "    }\n    g_count = i;\n}\n" % (k, gi, g.name, body, body, body, body))

    def generate(self):
        disp = []
        rdisp = []
        base = G.Gen(self.s)
        for mi, msg in enumerate(self.s.messages):
            base.gen_message(mi, msg)
        self.code += base.code
        self.code.append("static std::string g_addrs;\nstatic std::size_t g_count;\n")
        for mi, msg in enumerate(self.s.messages):
            self.gen_level(msg, [])
        self.gen_ranges(base)
        # dispatch: (message index, level id) -> navigation
        for mi, msg in enumerate(self.s.messages):
            view = "::%s::messages::%s<char>" % (self.pkg, msg.name)
            for path, lv in msg.walk_levels():
                k = self.lid(lv)
                nav = "        auto l0 = m;\n"
                cur = "l0"
                for d, gname in enumerate(path):
                    nav += "        auto l%d = vrt::nth(%s.%s(), ix[%d]);\n" % (d + 1, cur, gname, d)
                    cur = "l%d" % (d + 1)
                disp.append("    if(mi == %d && lid == %d)\n    {\n        %s m{reinterpret_cast<char*>(p), n};\n%s        act_L%d(%s, member, w, set, c);\n        return;\n    }"
                            % (mi, k, view, nav, k, cur))
                for gi, g in enumerate(lv.groups):
                    rdisp.append("    if(mi == %d && lid == %d && gi == %d)\n    {\n        %s m{reinterpret_cast<char*>(p), n};\n%s        rng_L%d_%d(%s, form, pos, count, c);\n        return;\n    }"
                                 % (mi, k, gi, view, nav, k, gi, cur))
        src = (G.HEAD % dict(pkg=self.pkg)) + HELPERS + "\n".join(self.code)
        src += ("\nstatic void dispatch(int mi, int lid, unsigned char* p, std::size_t n, const std::vector<unsigned long long>& ix, int member, int w, bool set, sbepp::cursor<char>& c)\n{\n"
                "    (void)ix;\n%s\n}\n" % "\n".join(disp))
        src += ("\nstatic void rdispatch(int mi, int lid, unsigned char* p, std::size_t n, const std::vector<unsigned long long>& ix, int gi, int form, "
                "unsigned long long pos, unsigned long long count, sbepp::cursor<char>& c)\n{\n"
                "    (void)ix; (void)p; (void)n; (void)gi; (void)form; (void)pos; (void)count; (void)c; (void)mi; (void)lid;\n%s\n}\n" % "\n".join(rdisp))
        src += MAIN
        return src


MAIN = r'''
int main()
{
    std::string ln;
    std::vector<unsigned char> img;
    std::vector<unsigned char> work;
    while(std::getline(std::cin, ln))
    {
        vrt::tokens t;
        t.t = vrt::split(ln);
        if(t.t.empty())
            continue;
        const std::string cmd = t.next();
        if(cmd == "IMG")
        {
            img = t.bytes();
            continue;
        }
        if(cmd == "RNG")
        {
            // RNG id mi lid nix ix... cursor_off group_index form pos count
            const std::string id = t.next();
            const int mi = static_cast<int>(t.u64());
            const int lid = static_cast<int>(t.u64());
            const unsigned long long nix = t.u64();
            std::vector<unsigned long long> ix;
            for(unsigned long long i = 0; i < nix; i++)
                ix.push_back(t.u64());
            const long cur_off = std::strtol(t.next().c_str(), nullptr, 10);
            const int gi = static_cast<int>(t.u64());
            const int form = static_cast<int>(t.u64());
            const unsigned long long pos = t.u64();
            const unsigned long long count = t.u64();
            work = img;
            work.resize(img.size() + 64, 0xEE);
            unsigned char* p = work.data();
            g_base = p;
            sbepp::cursor<char> c;
            c.pointer() = reinterpret_cast<char*>(p) + cur_off;
            g_addrs.clear();
            g_count = 0;
            vrt::out().clear();
            const bool as = VRT_TRAPPED(rdispatch(mi, lid, p, img.size(), ix, gi, form, pos, count, c));
            std::string dump = vrt::out();
            vrt::out().clear();
            for(std::size_t i = 0; i < dump.size(); i++)
                if(dump[i] == '\n')
                    dump[i] = '|';
            bool changed = false;
            for(std::size_t i = 0; i < work.size(); i++)
                changed = changed || work[i] != (i < img.size() ? img[i] : 0xEE);
            std::printf("G %s %d %zu %ld %s %s %s #%s\n", id.c_str(), int(as), g_count,
                        static_cast<long>(reinterpret_cast<unsigned char*>(c.pointer()) - p), g_addrs.empty() ? "-" : g_addrs.c_str(),
                        changed ? "changed" : "unchanged", as ? vrt::astate().func : "-", dump.c_str());
            std::fflush(stdout);
            continue;
        }
        // ACT id mi lid nix ix... cursor_off member wrapper set field_off field_size
        const std::string id = t.next();
        const int mi = static_cast<int>(t.u64());
        const int lid = static_cast<int>(t.u64());
        const unsigned long long nix = t.u64();
        std::vector<unsigned long long> ix;
        for(unsigned long long i = 0; i < nix; i++)
            ix.push_back(t.u64());
        const long cur_off = std::strtol(t.next().c_str(), nullptr, 10);
        const int member = static_cast<int>(t.u64());
        const int w = static_cast<int>(t.u64());
        const bool set = t.u64() != 0;
        const std::size_t foff = static_cast<std::size_t>(t.u64());
        const std::size_t fsize = static_cast<std::size_t>(t.u64());
        work = img;
        // a little slack behind the image so that a wrongly positioned cursor reads garbage, not unmapped memory
        work.resize(img.size() + 64, 0xEE);
        unsigned char* p = work.data();
        g_base = p;
        sbepp::cursor<char> c;
        c.pointer() = reinterpret_cast<char*>(p) + cur_off;
        g_text = "?";
        const bool as = VRT_TRAPPED(dispatch(mi, lid, p, img.size(), ix, member, w, set, c));
        // buffer state: unchanged / only the field's bytes changed / something else changed
        const char* wstate = "unchanged";
        bool field_changed = false, other_changed = false;
        for(std::size_t i = 0; i < work.size(); i++)
        {
            const unsigned char orig = i < img.size() ? img[i] : 0xEE;
            if(work[i] != orig)
            {
                if(i >= foff && i < foff + fsize)
                    field_changed = true;
                else
                    other_changed = true;
            }
        }
        if(other_changed)
            wstate = "other-bytes-changed";
        else if(field_changed)
            wstate = "field-changed";
        std::printf("A %s %d %s %ld %s %s\n", id.c_str(), int(as), as ? "!" : g_text.c_str(),
                    static_cast<long>(reinterpret_cast<unsigned char*>(c.pointer()) - p), wstate, as ? vrt::astate().func : "-");
        std::fflush(stdout);
    }
    return 0;
}
'''


# ============================================================================ protocol model

class LevelInstance:
    """Geometry of one level instance inside an image."""

    def __init__(self, m, level, vals, start, wire_bl):
        self.m, self.level, self.vals, self.L, self.BL = m, level, vals, start, wire_bl
        self.members = []      # dicts: name kind start end req last first_dynamic hdr text bits size
        prev_end = 0
        lay = [(f, off) for f, off in m.level_layout(level)[0] if off is not None]
        for i, (f, off) in enumerate(lay):
            enc = m.field_enc(f)
            size = m.field_size(f)
            view = enc is not None and (enc.kind == "composite" or (enc.kind == "type" and enc.is_array()))
            d = dict(name=f.name, kind="view" if view else "scalar", start=start + off, end=start + off + size, req=start + prev_end,
                     last=(i == len(lay) - 1), size=size)
            if not view:
                d["bits"] = vals.fields[f.name]
                d["text"] = "%0*x" % (2 * size, vals.fields[f.name])
            else:
                d["text"] = "@%d" % (start + off)
            self.members.append(d)
            prev_end = off + size
        cur = start + wire_bl
        first_dyn = True
        for g in level.groups:
            entries = vals.groups[g.name]
            gs = R.group_size(m, g, entries, vals.groups.get(("extra", g.name), 0))
            self.members.append(dict(name=g.name, kind="group", start=cur, end=cur + gs, hdr=m.enc_size(m.dimension(g)),
                                     first_dynamic=first_dyn, text="@%d" % cur))
            first_dyn = False
            cur += gs
        for d in level.data:
            n = m.data_prefix_size(d) + len(vals.data[d.name])
            self.members.append(dict(name=d.name, kind="data", start=cur, end=cur + n, first_dynamic=first_dyn, text="@%d" % cur))
            first_dyn = False
            cur += n
        self.end = cur

    def interesting_offsets(self):
        out = {self.L, self.L + self.BL, self.end}
        for d in self.members:
            out |= {d["start"], d["end"]}
            if "req" in d:
                out.add(d["req"])
            if "hdr" in d:
                out.add(d["start"] + d["hdr"])
        return out

    def predict(self, cur, mi, w, is_set):
        """(legal, asserted_expected, new_cursor, text) for one action; wrapper index w."""
        d = self.members[mi]
        k = d["kind"]
        block_end = self.L + self.BL
        if k in ("scalar", "view"):
            checks = w in (0, 2, 4)
            legal = (not checks) or cur == d["req"]
            if not legal:
                return False, True, cur, "!"
            if w in (0, 1, 4):
                new = block_end if d["last"] else d["end"]
            elif w == 2:
                new = cur
            else:
                new = d["req"]
            if is_set:
                text = "set"
            else:
                text = "-" if w == 4 else d["text"]
            return True, False, new, text
        # groups and data
        first = d["first_dynamic"]
        checks = (w in (0, 2, 4)) and not first
        legal = (not checks) or cur == d["start"]
        if not legal:
            return False, True, cur, "!"
        if k == "group":
            after = d["start"] + d["hdr"]
        else:
            after = d["end"]
        if w in (0, 1):
            new = after
        elif w == 2:
            new = d["start"] if first else cur
        elif w == 3:
            new = d["start"]
        else:
            new = d["end"]
        return True, False, new, ("-" if w == 4 else d["text"])
