"""Schema edits: single rule-breaking / boundary-valid edits on the model (C08) and hostile,
structure-aware XML mutations (C09)."""
import copy
import random
import re
import xml.etree.ElementTree as ET

from . import refmodel as R
from . import schema as S
from .schema import PRIM_SIZE

KEYWORDS = ["class", "int", "while", "namespace", "template", "double", "char", "xor_eq", "co_await", "requires"]
# [lex.key] of C++23 plus the alternative tokens: every one of them is swept over a few positions (keyword_sweep)
ALL_KEYWORDS = """alignas alignof asm auto bool break case catch char char8_t char16_t char32_t class concept const consteval
constexpr constinit const_cast continue co_await co_return co_yield decltype default delete do double dynamic_cast else enum
explicit export extern false float for friend goto if inline int long mutable namespace new noexcept nullptr operator private
protected public register reinterpret_cast requires return short signed sizeof static static_assert static_cast struct switch
template this thread_local throw true try typedef typeid typename union unsigned using virtual void volatile wchar_t while
and and_eq bitand bitor compl not not_eq or or_eq xor xor_eq""".split()
# identifiers reserved to the implementation: sbeppc only warns about them (documented behaviour), so they stay accepted
RESERVED_NAMES = ["a__b", "__x", "x__", "_Abc", "_X"]
NOT_RESERVED = ["a_b", "_abc", "x_", "_1a", "A_"]
NOT_KEYWORDS = ["class_", "Class", "integer", "whiles", "name_space", "doubles", "Char", "xor_equal", "register_", "this_"]
BAD_NAMES = ["1abc", "a-b", "a b", "a.b", "", "ü", "x+", "-ab", ".ab", "@ab", " ab", "ab-", "$a"]
# every printable ASCII character that is not allowed in a name, at the first, a middle and the last position
BAD_CHARS = [chr(c) for c in range(0x20, 0x7F) if not (chr(c).isalnum() or chr(c) == "_")]


def levels_of(schema):
    """[(message, path tuple, level)] for all levels."""
    out = []
    for m in schema.messages:
        for path, lv in m.walk_levels():
            out.append((m, path, lv))
    return out


def composites_of(schema):
    """All composite definitions incl. inline nested ones: [(composite, is_public)]"""
    out = []

    def rec(c, pub):
        out.append((c, pub))
        for e in c.elements:
            if e.kind == "composite":
                rec(e, False)
    for t in schema.types:
        if t.kind == "composite":
            rec(t, True)
    return out


def all_types(schema):
    """All <type> definitions (public and inline)."""
    out = [t for t in schema.types if t.kind == "type"]
    for c, _ in composites_of(schema):
        out += [e for e in c.elements if e.kind == "type"]
    return out


def all_enums(schema):
    out = [t for t in schema.types if t.kind == "enum"]
    for c, _ in composites_of(schema):
        out += [e for e in c.elements if e.kind == "enum"]
    return out


def all_sets(schema):
    out = [t for t in schema.types if t.kind == "set"]
    for c, _ in composites_of(schema):
        out += [e for e in c.elements if e.kind == "set"]
    return out


class Edit:
    def __init__(self, rule, where, expect_reject, apply):
        self.rule, self.where, self.expect_reject, self.apply = rule, where, expect_reject, apply


def _locate(schema, kind, idx):
    """Re-find the idx-th object of a kind in a cloned schema."""
    if kind == "level":
        return levels_of(schema)[idx][2]
    if kind == "composite":
        return composites_of(schema)[idx][0]
    if kind == "type":
        return all_types(schema)[idx]
    if kind == "enum":
        return all_enums(schema)[idx]
    if kind == "set":
        return all_sets(schema)[idx]
    if kind == "message":
        return schema.messages[idx]
    if kind == "pubtype":
        return schema.types[idx]
    raise KeyError(kind)


def header_composites(schema):
    m = R.Model(schema)
    names = {schema.eff_header().lower()}
    for _, _, lv in levels_of(schema):
        for g in lv.groups:
            names.add(g.eff_dimension().lower())
        for d in lv.data:
            names.add(d.type.lower())
    return names


def single_edits(schema, rng, per_rule_cap=6):
    """All applicable single edits (capped per rule and position class) for a valid schema."""
    m = R.Model(schema)
    edits = []

    def add(rule, where, reject, kind, idx, fn):
        def apply(s):
            fn(_locate(s, kind, idx), s)
        edits.append(Edit(rule, where, reject, apply))

    hdr_names = header_composites(schema)

    # ------------------------------------------------------------ offsets of fields (every level)
    for li, (msg, path, lv) in enumerate(levels_of(schema)):
        where = "message" if not path else "group-depth%d" % len(path)
        lay, minbl, bl = m.level_layout(lv)
        cur = 0
        for fi, (f, off) in enumerate(lay):
            if off is None:
                continue
            if cur > 0:
                add("offset-below-minimum", "field@" + where, True, "level", li,
                    lambda l, s, fi=fi, v=cur - 1: setattr(l.fields[fi], "offset", v))
                if cur > 1:
                    add("offset-below-minimum", "field-offset-zero@" + where, True, "level", li,
                        lambda l, s, fi=fi: setattr(l.fields[fi], "offset", 0))
                add("offset-at-minimum", "field@" + where, False, "level", li,
                    lambda l, s, fi=fi, v=cur: (setattr(l.fields[fi], "offset", v) if l.fields[fi].offset is None else None))
            # an offset so large that offset + size wraps in 64 bits: the field lies outside any block, the running offset
            # must not wrap to a small value (added after a sub-agent pointed at the unchecked addition)
            fs = m.field_size(f)
            if fs > 0 and f.offset is None:
                add("offset-wraps-64bit", "field-end-at-2^64@" + where, True, "level", li,
                    lambda l, s, fi=fi, v=2 ** 64 - fs: setattr(l.fields[fi], "offset", v))
                if fs > 1:
                    add("offset-wraps-64bit", "field-end-beyond-2^64@" + where, True, "level", li,
                        lambda l, s, fi=fi, v=2 ** 64 - 1: setattr(l.fields[fi], "offset", v))
            cur = off + m.field_size(f)
        # block length
        if minbl > 0:
            add("blockLength-below-content", where, True, "level", li, lambda l, s, v=minbl - 1: setattr(l, "block_length", v))
        add("blockLength-at-content", where, False, "level", li, lambda l, s, v=minbl: setattr(l, "block_length", v))
        # member order
        if lv.fields and lv.groups:
            add("member-order", "field-after-group@" + where, True, "level", li, lambda l, s: setattr(l, "_order", "gf"))
        if lv.groups and lv.data:
            add("member-order", "group-after-data@" + where, True, "level", li, lambda l, s: setattr(l, "_order", "dg"))
        if lv.fields and lv.data and not lv.groups:
            add("member-order", "field-after-data@" + where, True, "level", li, lambda l, s: setattr(l, "_order", "df"))
        # duplicate names
        names = [x.name for x in lv.fields + lv.groups + lv.data]
        if len(names) >= 2:
            add("duplicate-name", "member@" + where, True, "level", li, lambda l, s: _dup_member(l))
        # unknown / wrong-kind references
        if lv.fields:
            add("unknown-reference", "field-type@" + where, True, "level", li, lambda l, s: setattr(l.fields[0], "type", "NoSuchType_"))
        for gi, g in enumerate(lv.groups):
            add("unknown-reference", "dimensionType@" + where, True, "level", li,
                lambda l, s, gi=gi: setattr(l.groups[gi], "dimension_type", "NoSuchDim_"))
            nonc = next((t.name for t in schema.types if t.kind != "composite"), None)
            if nonc:
                add("wrong-kind-reference", "dimensionType-not-composite@" + where, True, "level", li,
                    lambda l, s, gi=gi, n=nonc: setattr(l.groups[gi], "dimension_type", n))
            break
        for di, d in enumerate(lv.data):
            add("unknown-reference", "data-type@" + where, True, "level", li, lambda l, s, di=di: setattr(l.data[di], "type", "NoSuchVar_"))
            nonc = next((t.name for t in schema.types if t.kind != "composite"), None)
            if nonc:
                add("wrong-kind-reference", "data-type-not-composite@" + where, True, "level", li,
                    lambda l, s, di=di, n=nonc: setattr(l.data[di], "type", n))
            break
        # a level header used in the *other* role: valid as group dimension, malformed as <data> header and vice versa
        # (whichever role happens to be validated first must not vouch for the other)
        if lv.groups and lv.data:
            add("malformed-level-header", "data-type-is-a-group-dimension@" + where, True, "level", li,
                lambda l, s: setattr(l.data[0], "type", l.groups[0].eff_dimension()))
        data_types = sorted({d.type for _, _, l2 in levels_of(schema) for d in l2.data})
        for gi, g in enumerate(lv.groups):
            if data_types:
                add("malformed-level-header", "dimensionType-is-a-data-header@" + where, True, "level", li,
                    lambda l, s, gi=gi, n=data_types[0]: setattr(l.groups[gi], "dimension_type", n))
        # names
        for kind, lst in (("field", "fields"), ("group", "groups"), ("data", "data")):
            if getattr(lv, lst):
                add("keyword-name", kind + "@" + where, True, "level", li,
                    lambda l, s, lst=lst, n=rng.choice(KEYWORDS): setattr(getattr(l, lst)[0], "name", n))
                add("invalid-name", kind + "@" + where, True, "level", li,
                    lambda l, s, lst=lst, n=rng.choice(BAD_NAMES): setattr(getattr(l, lst)[0], "name", n))
                add("keyword-like-name", kind + "@" + where, False, "level", li,
                    lambda l, s, lst=lst, n=rng.choice(NOT_KEYWORDS): _rename_unique(getattr(l, lst)[0], l, n))

    # ------------------------------------------------------------ composites
    for ci, (c, pub) in enumerate(composites_of(schema)):
        where = "composite" if pub else "inline-composite"
        is_hdr = c.name.lower() in hdr_names
        lay, size = m.composite_layout(c)
        cur = 0
        for ei, (e, off) in enumerate(lay):
            if off is None:
                continue
            if cur > 0:
                add("offset-below-minimum", "element@" + where, True, "composite", ci,
                    lambda c_, s, ei=ei, v=cur - 1: setattr(c_.elements[ei], "offset", v))
                if cur > 1:
                    add("offset-below-minimum", "element-offset-zero@" + where, True, "composite", ci,
                        lambda c_, s, ei=ei: setattr(c_.elements[ei], "offset", 0))
                add("offset-at-minimum", "element@" + where, False, "composite", ci,
                    lambda c_, s, ei=ei, v=cur: (setattr(c_.elements[ei], "offset", v) if c_.elements[ei].offset is None else None))
            es = m.enc_size(e)
            if es > 0 and getattr(e, "offset", None) is None and not is_hdr:
                add("offset-wraps-64bit", "element-end-at-2^64@" + where, True, "composite", ci,
                    lambda c_, s, ei=ei, v=2 ** 64 - es: setattr(c_.elements[ei], "offset", v))
            cur = off + m.enc_size(e)
        if len(c.elements) >= 2:
            add("duplicate-name", "element@" + where, True, "composite", ci,
                lambda c_, s: setattr(c_.elements[1], "name", c_.elements[0].name))
        if c.elements and not is_hdr:
            add("keyword-name", "element@" + where, True, "composite", ci,
                lambda c_, s, n=rng.choice(KEYWORDS): setattr(c_.elements[0], "name", n))
        for ei, e in enumerate(c.elements):
            if e.kind == "ref":
                add("unknown-reference", "ref@" + where, True, "composite", ci,
                    lambda c_, s, ei=ei: setattr(c_.elements[ei], "type", "NoSuchRef_"))
                break
        if pub and not is_hdr:
            # self reference / two-step cycle
            add("cyclic-reference", "self@" + where, True, "composite", ci,
                lambda c_, s: c_.elements.append(S.Ref("selfref_", c_.name)))
            others = [t for t in schema.types if t.kind == "composite" and t is not c and t.name.lower() not in hdr_names]
            if others:
                add("cyclic-reference", "mutual@" + where, True, "composite", ci,
                    lambda c_, s, on=others[0].name: _mutual_cycle(c_, s, on))

    # ------------------------------------------------------------ level headers (malformed variants)
    for ci, (c, pub) in enumerate(composites_of(schema)):
        if not pub or c.name.lower() not in hdr_names:
            continue
        role = "message-header" if c.name.lower() == schema.eff_header().lower() else "level-header"
        req = [e.name for e in c.elements if e.name in ("blockLength", "numInGroup", "templateId", "schemaId", "version", "length", "varData")]
        for nm in req[:3]:
            add("malformed-level-header", "missing-%s@%s" % (nm, role), True, "composite", ci,
                lambda c_, s, nm=nm: setattr(c_, "elements", [e for e in c_.elements if e.name != nm]))
            if nm != "varData":
                add("malformed-level-header", "array-%s@%s" % (nm, role), True, "composite", ci,
                    lambda c_, s, nm=nm: _make_array_member(c_, s, nm))
                add("malformed-level-header", "constant-%s@%s" % (nm, role), True, "composite", ci,
                    lambda c_, s, nm=nm: _make_const_member(c_, s, nm))
                add("malformed-level-header", "composite-%s@%s" % (nm, role), True, "composite", ci,
                    lambda c_, s, nm=nm: _replace_member(c_, nm, S.Composite(nm, [S.Type("x", "uint8")])))
            else:
                add("malformed-level-header", "varData-length-1@%s" % role, True, "composite", ci,
                    lambda c_, s: setattr(c_.element("varData"), "length", 1 if c_.element("varData").kind == "type" else None))

    # ------------------------------------------------------------ valueRef into a char enum whose encodingType is a named type
    def _char_enum_via_type(t_, s, as_field):
        s.types.append(S.Type("VrCharT_", "char"))
        s.types.append(S.Enum("VrCharE_", "VrCharT_", [S.EnumValue("A", "A"), S.EnumValue("Z", "z")]))
        if as_field:
            s.messages[0].fields.append(S.Field("vrk_", 64001, "char", presence="constant", value_ref="VrCharE_.Z"))
        else:
            s.types.append(S.Type("VrCharK_", "char", presence="constant", value_ref="VrCharE_.A"))
            s.messages[0].fields.append(S.Field("vrk_", 64001, "VrCharK_"))
    if schema.messages and schema.types:
        add("valueRef-char-enum-via-named-type", "constant-type", False, "pubtype", 0,
            lambda t_, s: _char_enum_via_type(t_, s, False))
        add("valueRef-char-enum-via-named-type", "constant-field", False, "pubtype", 0,
            lambda t_, s: _char_enum_via_type(t_, s, True))

    # ------------------------------------------------------------ types: values out of range, arrays
    for ti, t in enumerate(all_types(schema)):
        p = t.prim
        where = "type"
        if t.is_const():
            if t.const is not None and p != "char" and not R.is_fp(p):
                lo, hi = R.int_range(p)
                add("value-not-representable", "constant-above-max@" + p, True, "type", ti, lambda t_, s, v=hi + 1: setattr(t_, "const", str(v)))
                add("value-not-representable", "constant-below-min@" + p, True, "type", ti, lambda t_, s, v=lo - 1: setattr(t_, "const", str(v)))
                add("value-at-extreme", "constant-max@" + p, False, "type", ti, lambda t_, s, v=hi: setattr(t_, "const", str(v)))
                add("value-at-extreme", "constant-min@" + p, False, "type", ti, lambda t_, s, v=lo: setattr(t_, "const", str(v)))
                add("value-not-representable", "constant-non-numeric@" + p, True, "type", ti, lambda t_, s: setattr(t_, "const", "12x"))
            if t.const is not None and p == "char" and t.length is not None:
                add("value-not-representable", "char-constant-longer-than-length", True, "type", ti,
                    lambda t_, s: setattr(t_, "const", "y" * (int(t_.length) + 1)))
                add("value-at-extreme", "char-constant-fills-length", False, "type", ti,
                    lambda t_, s: setattr(t_, "const", "y" * max(1, int(t_.length))) if int(t_.length) >= 1 else None)
            continue
        if t.is_array():
            # arrays of every multi-byte primitive, including the zero-length `varData` element of <data> headers
            mb = ["uint16", "int16", "uint32", "int64", "float", "double"][ti % 6]
            add("multi-byte-array", ("varData-of-" if t.name == "varData" else "array-of-") + mb, True, "type", ti,
                lambda t_, s, mb=mb: setattr(t_, "prim", mb))
            add("multi-byte-array", ("varData-of-" if t.name == "varData" else "array-of-") + "uint16", True, "type", ti,
                lambda t_, s: setattr(t_, "prim", "uint16"))
            continue
        if t.name in ("blockLength", "numInGroup", "templateId", "schemaId", "version", "length", "numGroups", "numVarDataFields"):
            continue
        if not R.is_fp(p):
            lo, hi = R.int_range(p)
            for attr in ("min", "max") + (("null",) if t.eff_presence() == "optional" else ()):
                add("value-not-representable", "%sValue-above-max@%s" % (attr, p), True, "type", ti,
                    lambda t_, s, a=attr, v=hi + 1: setattr(t_, a, str(v)))
                add("value-not-representable", "%sValue-below-min@%s" % (attr, p), True, "type", ti,
                    lambda t_, s, a=attr, v=lo - 1: setattr(t_, a, str(v)))
                add("value-at-extreme", "%sValue-max@%s" % (attr, p), False, "type", ti, lambda t_, s, a=attr, v=hi: setattr(t_, a, str(v)))
                add("value-at-extreme", "%sValue-min@%s" % (attr, p), False, "type", ti, lambda t_, s, a=attr, v=lo: setattr(t_, a, str(v)))
            add("value-not-representable", "minValue-non-numeric@" + p, True, "type", ti, lambda t_, s: setattr(t_, "min", "abc"))
            # forms the branch coverage of the validator showed unexercised: empty text, surrounding blanks
            add("value-not-representable", "maxValue-empty@" + p, True, "type", ti, lambda t_, s: setattr(t_, "max", ""))
            add("value-not-representable", "minValue-leading-blank@" + p, True, "type", ti, lambda t_, s: setattr(t_, "min", " 1"))
            add("value-not-representable", "minValue-trailing-blank@" + p, True, "type", ti, lambda t_, s: setattr(t_, "min", "1 "))
        else:
            add("value-not-representable", "minValue-empty@" + p, True, "type", ti, lambda t_, s: setattr(t_, "min", ""))
            add("value-not-representable", "maxValue-leading-blank@" + p, True, "type", ti, lambda t_, s: setattr(t_, "max", " 1.5"))
            add("value-not-representable", "maxValue-signed-NaN@" + p, True, "type", ti, lambda t_, s: setattr(t_, "max", "-NaN"))
            add("value-not-representable", "maxValue-plus-NaN@" + p, True, "type", ti, lambda t_, s: setattr(t_, "max", "+NaN"))
            add("value-not-representable", "minValue-HEX-float@" + p, True, "type", ti, lambda t_, s: setattr(t_, "min", "0X1P3"))
            add("value-at-extreme", "maxValue-NaN@" + p, False, "type", ti, lambda t_, s: setattr(t_, "max", "NaN"))
            add("value-at-extreme", "minValue-minus-INF@" + p, False, "type", ti, lambda t_, s: setattr(t_, "min", "-INF"))
            add("value-not-representable", "maxValue-non-numeric@" + p, True, "type", ti, lambda t_, s: setattr(t_, "max", "1.5x"))
            add("value-not-representable", "minValue-hex-float@" + p, True, "type", ti, lambda t_, s: setattr(t_, "min", "0x1p3"))
            big = "1e39" if p == "float" else "1e309"
            add("value-not-representable", "maxValue-overflows@" + p, True, "type", ti, lambda t_, s, b=big: setattr(t_, "max", b))
            add("value-at-extreme", "maxValue-INF@" + p, False, "type", ti, lambda t_, s: setattr(t_, "max", "INF"))
            add("value-at-extreme", "minValue-largest-finite@" + p, False, "type", ti,
                lambda t_, s, v=("-3.4028234e38" if p == "float" else "-1.7976931348623157e308"): setattr(t_, "min", v))
        add("unknown-reference", "primitiveType", True, "type", ti, lambda t_, s: setattr(t_, "prim", "uint128"))

    for ei, e in enumerate(all_enums(schema)):
        p = m.enum_prim(e)
        if p != "char":
            lo, hi = R.int_range(p)
            add("value-not-representable", "validValue-above-max@" + p, True, "enum", ei,
                lambda e_, s, v=hi + 1: e_.values.append(S.EnumValue("over_", str(v))))
            add("value-not-representable", "validValue-below-min@" + p, True, "enum", ei,
                lambda e_, s, v=lo - 1: e_.values.append(S.EnumValue("under_", str(v))))
            add("value-not-representable", "validValue-non-numeric@" + p, True, "enum", ei,
                lambda e_, s: e_.values.append(S.EnumValue("nn_", "x1")))
            used = {x.value for x in e.values}
            if str(hi) not in used:
                add("value-at-extreme", "validValue-max@" + p, False, "enum", ei, lambda e_, s, v=hi: e_.values.append(S.EnumValue("top_", str(v))))
            if str(lo) not in used:
                add("value-at-extreme", "validValue-min@" + p, False, "enum", ei, lambda e_, s, v=lo: e_.values.append(S.EnumValue("bot_", str(v))))
        else:
            add("value-not-representable", "validValue-two-chars@char", True, "enum", ei, lambda e_, s: e_.values.append(S.EnumValue("cc_", "ab")))
        if len(e.values) >= 2:
            add("duplicate-name", "validValue", True, "enum", ei, lambda e_, s: setattr(e_.values[1], "name", e_.values[0].name))
        if e.values:
            add("keyword-name", "validValue", True, "enum", ei, lambda e_, s, n=rng.choice(KEYWORDS): setattr(e_.values[0], "name", n))
        add("unknown-reference", "enum-encodingType", True, "enum", ei, lambda e_, s: setattr(e_, "encoding", "NoSuchEnc_"))
        comp = next((t.name for t in schema.types if t.kind == "composite"), None)
        if comp:
            add("wrong-kind-reference", "enum-encodingType-composite", True, "enum", ei, lambda e_, s, n=comp: setattr(e_, "encoding", n))
        add("wrong-kind-reference", "enum-encodingType-float", True, "enum", ei, lambda e_, s: setattr(e_, "encoding", "float"))

    for si, st in enumerate(all_sets(schema)):
        w = 8 * PRIM_SIZE[m.set_prim(st)]
        used = {c.index for c in st.choices}
        add("choice-index-beyond-width", "index=width@uint%d" % w, True, "set", si, lambda s_, s, v=w: s_.choices.append(S.Choice("over_", v)))
        if w - 1 not in used:
            add("choice-index-at-width-1", "index=width-1@uint%d" % w, False, "set", si, lambda s_, s, v=w - 1: s_.choices.append(S.Choice("top_", v)))
        add("choice-index-beyond-width", "index-non-numeric", True, "set", si, lambda s_, s: s_.choices.append(S.Choice("nn_", "x")))
        add("choice-index-beyond-width", "index=256", True, "set", si, lambda s_, s: s_.choices.append(S.Choice("big_", 256)))
        if len(st.choices) >= 2:
            add("duplicate-name", "choice", True, "set", si, lambda s_, s: setattr(s_.choices[1], "name", s_.choices[0].name))
        if st.choices:
            add("keyword-name", "choice", True, "set", si, lambda s_, s, n=rng.choice(KEYWORDS): setattr(s_.choices[0], "name", n))
        add("wrong-kind-reference", "set-encodingType-signed", True, "set", si, lambda s_, s: setattr(s_, "encoding", "int32"))
        add("unknown-reference", "set-encodingType", True, "set", si, lambda s_, s: setattr(s_, "encoding", "NoSuchEnc_"))

    # ------------------------------------------------------------ public types / messages / schema
    for pi, t in enumerate(schema.types):
        if t.name.lower() in hdr_names or t.name in ("U8", "U16", "U32", "U64"):
            continue
        add("keyword-name", "public-" + t.kind, True, "pubtype", pi, lambda t_, s, n=rng.choice(KEYWORDS): rename_type(s, t_, n))
        add("invalid-name", "public-" + t.kind, True, "pubtype", pi, lambda t_, s, n=rng.choice(BAD_NAMES[:4]): rename_type(s, t_, n))
        add("keyword-like-name", "public-" + t.kind, False, "pubtype", pi,
            lambda t_, s, n=rng.choice(NOT_KEYWORDS): rename_type(s, t_, n + "_" + t_.name))
    if len(schema.types) >= 2:
        add("duplicate-name", "public-type-case-insensitive", True, "pubtype", 0,
            lambda t_, s: s.types.append(S.Type(s.types[-1].name.swapcase() if s.types[-1].name.swapcase() != s.types[-1].name else s.types[-1].name, "uint8")))
    for mi, msg in enumerate(schema.messages):
        add("keyword-name", "message", True, "message", mi, lambda m_, s, n=rng.choice(KEYWORDS): setattr(m_, "name", n))
        add("invalid-name", "message", True, "message", mi, lambda m_, s, n=rng.choice(BAD_NAMES): setattr(m_, "name", n))
        add("keyword-like-name", "message", False, "message", mi, lambda m_, s, n=rng.choice(NOT_KEYWORDS): setattr(m_, "name", n + "X"))
    if len(schema.messages) >= 2:
        add("duplicate-name", "message-name", True, "message", 1, lambda m_, s: setattr(m_, "name", s.messages[0].name))
        add("duplicate-name", "message-id", True, "message", 1, lambda m_, s: setattr(m_, "id", s.messages[0].id))
    add("keyword-name", "schema-package", True, "message", 0, lambda m_, s, n=rng.choice(KEYWORDS + ["std", "posix"]): setattr(s, "package", n))
    add("invalid-name", "schema-package", True, "message", 0, lambda m_, s, n=rng.choice(BAD_NAMES): setattr(s, "package", n))
    add("unknown-reference", "headerType", True, "message", 0, lambda m_, s: setattr(s, "header_type", "NoSuchHeader_"))
    # field valueRef problems
    for li, (msg, path, lv) in enumerate(levels_of(schema)):
        for fi, f in enumerate(lv.fields):
            if f.value_ref:
                add("unknown-reference", "valueRef-enum", True, "level", li, lambda l, s, fi=fi: setattr(l.fields[fi], "value_ref", "NoEnum_.x"))
                add("unknown-reference", "valueRef-enumerator", True, "level", li,
                    lambda l, s, fi=fi: setattr(l.fields[fi], "value_ref", l.fields[fi].value_ref.split(".")[0] + ".nope_"))
                add("wrong-kind-reference", "valueRef-malformed", True, "level", li, lambda l, s, fi=fi: setattr(l.fields[fi], "value_ref", "nodot"))
                break

    # ------------------------------------------------------------ rules the line coverage of sbeppc showed no edit ever broke
    # (tools/coverage_sbeppc.sh, fourth session).  Each edit appends its own small fixture (types with a trailing `_` cannot
    # collide with generated names) to the first message, so it applies to every schema shape; the accepted twin of every
    # rejected fixture differs in exactly the offending attribute.
    def fx(rule, where, reject, build):
        def apply(s):
            build(s, s.messages[0])
        edits.append(Edit(rule, where, reject, apply))

    def fx_enums(s):
        s.types.append(S.Enum("FxE16_", "uint16", [S.EnumValue("small", "3"), S.EnumValue("big", "300")]))
        s.types.append(S.Enum("FxE8_", "uint8", [S.EnumValue("one", "1"), S.EnumValue("two", "2")]))

    def field(mg, name, typ, **kw):
        mg.fields.append(S.Field(name, 64010 + len(mg.fields), typ, **kw))
        # an explicit blockLength of the message would no longer cover the appended field (thorough tier, rnd2_11: an
        # empty message with blockLength="0" -- every accepted twin was rejected for that reason, a harness error)
        mg.block_length = None

    if schema.messages:
        # constant field of a primitive/type: valueRef must exist, name an enum, name one of its values, and fit the field type
        fx("value-not-representable", "valueRef-value-beyond-field-type", True,
           lambda s, mg: (fx_enums(s), field(mg, "fxk_", "uint8", presence="constant", value_ref="FxE16_.big")))
        fx("value-at-extreme", "valueRef-value-fits-field-type", False,
           lambda s, mg: (fx_enums(s), field(mg, "fxk_", "uint8", presence="constant", value_ref="FxE16_.small")))
        fx("wrong-kind-reference", "field-valueRef-names-a-type", True,
           lambda s, mg: (fx_enums(s), s.types.append(S.Type("FxT_", "uint8")),
                          field(mg, "fxk_", "uint8", presence="constant", value_ref="FxT_.one")))
        fx("wrong-kind-reference", "field-valueRef-names-a-composite", True,
           lambda s, mg: (fx_enums(s), s.types.append(S.Composite("FxC_", [S.Type("one", "uint8")])),
                          field(mg, "fxk_", "uint8", presence="constant", value_ref="FxC_.one")))
        fx("malformed-constant", "constant-field-without-valueRef", True,
           lambda s, mg: field(mg, "fxk_", "uint8", presence="constant"))
        fx("malformed-constant", "constant-enum-field-without-valueRef", True,
           lambda s, mg: (fx_enums(s), field(mg, "fxk_", "FxE8_", presence="constant")))
        fx("wrong-kind-reference", "constant-enum-field-valueRef-of-another-enum", True,
           lambda s, mg: (fx_enums(s), field(mg, "fxk_", "FxE8_", presence="constant", value_ref="FxE16_.small")))
        fx("value-at-extreme", "constant-enum-field-valueRef-of-its-enum", False,
           lambda s, mg: (fx_enums(s), field(mg, "fxk_", "FxE8_", presence="constant", value_ref="FxE8_.two")))
        fx("value-at-extreme", "constant-enum-field-valueRef-case-differs", False,
           lambda s, mg: (fx_enums(s), field(mg, "fxk_", "fxe8_", presence="constant", value_ref="FXE8_.two")))
        fx("wrong-kind-reference", "constant-composite-field", True,
           lambda s, mg: (s.types.append(S.Composite("FxC_", [S.Type("one", "uint8")])),
                          field(mg, "fxk_", "FxC_", presence="constant")))
        # (not edited: `presence="constant"` on a field whose type is a set or a named non-constant <type> -- sbeppc
        # documents that the presence of the *type* wins there, silently; such schemas are accepted by design)
        # constant <type>: exactly one of value / valueRef; non-char constants are scalars
        fx("malformed-constant", "constant-type-without-value", True,
           lambda s, mg: (s.types.append(S.Type("FxK_", "uint8", presence="constant")), field(mg, "fxk_", "FxK_")))
        fx("malformed-constant", "constant-type-with-value-and-valueRef", True,
           lambda s, mg: (fx_enums(s), s.types.append(S.Type("FxK_", "uint8", presence="constant", const="1", value_ref="FxE8_.one")),
                          field(mg, "fxk_", "FxK_")))
        fx("malformed-constant", "numeric-constant-type-with-length-2", True,
           lambda s, mg: (s.types.append(S.Type("FxK_", "uint8", presence="constant", const="1", length=2)), field(mg, "fxk_", "FxK_")))
        fx("value-at-extreme", "numeric-constant-type-with-length-1", False,
           lambda s, mg: (s.types.append(S.Type("FxK_", "uint8", presence="constant", const="1", length=1)), field(mg, "fxk_", "FxK_")))
        fx("malformed-constant", "valueRef-constant-type-with-length-2", True,
           lambda s, mg: (fx_enums(s), s.types.append(S.Type("FxK_", "uint8", presence="constant", value_ref="FxE8_.one", length=2)),
                          field(mg, "fxk_", "FxK_")))
        fx("unknown-reference", "type-valueRef-enum", True,
           lambda s, mg: (s.types.append(S.Type("FxK_", "uint8", presence="constant", value_ref="NoEnum_.x")), field(mg, "fxk_", "FxK_")))
        fx("unknown-reference", "type-valueRef-enumerator", True,
           lambda s, mg: (fx_enums(s), s.types.append(S.Type("FxK_", "uint8", presence="constant", value_ref="FxE8_.nope")),
                          field(mg, "fxk_", "FxK_")))
        fx("wrong-kind-reference", "type-valueRef-names-a-type", True,
           lambda s, mg: (s.types.append(S.Type("FxT_", "uint8")),
                          s.types.append(S.Type("FxK_", "uint8", presence="constant", value_ref="FxT_.x")), field(mg, "fxk_", "FxK_")))
        fx("value-not-representable", "type-valueRef-value-beyond-primitive", True,
           lambda s, mg: (fx_enums(s), s.types.append(S.Type("FxK_", "uint8", presence="constant", value_ref="FxE16_.big")),
                          field(mg, "fxk_", "FxK_")))
        fx("value-at-extreme", "type-valueRef-value-fits-primitive", False,
           lambda s, mg: (fx_enums(s), s.types.append(S.Type("FxK_", "uint8", presence="constant", value_ref="FxE16_.small")),
                          field(mg, "fxk_", "FxK_")))
        # enum / set encodings must be scalar types of the right kind
        fx("wrong-kind-reference", "enum-encodingType-array", True,
           lambda s, mg: (s.types.append(S.Type("FxA_", "uint8", length=2)),
                          s.types.append(S.Enum("FxE_", "FxA_", [S.EnumValue("a", "1")])), field(mg, "fxk_", "FxE_")))
        fx("value-at-extreme", "enum-encodingType-length-1", False,
           lambda s, mg: (s.types.append(S.Type("FxA_", "uint8", length=1)),
                          s.types.append(S.Enum("FxE_", "FxA_", [S.EnumValue("a", "1")])), field(mg, "fxk_", "FxE_")))
        fx("wrong-kind-reference", "enum-encodingType-enum", True,
           lambda s, mg: (fx_enums(s), s.types.append(S.Enum("FxE_", "FxE8_", [S.EnumValue("a", "1")])), field(mg, "fxk_", "FxE_")))
        fx("wrong-kind-reference", "set-encodingType-array", True,
           lambda s, mg: (s.types.append(S.Type("FxA_", "uint8", length=2)),
                          s.types.append(S.SetT("FxS_", "FxA_", [S.Choice("a", 0)])), field(mg, "fxk_", "FxS_")))
        fx("value-at-extreme", "set-encodingType-length-1", False,
           lambda s, mg: (s.types.append(S.Type("FxA_", "uint8", length=1)),
                          s.types.append(S.SetT("FxS_", "FxA_", [S.Choice("a", 0)])), field(mg, "fxk_", "FxS_")))
        fx("wrong-kind-reference", "set-encodingType-composite", True,
           lambda s, mg: (s.types.append(S.Composite("FxC_", [S.Type("one", "uint8")])),
                          s.types.append(S.SetT("FxS_", "FxC_", [S.Choice("a", 0)])), field(mg, "fxk_", "FxS_")))
        fx("wrong-kind-reference", "set-encodingType-enum", True,
           lambda s, mg: (fx_enums(s), s.types.append(S.SetT("FxS_", "FxE8_", [S.Choice("a", 0)])), field(mg, "fxk_", "FxS_")))
        fx("wrong-kind-reference", "set-encodingType-float", True,
           lambda s, mg: (s.types.append(S.SetT("FxS_", "float", [S.Choice("a", 0)])), field(mg, "fxk_", "FxS_")))
        fx("wrong-kind-reference", "set-encodingType-char", True,
           lambda s, mg: (s.types.append(S.SetT("FxS_", "char", [S.Choice("a", 0)])), field(mg, "fxk_", "FxS_")))
        # names of <ref> elements and of set choices go through the SBE name rule too
        for bn in BAD_NAMES[:3]:
            fx("invalid-name", "ref-element/" + bn, True,
               lambda s, mg, bn=bn: (s.types.append(S.Type("FxT_", "uint8")),
                                     s.types.append(S.Composite("FxC_", [S.Type("one", "uint8"), S.Ref(bn, "FxT_")])),
                                     field(mg, "fxk_", "FxC_")))
            fx("invalid-name", "choice/" + bn, True,
               lambda s, mg, bn=bn: (s.types.append(S.SetT("FxS_", "uint8", [S.Choice("a", 0), S.Choice(bn, 1)])),
                                     field(mg, "fxk_", "FxS_")))
            fx("invalid-name", "validValue/" + bn, True,
               lambda s, mg, bn=bn: (s.types.append(S.Enum("FxE_", "uint8", [S.EnumValue("a", "1"), S.EnumValue(bn, "2")])),
                                     field(mg, "fxk_", "FxE_")))
            fx("invalid-name", "inline-enum-in-composite/" + bn, True,
               lambda s, mg, bn=bn: (s.types.append(S.Composite("FxC_", [S.Type("one", "uint8"), S.Enum(bn, "uint8", [S.EnumValue("a", "1")])])),
                                     field(mg, "fxk_", "FxC_")))
            fx("invalid-name", "inline-set-in-composite/" + bn, True,
               lambda s, mg, bn=bn: (s.types.append(S.Composite("FxC_", [S.Type("one", "uint8"), S.SetT(bn, "uint8", [S.Choice("a", 0)])])),
                                     field(mg, "fxk_", "FxC_")))
            fx("invalid-name", "inline-composite-in-composite/" + bn, True,
               lambda s, mg, bn=bn: (s.types.append(S.Composite("FxC_", [S.Type("one", "uint8"), S.Composite(bn, [S.Type("x", "uint8")])])),
                                     field(mg, "fxk_", "FxC_")))
        fx("valid-name", "ref-element-choice-validValue", False,
           lambda s, mg: (s.types.append(S.Type("FxT_", "uint8")),
                          s.types.append(S.Composite("FxC_", [S.Type("one", "uint8"), S.Ref("r_9", "FxT_"),
                                                              S.SetT("s_9", "uint8", [S.Choice("c_9", 0)]),
                                                              S.Enum("e_9", "uint8", [S.EnumValue("v_9", "1")])])),
                          field(mg, "fxk_", "FxC_")))
        # a level-header member given as <ref> must refer to a <type>
        hdr = next((t for t in schema.types if t.kind == "composite" and t.name.lower() == schema.eff_header().lower()), None)
        if hdr is not None and any(e.name == "version" for e in hdr.elements):
            hi_ = schema.types.index(hdr)
            add("wrong-kind-reference", "message-header-member-ref-to-enum", True, "pubtype", hi_,
                lambda t_, s: (fx_enums(s), _replace_member(t_, "version", S.Ref("version", "FxE16_"))))
            add("wrong-kind-reference", "message-header-member-ref-to-composite", True, "pubtype", hi_,
                lambda t_, s: (s.types.append(S.Composite("FxC_", [S.Type("one", "uint16")])),
                               _replace_member(t_, "version", S.Ref("version", "FxC_"))))
            add("unknown-reference", "message-header-member-ref", True, "pubtype", hi_,
                lambda t_, s: _replace_member(t_, "version", S.Ref("version", "NoSuchT_")))
            add("value-at-extreme", "message-header-member-ref-to-type", False, "pubtype", hi_,
                lambda t_, s: (s.types.append(S.Type("FxV_", "uint16")), _replace_member(t_, "version", S.Ref("version", "FxV_"))))

    # cap per (rule, where)
    byk = {}
    for e in edits:
        byk.setdefault((e.rule, e.where), []).append(e)
    out = []
    for k in sorted(byk):
        lst = byk[k]
        if len(lst) > per_rule_cap:
            lst = rng.sample(lst, per_rule_cap)
        out += lst
    return out


def keyword_sweep(schema):
    """Every C++ keyword / alternative token and a few reserved identifiers as the name of: the first field of the first
    message, the first group, the first data member, the first public non-header type, the first value of the first
    enum, the first choice of the first set, the first element of the first non-header composite, the first message.
    Plus identifiers that merely look reserved (must stay accepted)."""
    edits = []
    hdr_names = header_composites(schema)

    def add(rule, where, reject, fn):
        edits.append(Edit(rule, where, reject, fn))

    lv_field = next(((i, lv) for i, (_, _, lv) in enumerate(levels_of(schema)) if lv.fields), None)
    lv_group = next(((i, lv) for i, (_, _, lv) in enumerate(levels_of(schema)) if lv.groups), None)
    lv_data = next(((i, lv) for i, (_, _, lv) in enumerate(levels_of(schema)) if lv.data), None)
    pub = next((i for i, t in enumerate(schema.types) if t.name.lower() not in hdr_names and t.kind == "type"), None)
    m0 = R.Model(schema)
    enum_i = next((i for i, e in enumerate(all_enums(schema)) if e.values and m0.enum_prim(e) != "char"), None)

    def add_value(s, i, n):
        e = all_enums(s)[i]
        used = {x.value for x in e.values}
        v = next(str(k) for k in range(1, 120) if str(k) not in used)
        e.values.append(S.EnumValue(n, v))
    set_i = next((i for i, e in enumerate(all_sets(schema)) if e.choices), None)
    comp_i = next((i for i, (c, p) in enumerate(composites_of(schema)) if c.elements and c.name.lower() not in hdr_names), None)
    bad = [c + "ab" for c in BAD_CHARS] + ["a" + c + "b" for c in BAD_CHARS] + ["ab" + c for c in BAD_CHARS] + \
          ["%dab" % d for d in range(10)] + ["\u00e9ab", "a\u00e9b", "ab\u00e9", "\u0430b"]
    for names, rule, reject in ((ALL_KEYWORDS, "keyword-name", True), (RESERVED_NAMES, "reserved-identifier-only-warned", False),
                                (NOT_RESERVED, "keyword-like-name", False), (bad, "invalid-name", True),
                                (["a%db" % d for d in range(10)] + ["ab%d" % d for d in range(10)] + ["_", "_9"], "valid-name", False)):
        for n in names:
            tag = "sweep:" + n
            if lv_field:
                add(rule, "field/" + tag, reject, lambda s, n=n, i=lv_field[0]: setattr(levels_of(s)[i][2].fields[0], "name", n))
            few = rule in ("invalid-name", "valid-name")      # character sweeps: four positions are enough
            if lv_group and not few:
                add(rule, "group/" + tag, reject, lambda s, n=n, i=lv_group[0]: setattr(levels_of(s)[i][2].groups[0], "name", n))
            if lv_data and not few:
                add(rule, "data/" + tag, reject, lambda s, n=n, i=lv_data[0]: setattr(levels_of(s)[i][2].data[0], "name", n))
            if pub is not None:
                add(rule, "public-type/" + tag, reject, lambda s, n=n, i=pub: rename_type(s, s.types[i], n))
            if enum_i is not None:
                add(rule, "validValue/" + tag, reject, lambda s, n=n, i=enum_i: add_value(s, i, n))
            if set_i is not None and not few:
                add(rule, "choice/" + tag, reject, lambda s, n=n, i=set_i: setattr(all_sets(s)[i].choices[0], "name", n))
            if comp_i is not None and not few:
                add(rule, "element/" + tag, reject, lambda s, n=n, i=comp_i: setattr(composites_of(s)[i][0].elements[0], "name", n))
            add(rule, "message/" + tag, reject, lambda s, n=n: setattr(s.messages[0], "name", n))
    return edits


def rename_type(s, t, new):
    """Rename a public type and every reference to it, so that the only rule broken is the name rule."""
    old = t.name
    t.name = new

    def same(x):
        return isinstance(x, str) and x.lower() == old.lower()
    for c, _ in composites_of(s):
        for e in c.elements:
            if e.kind == "ref" and same(e.type):
                e.type = new
    for e in all_enums(s) + all_sets(s):
        if same(e.encoding):
            e.encoding = new
    for _, _, lv in levels_of(s):
        for f in lv.fields:
            if same(f.type):
                f.type = new
            if f.value_ref and same(f.value_ref.split(".")[0]):
                f.value_ref = new + "." + f.value_ref.split(".", 1)[1]
        for g in lv.groups:
            if same(g.dimension_type):
                g.dimension_type = new
        for d in lv.data:
            if same(d.type):
                d.type = new
    for tt in all_types(s):
        if tt.value_ref and same(tt.value_ref.split(".")[0]):
            tt.value_ref = new + "." + tt.value_ref.split(".", 1)[1]
    if same(s.header_type):
        s.header_type = new


def _dup_member(l):
    ms = l.fields + l.groups + l.data
    ms[-1].name = ms[0].name


def _rename_unique(obj, level, n):
    names = {x.name for x in level.fields + level.groups + level.data}
    k = n
    i = 0
    while k in names:
        i += 1
        k = "%s%d" % (n, i)
    obj.name = k


INCLUDE_HREFS = ["missing.xml", "inc_types.xml", "inc_self.xml", "inc_a.xml", "incdir", "", ".", "/", "schema.xml",
                 "inc_bad.xml", "/dev/null", "inc_msg.xml", "./inc_types.xml", "incdir/../inc_types.xml",
                 "inc_dot_self.xml", "./inc_dot_a.xml", "inc_slash_self.xml", "inc_up_c.xml",
                 "./schema.xml", "incdir/../schema.xml",
                 # cycles on which *every* file is reached through an href that is not in normal form (seeded change C09-6)
                 "./inc_dot_self.xml", "incdir/../inc_dot_a.xml", ".//inc_slash_self.xml", "./inc_up_c.xml", "incdir/.././inc_up_d.xml",
                 "./inc_self.xml", "incdir/../inc_a.xml"]


def include_sweep(xml_text):
    """Deterministic: one input per (href of INCLUDE_HREFS, position) -- the include as first child of <types>, as last
    child of <types>, and in front of the first message.  The random mutator draws these hrefs too, but a given cycle
    shape then depends on the seed."""
    out = []
    k_open = xml_text.find("<types>")
    k_close = xml_text.find("</types>")
    if k_open < 0 or k_close < 0:
        return out
    for h in INCLUDE_HREFS:
        el = '<xi:include xmlns:xi="http://www.w3.org/2001/XInclude" href="%s"/>' % h
        for name, pos in (("first-in-types", k_open + len("<types>")), ("last-in-types", k_close), ("after-types", k_close + len("</types>"))):
            out.append(("include-sweep %s@%s" % (h, name), (xml_text[:pos] + "\n" + el + "\n" + xml_text[pos:]).encode()))
    return out


def _mutual_cycle(c, s, other_name):
    o = s.find_type(other_name)
    c.elements.append(S.Ref("cyc1_", other_name))
    o.elements.append(S.Ref("cyc2_", c.name))


def _resolve_member(c, s, nm):
    e = c.element(nm)
    if e is not None and e.kind == "ref":
        return s.find_type(e.type), e
    return e, e


def _make_array_member(c, s, nm):
    t, e = _resolve_member(c, s, nm)
    if t is not None and t.kind == "type":
        # a private copy, so shared referenced types are not changed for other users
        _replace_member(c, nm, S.Type(nm, "uint8", length=2))


def _make_const_member(c, s, nm):
    _replace_member(c, nm, S.Type(nm, "uint8", presence="constant", const="1"))


def _replace_member(c, nm, new):
    c.elements = [new if e.name == nm else e for e in c.elements]


def edited_xml(schema, edit):
    """Apply an edit to a clone and serialise (honouring the member-order marker)."""
    s = schema.clone()
    edit.apply(s)
    xml = s.to_xml()
    return s, xml


# member order needs XML-level reordering (the model always prints fields, groups, data)
_orig_members_xml = S.Level.members_xml


def _members_xml(self, ind):
    order = getattr(self, "_order", None)
    f = "".join(x.xml(ind) for x in self.fields)
    g = "".join(x.xml(ind) for x in self.groups)
    d = "".join(x.xml(ind) for x in self.data)
    if order == "gf":
        return g + f + d
    if order == "dg":
        return f + d + g
    if order == "df":
        return d + f + g
    return f + g + d


S.Level.members_xml = _members_xml


# ============================================================================ C09: hostile XML mutations

GARBAGE = ["", " ", "0", "-1", "1", "255", "256", "65535", "65536", "4294967295", "4294967296", "18446744073709551615",
           "18446744073709551616", "99999999999999999999999999", "-9223372036854775809", "1e9", "0x10", "+5", " 7", "7 ", "NaN",
           "INF", "-INF", "abc", "char", "uint8", "int", "class", "std", "a.b", "a.", ".b", ".", "..", "\"", "'", "\\", "\n",
           "<", "&amp;", "%s%s%n", "A" * 300, "é", "\x7f", "true", "constant", "optional", "required", "bigEndian", "littleEndian",
           "messageHeader", "groupSizeEncoding", "varDataEncoding", "blockLength", "numInGroup", "varData", "length"]
ATTR_NAMES = ["name", "id", "type", "primitiveType", "presence", "length", "offset", "minValue", "maxValue", "nullValue",
              "valueRef", "encodingType", "dimensionType", "blockLength", "sinceVersion", "deprecated", "description",
              "semanticType", "characterEncoding", "package", "version", "byteOrder", "headerType", "semanticVersion", "href"]
TAGS = ["type", "composite", "enum", "set", "ref", "validValue", "choice", "field", "group", "data", "types",
        "{http://fixprotocol.io/2016/sbe}message", "{http://fixprotocol.io/2016/sbe}messageSchema", "include", "unknownTag"]

ET.register_namespace("sbe", "http://fixprotocol.io/2016/sbe")
ET.register_namespace("xi", "http://www.w3.org/2001/XInclude")


def _all(root):
    return list(root.iter())


def _parent_map(root):
    return {c: p for p in root.iter() for c in p}


def mutate_xml(xml, rng, nmut=None):
    """Returns (mutated xml bytes, description).  Structure-aware first, byte-level sometimes."""
    desc = []
    try:
        root = ET.fromstring(xml)
    except ET.ParseError:
        root = None
    k = rng.random()
    if root is None or k < 0.08:
        b = bytearray(xml.encode() if isinstance(xml, str) else xml)
        op = rng.randrange(5)
        if op == 0 and b:
            cut = rng.randrange(len(b))
            b = b[:cut]
            desc.append("truncate@%d" % cut)
        elif op == 1 and b:
            for _ in range(rng.randrange(1, 8)):
                i = rng.randrange(len(b))
                b[i] = rng.randrange(256)
            desc.append("byteflips")
        elif op == 2:
            b = bytearray(rng.getrandbits(8) for _ in range(rng.randrange(0, 400)))
            desc.append("binary-garbage")
        elif op == 3 and b:
            i = rng.randrange(len(b))
            b[i:i] = rng.choice([b"<", b">", b"&", b"<!--", b"<![CDATA[", b"<?xml ?>", b"\x00", b"</types>"])
            desc.append("insert-markup")
        else:
            b = bytearray(b"")
            desc.append("empty-file")
        return bytes(b), ";".join(desc)
    names = sorted({e.get("name") for e in _all(root) if e.get("name")})
    for _ in range(nmut or rng.choice([1, 1, 1, 2, 3])):
        elems = _all(root)
        pm = _parent_map(root)
        e = rng.choice(elems)
        op = rng.randrange(12)
        if op == 0 and e.attrib:
            a = rng.choice(sorted(e.attrib))
            del e.attrib[a]
            desc.append("del-attr %s@%s" % (a, e.tag))
        elif op == 1:
            a = rng.choice(sorted(e.attrib) if e.attrib and rng.random() < 0.7 else ATTR_NAMES)
            v = rng.choice(GARBAGE + names)
            e.set(a, v)
            desc.append("set-attr %s=%r@%s" % (a, v[:20], e.tag))
        elif op == 2 and e in pm:
            p = pm[e]
            p.insert(list(p).index(e), copy.deepcopy(e))
            desc.append("dup-elem %s" % e.tag)
        elif op == 3 and e in pm:
            pm[e].remove(e)
            desc.append("del-elem %s" % e.tag)
        elif op == 4 and e in pm:
            tgt = rng.choice(elems)
            if tgt is not e and e not in _ancestors(tgt, pm):
                pm[e].remove(e)
                tgt.insert(rng.randrange(len(tgt) + 1), e)
                desc.append("move %s->%s" % (e.tag, tgt.tag))
        elif op == 5 and e in pm:
            p = pm[e]
            ch = list(p)
            if len(ch) >= 2:
                i, j = rng.sample(range(len(ch)), 2)
                p[i], p[j] = ch[j], ch[i]
                desc.append("swap-siblings@%s" % p.tag)
        elif op == 6:
            refattrs = [a for a in ("type", "dimensionType", "encodingType", "valueRef", "primitiveType", "headerType") if a in e.attrib]
            if refattrs:
                a = rng.choice(refattrs)
                tgt = rng.choice(names + list(PRIM_SIZE) + [e.get("name") or "x"])
                if a == "valueRef":
                    tgt = tgt + "." + rng.choice(names + ["A", "x"])
                e.set(a, tgt)
                desc.append("retarget %s->%s" % (a, tgt))
        elif op == 7:
            old = e.tag
            e.tag = rng.choice(TAGS)
            desc.append("retag %s->%s" % (old, e.tag))
        elif op == 8:
            e.text = rng.choice(GARBAGE)
            desc.append("set-text %r@%s" % (e.text[:20], e.tag))
        elif op == 9:
            # header members turned into something else
            hm = [x for x in elems if x.get("name") in ("blockLength", "numInGroup", "templateId", "schemaId", "version", "length", "varData", "numGroups", "numVarDataFields")]
            if hm:
                x = rng.choice(hm)
                ch = rng.randrange(5)
                if ch == 0:
                    x.tag = "ref"
                    x.set("type", rng.choice(names + ["uint8"]))
                elif ch == 1:
                    x.tag = rng.choice(["composite", "enum", "set"])
                    x.set("encodingType", "uint8")
                elif ch == 2:
                    x.set("length", rng.choice(["0", "2", "65536", "18446744073709551615"]))
                elif ch == 3:
                    x.set("presence", rng.choice(["constant", "optional"]))
                    x.text = rng.choice(["1", "", "x"])
                else:
                    x.set("primitiveType", rng.choice(["int8", "float", "double", "char", "int64"]))
                desc.append("header-member %s variant %d" % (x.get("name"), ch))
        elif op == 10:
            inc = ET.Element("{http://www.w3.org/2001/XInclude}include")
            inc.set("href", rng.choice(INCLUDE_HREFS))
            e.insert(rng.randrange(len(e) + 1), inc)
            desc.append("include %s@%s" % (inc.get("href"), e.tag))
        else:
            # extreme numbers at numeric attributes
            num = [a for a in ("length", "offset", "blockLength", "id", "version", "sinceVersion", "deprecated") if a in e.attrib]
            if num:
                a = rng.choice(num)
                v = rng.choice(["0", "1", "255", "65535", "65536", "2147483648", "4294967295", "4294967296", "9223372036854775807",
                                "18446744073709551615", "18446744073709551616", "-1", "1000000", "100000000"])
                e.set(a, v)
                desc.append("extreme %s=%s@%s" % (a, v, e.tag))
    try:
        out = ET.tostring(root, encoding="utf-8", xml_declaration=True)
    except Exception as ex:  # unserialisable garbage: fall back to the input
        return (xml.encode() if isinstance(xml, str) else xml), "unserialisable:" + type(ex).__name__
    return out, ";".join(desc) or "noop"


def typed_attribute_sweep(xml, cap_per_kind=400):
    """Deterministic single-attribute edits with values from the attribute's own domain: presence x every element that
    can carry it (with and without valueRef / text), primitiveType x every <type>, encodingType x every <enum>/<set>,
    type x every <field>/<ref>/<data> and dimensionType x every <group> (every public name and every primitive),
    byteOrder, numeric attributes set to 0/1/empty.  Yields (description, xml bytes)."""
    root = ET.fromstring(xml)
    elems = _all(root)
    names = sorted({e.get("name") for e in elems if e.get("name") and e.tag in ("type", "composite", "enum", "set")})
    enums = [e for e in elems if e.tag == "enum" and e.get("name")]
    prims = list(PRIM_SIZE)
    out = []

    cands = {}

    def emit(i, desc, fn):
        cands.setdefault(desc.split("=", 1)[0], []).append((i, desc, fn))

    counts = {}

    def room(kind):
        return True

    for i, e in enumerate(elems):
        tag = e.tag.split("}")[-1]
        if tag in ("field", "type", "ref", "enum", "set", "composite", "data", "group"):
            for pres in ("required", "optional", "constant"):
                if e.get("presence") == pres or not room("presence"):
                    continue
                emit(i, "presence=%s@%s %s" % (pres, tag, e.get("name")), lambda x, p=pres: x.set("presence", p))
                if pres == "constant":
                    if enums:
                        ev = enums[0].find("validValue")
                        vr = "%s.%s" % (enums[0].get("name"), ev.get("name") if ev is not None else "A")
                        emit(i, "presence=constant+valueRef@%s %s" % (tag, e.get("name")),
                             lambda x, v=vr: (x.set("presence", "constant"), x.set("valueRef", v)))
                    emit(i, "presence=constant+text@%s %s" % (tag, e.get("name")),
                         lambda x: (x.set("presence", "constant"), setattr(x, "text", "1")))
        if tag == "type" and room("primitiveType"):
            for p in prims:
                if p != e.get("primitiveType"):
                    emit(i, "primitiveType=%s@type %s" % (p, e.get("name")), lambda x, p=p: x.set("primitiveType", p))
        if tag in ("enum", "set") and room("encodingType"):
            for p in prims + names[:6]:
                if p != e.get("encodingType"):
                    emit(i, "encodingType=%s@%s %s" % (p, tag, e.get("name")), lambda x, p=p: x.set("encodingType", p))
        if tag in ("field", "ref", "data") and room("type"):
            for p in prims[:4] + names:
                if p != e.get("type"):
                    emit(i, "type=%s@%s %s" % (p, tag, e.get("name")), lambda x, p=p: x.set("type", p))
        if tag == "group" and room("dimensionType"):
            for p in prims[:2] + names:
                emit(i, "dimensionType=%s@group %s" % (p, e.get("name")), lambda x, p=p: x.set("dimensionType", p))
        for a in ("length", "offset", "blockLength", "id", "sinceVersion", "deprecated"):
            if a in e.attrib and room("numeric:" + a):
                for v in ("", "0", "1", "+1", "01", "-0", "1.0", "1e2"):
                    if v != e.get(a):
                        emit(i, "%s=%r@%s %s" % (a, v, tag, e.get("name")), lambda x, a=a, v=v: x.set(a, v))
    for bo in ("bigEndian", "littleEndian", "BigEndian", "", "middleEndian"):
        emit(0, "byteOrder=%r" % bo, lambda x, b=bo: x.set("byteOrder", b))
    # per attribute kind an evenly spread subset over the whole document (types, composites and messages alike)
    for kind in sorted(cands):
        lst = cands[kind]
        if kind != "presence" and len(lst) > cap_per_kind:      # presence x element kind is swept completely
            step = len(lst) / float(cap_per_kind)
            lst = [lst[int(k * step)] for k in range(cap_per_kind)]
        for i, desc, fn in lst:
            r2 = ET.fromstring(xml)
            fn(_all(r2)[i])
            out.append((desc, ET.tostring(r2, encoding="utf-8", xml_declaration=True)))
    return out


def _ancestors(e, pm):
    out = set()
    while e in pm:
        e = pm[e]
        out.add(e)
    return out


INCLUDE_FILES = {
    "inc_types.xml": '<?xml version="1.0"?>\n<types><type name="IncT" primitiveType="uint16"/><composite name="IncC"><type name="a" primitiveType="uint8"/></composite></types>\n',
    "inc_msg.xml": '<?xml version="1.0"?>\n<root xmlns:sbe="http://fixprotocol.io/2016/sbe"><sbe:message name="IncM" id="901"><field name="f" id="1" type="uint8"/></sbe:message></root>\n',
    # a message at the top level of the included file (the form sbeppc reads; the wrapped one above is skipped with a warning)
    "inc_msg_top.xml": '<?xml version="1.0"?>\n<sbe:message name="IncTop" id="902"><field name="f" id="1" type="uint8"/><field name="g" id="2" type="IncT"/></sbe:message>\n',
    "inc_self.xml": '<?xml version="1.0"?>\n<include href="inc_self.xml"/>\n',
    "inc_a.xml": '<?xml version="1.0"?>\n<r><include href="inc_b.xml"/></r>\n',
    "inc_b.xml": '<?xml version="1.0"?>\n<r><include href="inc_a.xml"/></r>\n',
    "inc_bad.xml": '<?xml version="1.0"?>\n<types><type name="IncT"',
    # cycles whose hrefs are not in normal form (`./x`, `dir/../x`, `.//x`): the cycle check must compare what it opens
    # (added after seeded change C09-4: hrefs normalised before opening, compared raw)
    "inc_dot_self.xml": '<?xml version="1.0"?>\n<include href="./inc_dot_self.xml"/>\n',
    "inc_dot_a.xml": '<?xml version="1.0"?>\n<r><include href="./inc_dot_b.xml"/></r>\n',
    "inc_dot_b.xml": '<?xml version="1.0"?>\n<r><include href="incdir/../inc_dot_a.xml"/></r>\n',
    "inc_slash_self.xml": '<?xml version="1.0"?>\n<include href=".//inc_slash_self.xml"/>\n',
    "inc_up_c.xml": '<?xml version="1.0"?>\n<r><include href="incdir/.././inc_up_d.xml"/></r>\n',
    "inc_up_d.xml": '<?xml version="1.0"?>\n<r><include href="./incdir/../inc_up_c.xml"/></r>\n',
}
