"""Independent reference model of SBE layout, encoding, decoding and sizes.

Written from the SBE 1.0/2.0 rules and sbepp's documentation; shares no code or
tables with sbeppc.  Python integers are unbounded, so sizes are exact.
"""
import struct

from . import common as C
from . import schema as S
from .schema import PRIM_SIZE, PRIMS


class ModelError(Exception):
    pass


# ----------------------------------------------------------------------------- primitive helpers

def int_range(p):
    n = PRIM_SIZE[p] * 8
    if p.startswith("uint"):
        return 0, 2 ** n - 1
    return -(2 ** (n - 1)), 2 ** (n - 1) - 1


def is_fp(p):
    return p in ("float", "double")


def literal_bits(p, text):
    """Bit pattern of an XML numeric literal for primitive p."""
    if is_fp(p):
        t = {"NaN": "nan", "INF": "inf", "+INF": "inf", "-INF": "-inf"}.get(text, text)
        v = float(t)
        return struct.unpack("<I", struct.pack("<f", v))[0] if p == "float" else struct.unpack("<Q", struct.pack("<d", v))[0]
    return int(text) & ((1 << (PRIM_SIZE[p] * 8)) - 1)


def pack_bits(bits, size, big):
    return int(bits & ((1 << (8 * size)) - 1)).to_bytes(size, "big" if big else "little")


def unpack_bits(b, big):
    return int.from_bytes(b, "big" if big else "little")


def default_min_max_null(p):
    n = PRIM_SIZE[p] * 8
    if p == "char":
        return 0x20, 0x7E, 0
    if p.startswith("uint"):
        return 0, 2 ** n - 2, 2 ** n - 1
    if p.startswith("int"):
        m = (1 << n) - 1
        return (-(2 ** (n - 1)) + 1) & m, 2 ** (n - 1) - 1, (-(2 ** (n - 1))) & m
    if p == "float":
        return 0x00800000, 0x7F7FFFFF, 0x7FC00000
    return 0x0010000000000000, 0x7FEFFFFFFFFFFFFF, 0x7FF8000000000000


# ----------------------------------------------------------------------------- resolution & layout

class Model:
    """Resolved view of a schema: sizes, offsets, block lengths."""

    def __init__(self, schema):
        self.s = schema
        self.big = schema.big_endian()
        self._size_cache = {}

    # ---- types
    def find(self, name):
        t = self.s.find_type(name)
        if t is None:
            raise ModelError("unknown type " + name)
        return t

    def enum_prim(self, e):
        if e.encoding in PRIM_SIZE:
            return e.encoding
        return self.find(e.encoding).prim

    set_prim = enum_prim

    def deref(self, enc):
        """Follow <ref> to the public encoding."""
        while enc.kind == "ref":
            enc = self.find(enc.type)
        return enc

    def is_const_enc(self, enc):
        enc = self.deref(enc)
        return enc.kind == "type" and enc.is_const()

    def enc_size(self, enc):
        """Encoded size in bytes (a constant type still reports length*size, it just takes no room)."""
        enc = self.deref(enc)
        k = id(enc)
        if k in self._size_cache:
            return self._size_cache[k]
        if enc.kind == "type":
            r = enc.eff_length() * PRIM_SIZE[enc.prim]
        elif enc.kind in ("enum", "set"):
            r = PRIM_SIZE[self.enum_prim(enc)]
        elif enc.kind == "composite":
            r = self.composite_layout(enc)[1]
        else:
            raise ModelError("size of " + enc.kind)
        self._size_cache[k] = r
        return r

    def composite_layout(self, comp):
        """[(element, offset|None for constants)], size"""
        cur = 0
        out = []
        for e in comp.elements:
            if self.is_const_enc(e):
                out.append((e, None))
                continue
            off = cur if e.offset is None else int(e.offset)
            if off < cur:
                raise ModelError("composite %s element %s offset %s below minimum %d" % (comp.name, e.name, e.offset, cur))
            out.append((e, off))
            cur = off + self.enc_size(e)
        return out, cur

    # ---- fields
    def field_enc(self, f):
        """Public encoding a field refers to, or None for primitive-typed fields."""
        if f.type in PRIM_SIZE:
            return None
        return self.find(f.type)

    def field_presence(self, f):
        enc = self.field_enc(f)
        fp = f.presence or "required"
        if enc is None:
            return fp
        if enc.kind == "type":
            return enc.eff_presence()
        if enc.kind == "composite":
            return fp
        if enc.kind == "enum":
            return "required" if fp == "optional" else fp
        return "required"

    def field_size(self, f):
        enc = self.field_enc(f)
        return PRIM_SIZE[f.type] if enc is None else self.enc_size(enc)

    def level_layout(self, level):
        """[(field, offset|None for constants)], minimal block length, actual block length"""
        cur = 0
        out = []
        for f in level.fields:
            if self.field_presence(f) == "constant":
                out.append((f, None))
                continue
            off = cur if f.offset is None else int(f.offset)
            if off < cur:
                raise ModelError("field %s offset %s below minimum %d" % (f.name, f.offset, cur))
            out.append((f, off))
            cur = off + self.field_size(f)
        bl = cur if level.block_length is None else int(level.block_length)
        if bl < cur:
            raise ModelError("blockLength %s below content %d" % (level.block_length, cur))
        return out, cur, bl

    # ---- headers
    def header(self):
        return self.find(self.s.eff_header())

    def header_member(self, comp, name):
        """(offset, prim) of a numeric header member (possibly a <ref>), or None if absent."""
        lay, _ = self.composite_layout(comp)
        for e, off in lay:
            if e.name == name:
                t = self.deref(e)
                return off, t.prim
        return None

    def dimension(self, g):
        return self.find(g.eff_dimension())

    def data_comp(self, d):
        return self.find(d.type)

    def data_len_prim(self, d):
        return self.header_member(self.data_comp(d), "length")[1]

    def data_elem_prim(self, d):
        return self.deref(self.data_comp(d).element("varData")).prim

    def data_prefix_size(self, d):
        return PRIM_SIZE[self.data_len_prim(d)]


def fix_offsets(schema):
    """Resolve generator placeholders '+n' (relative to the minimum) into absolute offsets / block lengths."""
    m = Model(schema)

    def fix_comp(c):
        cur = 0
        for e in c.elements:
            if e.kind == "composite":
                fix_comp(e)
            if m.is_const_enc(e):
                e.offset = None
                continue
            if isinstance(e.offset, str) and e.offset.startswith("+"):
                e.offset = cur + int(e.offset[1:])
            off = cur if e.offset is None else int(e.offset)
            m._size_cache.clear()
            cur = off + m.enc_size(e)

    for t in schema.types:
        if t.kind == "composite":
            fix_comp(t)
    m._size_cache.clear()

    def fix_level(lv):
        cur = 0
        for f in lv.fields:
            if m.field_presence(f) == "constant":
                f.offset = None
                continue
            if isinstance(f.offset, str) and f.offset.startswith("+"):
                f.offset = cur + int(f.offset[1:])
            off = cur if f.offset is None else int(f.offset)
            cur = off + m.field_size(f)
        if isinstance(lv.block_length, str) and lv.block_length.startswith("+"):
            lv.block_length = cur + int(lv.block_length[1:])
        for g in lv.groups:
            fix_level(g)

    for msg in schema.messages:
        fix_level(msg)


def _fit_prim(value):
    for p in ("uint8", "uint16", "uint32", "uint64"):
        if value <= 2 ** (8 * PRIM_SIZE[p]) - 1:
            return p
    raise ModelError("value too large")


def _widen(comp_elem_type, need):
    order = ["uint8", "uint16", "uint32", "uint64"]
    if comp_elem_type.prim in order and order.index(comp_elem_type.prim) < order.index(_fit_prim(need)):
        comp_elem_type.prim = _fit_prim(need)


def fit_ids_to_header(schema):
    """Keep generated schemas inside the domain: ids, versions, block lengths and member counts must be
    representable in the header member that carries them."""
    m = Model(schema)
    hdr = m.header()

    def member_type(comp, name):
        e = comp.element(name)
        return m.deref(e) if e is not None else None

    needs = {"schemaId": schema.id, "version": schema.version,
             "templateId": max([x.id for x in schema.messages] or [0]),
             "blockLength": max([m.level_layout(x)[2] for x in schema.messages] or [0]),
             "numGroups": max([len(x.groups) for x in schema.messages] or [0]),
             "numVarDataFields": max([len(x.data) for x in schema.messages] or [0])}
    for k, v in needs.items():
        t = member_type(hdr, k)
        if t is not None:
            _widen(t, v)
    for msg in schema.messages:
        for _, lv in msg.walk_levels():
            for g in lv.groups:
                dim = m.dimension(g)
                for k, v in (("blockLength", m.level_layout(g)[2]), ("numGroups", len(g.groups)), ("numVarDataFields", len(g.data))):
                    t = member_type(dim, k)
                    if t is not None:
                        _widen(t, v)
    m._size_cache.clear()


# ----------------------------------------------------------------------------- values

class Values:
    """Value tree of one level instance: fields {name: value}, groups {name: [Values]}, data {name: bytes},
    extra = additional wire block length for this level instance (schema-extension simulation)."""

    def __init__(self):
        self.fields = {}
        self.groups = {}
        self.data = {}
        self.extra = 0


def interesting_bits(p, rng, mn=None, mx=None, nl=None):
    size = PRIM_SIZE[p]
    mask = (1 << (8 * size)) - 1
    d = default_min_max_null(p)
    cands = [0, 1, mask, d[0], d[1], d[2], rng.getrandbits(8 * size), rng.getrandbits(8 * size), rng.getrandbits(8 * size)]
    if mn is not None:
        cands += [mn, mx]
    if nl is not None:
        cands.append(nl)
    if is_fp(p):
        if p == "float":
            cands += [0x80000000, 0x7F800000, 0xFF800000, 0x7FC00001, 0xFFC12345, 0x7FA00000, 0x00000001, 0x3FC00000]
        else:
            cands += [0x8000000000000000, 0x7FF0000000000000, 0xFFF0000000000000, 0x7FF8000000000001,
                      0xFFF8123456789ABC, 0x7FF4000000000000, 0x0000000000000001, 0x3FF8000000000000]
    else:
        cands += [1 << (8 * size - 1), (1 << (8 * size - 1)) - 1, 0x0102030405060708 & mask, 0xF1E2D3C4B5A69788 & mask]
    return rng.choice(cands) & mask


def gen_enc_value(m, enc, rng):
    """Random value for a non-constant encoding: int bits, bytes (array) or dict (composite)."""
    enc = m.deref(enc)
    if enc.kind == "type":
        if enc.is_array():
            n = enc.eff_length()
            k = rng.randrange(4)
            if k == 0:
                return bytes(n)
            if k == 1:
                return bytes([0xFF] * n)
            return bytes(rng.getrandbits(8) for _ in range(n))
        return interesting_bits(enc.prim, rng)
    if enc.kind == "enum":
        p = m.enum_prim(enc)
        if enc.values and rng.random() < 0.6:
            v = rng.choice(enc.values).value
            return (ord(v) if p == "char" else int(v)) & ((1 << (8 * PRIM_SIZE[p])) - 1)
        return interesting_bits(p, rng)
    if enc.kind == "set":
        p = m.set_prim(enc)
        w = 8 * PRIM_SIZE[p]
        k = rng.randrange(4)
        if k == 0:
            return 0
        if k == 1:
            return (1 << w) - 1
        if k == 2 and enc.choices:
            v = 0
            for c in enc.choices:
                if rng.random() < 0.5:
                    v |= 1 << c.index
            return v
        return rng.getrandbits(w)
    if enc.kind == "composite":
        out = {}
        for e, off in m.composite_layout(enc)[0]:
            if off is not None:
                out[e.name] = gen_enc_value(m, e, rng)
        return out
    raise ModelError("value of " + enc.kind)


def gen_values(m, level, rng, max_group=3, max_data=9, depth=0, inflate=False, force=False, big_data=None):
    """force: every group gets at least one entry, every data member at least one byte and (with inflate)
    every level a non-zero extra block length -- the image that reaches every construct of the message.
    big_data: a one-element list used as a budget; while it holds a positive number, a <data> member whose length type
    is 8 or 16 bits wide gets the largest valid SBE length of that type (254 / 65534 bytes: where `prefix + length`
    no longer fits the length type) and the budget is decremented."""
    v = Values()
    for f, off in m.level_layout(level)[0]:
        if off is None:
            continue
        enc = m.field_enc(f)
        v.fields[f.name] = interesting_bits(f.type, rng) if enc is None else gen_enc_value(m, enc, rng)
    if inflate:
        v.extra = rng.choice([1, 3, 17]) if force else rng.choice([0, 0, 1, 3, 17])
    for g in level.groups:
        n = rng.choice([0, 1, 2, max_group]) if depth < 2 else rng.choice([0, 1, 2])
        if force:
            n = rng.choice([1, 2]) if depth else 2
        dim = m.dimension(g)
        num_prim = m.header_member(dim, "numInGroup")[1]
        n = min(n, 2 ** (8 * PRIM_SIZE[num_prim]) - 1)
        entries = [gen_values(m, g, rng, max_group, max_data, depth + 1, inflate, force, big_data) for _ in range(n)]
        if inflate:
            # all entries of one group occurrence share the wire block length
            ex = rng.choice([1, 3, 17]) if force else rng.choice([0, 0, 1, 3, 17])
            for e in entries:
                e.extra = ex
            # keep the group-level extra also when the group is empty
            v.groups[g.name] = entries
            v.groups[("extra", g.name)] = ex
        else:
            v.groups[g.name] = entries
    for d in level.data:
        lp = m.data_len_prim(d)
        n = rng.choice([0, 1, 2, max_data])
        if force:
            n = rng.choice([1, 2, max_data])
        n = min(n, 2 ** (8 * PRIM_SIZE[lp]) - 1)
        if big_data and big_data[0] > 0 and PRIM_SIZE[lp] <= 2:
            big_data[0] -= 1
            n = 2 ** (8 * PRIM_SIZE[lp]) - 2
        v.data[d.name] = bytes(rng.getrandbits(8) for _ in range(n))
    return v


# ----------------------------------------------------------------------------- encoder

class Image:
    def __init__(self, size_hint=0):
        self.b = bytearray()
        self.owner = {}

    def ensure(self, n):
        if len(self.b) < n:
            self.b.extend(bytes(n - len(self.b)))

    def put(self, off, data, owner):
        self.ensure(off + len(data))
        self.b[off:off + len(data)] = data
        for i in range(off, off + len(data)):
            self.owner[i] = owner


def put_enc(m, img, base, enc, value, path, prev=None):
    """Write a non-constant encoding's value at absolute offset base."""
    enc = m.deref(enc)
    if enc.kind == "type":
        if enc.is_array():
            img.put(base, bytes(value), path)
        else:
            img.put(base, pack_bits(value, PRIM_SIZE[enc.prim], m.big), path)
    elif enc.kind in ("enum", "set"):
        img.put(base, pack_bits(value, PRIM_SIZE[m.enum_prim(enc)], m.big), path)
    elif enc.kind == "composite":
        for e, off in m.composite_layout(enc)[0]:
            if off is not None:
                put_enc(m, img, base + off, e, value[e.name], path + "." + e.name)
    else:
        raise ModelError("put " + enc.kind)


def put_header_member(m, img, base, comp, name, value, path):
    hm = m.header_member(comp, name)
    if hm is None:
        return False
    off, prim = hm
    img.put(base + off, pack_bits(value, PRIM_SIZE[prim], m.big), path + "." + name)
    return True


def encode_level(m, img, base, level, vals, path, wire_bl):
    """Writes the fixed block at base, then groups and data; returns end offset."""
    lay, _, _ = m.level_layout(level)
    for f, off in lay:
        if off is None:
            continue
        enc = m.field_enc(f)
        p = path + f.name
        if enc is None:
            img.put(base + off, pack_bits(vals.fields[f.name], PRIM_SIZE[f.type], m.big), p)
        else:
            put_enc(m, img, base + off, enc, vals.fields[f.name], p)
    cur = base + wire_bl
    img.ensure(cur)
    for g in level.groups:
        entries = vals.groups[g.name]
        dim = m.dimension(g)
        dsize = m.enc_size(dim)
        gbl = m.level_layout(g)[2] + (entries[0].extra if entries else vals.groups.get(("extra", g.name), 0))
        gp = path + g.name
        img.ensure(cur + dsize)
        put_header_member(m, img, cur, dim, "blockLength", gbl, gp + "#dim")
        put_header_member(m, img, cur, dim, "numInGroup", len(entries), gp + "#dim")
        put_header_member(m, img, cur, dim, "numGroups", len(g.groups), gp + "#dim")
        put_header_member(m, img, cur, dim, "numVarDataFields", len(g.data), gp + "#dim")
        cur += dsize
        for i, ev in enumerate(entries):
            cur = encode_level(m, img, cur, g, ev, "%s[%d]." % (gp, i), gbl)
    for d in level.data:
        payload = vals.data[d.name]
        ps = m.data_prefix_size(d)
        img.put(cur, pack_bits(len(payload), ps, m.big), path + d.name + "#len")
        img.put(cur + ps, payload, path + d.name)
        cur += ps + len(payload)
    img.ensure(cur)
    return cur


def encode_message(m, msg, vals, prefill=None):
    """Returns (bytes, owner map).  prefill: bytes the image is laid over (gaps keep these values)."""
    img = Image()
    if prefill is not None:
        img.b = bytearray(prefill)
    hdr = m.header()
    hsize = m.enc_size(hdr)
    img.ensure(hsize)
    bl = m.level_layout(msg)[2] + vals.extra
    put_header_member(m, img, 0, hdr, "blockLength", bl, "#hdr")
    put_header_member(m, img, 0, hdr, "templateId", msg.id, "#hdr")
    put_header_member(m, img, 0, hdr, "schemaId", m.s.id, "#hdr")
    put_header_member(m, img, 0, hdr, "version", m.s.version, "#hdr")
    put_header_member(m, img, 0, hdr, "numGroups", len(msg.groups), "#hdr")
    put_header_member(m, img, 0, hdr, "numVarDataFields", len(msg.data), "#hdr")
    end = encode_level(m, img, hsize, msg, vals, "", bl)
    return bytes(img.b[:end]) if prefill is None else (bytes(img.b), end), img.owner


# ----------------------------------------------------------------------------- expected dumps

def hexs(b):
    return bytes(b).hex()


def const_value(m, t, field=None):
    """Expected dump of a constant type: ('scalar', bits, size) or ('bytes', b)."""
    if t.value_ref:
        en, ev = t.value_ref.split(".", 1)
        e = m.find(en)
        vv = [x for x in e.values if x.name == ev][0].value
        p = m.enum_prim(e)
        bits = ord(vv) if p == "char" else int(vv)
        return ("scalar", bits & ((1 << (8 * PRIM_SIZE[t.prim])) - 1), PRIM_SIZE[t.prim])
    if t.prim == "char":
        raw = t.const.encode()
        n = t.eff_length()
        if n != 1 or len(raw) > 1:
            return ("bytes", raw + bytes(n - len(raw)))
        return ("scalar", raw[0], 1)
    return ("scalar", literal_bits(t.prim, t.const), PRIM_SIZE[t.prim])


def dump_enc(m, enc, value, path, out, include_const=True):
    """Appends (path, kind, text, is_const) tuples in schema order for a (possibly composite) encoding."""
    enc0 = enc
    enc = m.deref(enc)
    if enc.kind == "type":
        if enc.is_const():
            if include_const:
                cv = const_value(m, enc)
                out.append((path, "c", ("%0*x" % (2 * cv[2], cv[1])) if cv[0] == "scalar" else hexs(cv[1]), True))
            return
        if enc.is_array():
            out.append((path, "a", hexs(value), False))
        else:
            out.append((path, "v", "%0*x" % (2 * PRIM_SIZE[enc.prim], value), False))
    elif enc.kind in ("enum", "set"):
        out.append((path, "v", "%0*x" % (2 * PRIM_SIZE[m.enum_prim(enc)], value), False))
    elif enc.kind == "composite":
        out.append((path, "{", "", False))
        for e in enc.elements:
            if m.is_const_enc(e):
                dump_enc(m, e, None, path + "." + e.name, out, include_const)
            else:
                dump_enc(m, e, value[e.name], path + "." + e.name, out, include_const)
        out.append((path, "}", "", False))


def dump_level(m, level, vals, path, out, include_const=True):
    for f in level.fields:
        p = path + f.name
        enc = m.field_enc(f)
        if m.field_presence(f) == "constant":
            if not include_const:
                continue
            if enc is not None and enc.kind == "type":
                cv = const_value(m, enc)
                out.append((p, "c", ("%0*x" % (2 * cv[2], cv[1])) if cv[0] == "scalar" else hexs(cv[1]), True))
            else:
                # enum constant or primitive-typed constant through valueRef
                en, ev = f.value_ref.split(".", 1)
                e = m.find(en)
                vv = [x for x in e.values if x.name == ev][0].value
                pe = m.enum_prim(e)
                bits = ord(vv) if pe == "char" else int(vv)
                size = PRIM_SIZE[pe] if enc is not None else PRIM_SIZE[f.type]
                out.append((p, "c", "%0*x" % (2 * size, bits & ((1 << (8 * size)) - 1)), True))
            continue
        if enc is None:
            out.append((p, "v", "%0*x" % (2 * PRIM_SIZE[f.type], vals.fields[f.name]), False))
        else:
            dump_enc(m, enc, vals.fields[f.name], p, out, include_const)
    for g in level.groups:
        entries = vals.groups[g.name]
        out.append((path + g.name, "g", str(len(entries)), False))
        for i, ev in enumerate(entries):
            out.append(("%s%s[%d]" % (path, g.name, i), "e", "", False))
            dump_level(m, g, ev, "%s%s[%d]." % (path, g.name, i), out, include_const)
    for d in level.data:
        out.append((path + d.name, "d", hexs(vals.data[d.name]), False))


def expected_dump(m, msg, vals, include_const=True):
    out = []
    dump_level(m, msg, vals, "", out, include_const)
    return ["%s %s %s" % (k, p, t) if t != "" else "%s %s" % (k, p) for p, k, t, _ in out]


# ----------------------------------------------------------------------------- sizes

def level_size(m, level, vals, wire_bl):
    """Encoded size of the level's block + groups + data."""
    total = wire_bl
    for g in level.groups:
        total += group_size(m, g, vals.groups[g.name], vals.groups.get(("extra", g.name), 0))
    for d in level.data:
        total += m.data_prefix_size(d) + len(vals.data[d.name])
    return total


def group_size(m, g, entries, empty_extra=0):
    gbl = m.level_layout(g)[2] + (entries[0].extra if entries else empty_extra)
    return m.enc_size(m.dimension(g)) + sum(level_size(m, g, e, gbl) for e in entries)


def message_size(m, msg, vals):
    return m.enc_size(m.header()) + level_size(m, msg, vals, m.level_layout(msg)[2] + vals.extra)


def group_paths(level, prefix=()):
    """Depth-first (pre-order) list of group paths below a level, as sbepp orders size_bytes parameters."""
    out = []
    for g in level.groups:
        out.append(prefix + (g.name,))
        out += group_paths(g, prefix + (g.name,))
    return out


def count_entries(level, vals, prefix=()):
    """{group path: total number of entries over all enclosing entries}, total data payload"""
    counts = {}
    total_data = sum(len(vals.data[d.name]) for d in level.data)
    for g in level.groups:
        p = prefix + (g.name,)
        entries = vals.groups[g.name]
        counts[p] = counts.get(p, 0) + len(entries)
        for sub in group_paths(g, p):
            counts.setdefault(sub, 0)
        for e in entries:
            c2, d2 = count_entries(g, e, p)
            for k, v in c2.items():
                counts[k] = counts.get(k, 0) + v
            total_data += d2
    return counts, total_data


def has_data(level):
    return bool(level.data) or any(has_data(g) for g in level.groups)


# ----------------------------------------------------------------------------- wire walk (untrusted buffers)

class Walk:
    """Result of walking a buffer with *wire* geometry inside n available bytes."""

    def __init__(self):
        self.valid = True
        self.size = 0
        self.reason = ""          # why invalid
        self.touch = []           # (kind, offset, length) regions a correct reader may need
        self.prefixes = []        # (offset, length) of data length prefixes
        self.short_blocks = []    # (level start, wire bl, compiled bl) where wire < compiled
        self.entries = 0
        self.zero_len_entries = 0


def _rd(m, buf, off, size):
    return unpack_bits(bytes(buf[off:off + size]), m.big)


def walk_level(m, level, buf, n, base, wire_bl, w, compiled_bl=None):
    """Walks groups and data of a level whose block starts at base; returns end offset or None if invalid."""
    if compiled_bl is not None and wire_bl < compiled_bl:
        w.short_blocks.append((base, wire_bl, compiled_bl))
    cur = base + wire_bl
    if cur > n:
        w.valid, w.reason = False, "block does not fit"
        return None
    for g in level.groups:
        dim = m.dimension(g)
        dsize = m.enc_size(dim)
        if cur + dsize > n:
            w.valid, w.reason = False, "group dimension does not fit"
            return None
        bo, bp = m.header_member(dim, "blockLength")
        no, np_ = m.header_member(dim, "numInGroup")
        gbl = _rd(m, buf, cur + bo, PRIM_SIZE[bp])
        num = _rd(m, buf, cur + no, PRIM_SIZE[np_])
        cur += dsize
        flat = not g.groups and not g.data
        cbl = m.level_layout(g)[2]
        if flat:
            if gbl < cbl and num:
                w.short_blocks.append((cur, gbl, cbl))
            if gbl == 0:
                w.zero_len_entries += num
            w.entries += num
            if num * gbl > n - cur:
                w.valid, w.reason = False, "flat group entries do not fit"
                return None
            cur += num * gbl
        else:
            for i in range(num):
                w.entries += 1
                if gbl == 0 and not g.groups and not g.data:
                    w.zero_len_entries += 1
                cur = walk_level(m, g, buf, n, cur, gbl, w, cbl)
                if cur is None:
                    return None
                if w.entries > 5_000_000:
                    w.valid, w.reason = False, "model gave up (too many entries)"
                    return None
    for d in level.data:
        ps = m.data_prefix_size(d)
        if cur + ps > n:
            w.valid, w.reason = False, "data length prefix does not fit"
            w.prefixes.append((cur, ps))
            return None
        w.prefixes.append((cur, ps))
        ln = _rd(m, buf, cur, ps)
        if cur + ps + ln > n:
            w.valid, w.reason = False, "data payload does not fit"
            return None
        cur += ps + ln
    return cur


def walk_message(m, msg, buf, n):
    """What size_bytes_checked(message, n) must answer for the first n bytes of buf."""
    w = Walk()
    hdr = m.header()
    hs = m.enc_size(hdr)
    if n < hs:
        w.valid, w.reason = False, "message header does not fit"
        return w
    bo, bp = m.header_member(hdr, "blockLength")
    bl = _rd(m, buf, bo, PRIM_SIZE[bp])
    end = walk_level(m, msg, buf, n, hs, bl, w, m.level_layout(msg)[2])
    if end is not None:
        w.size = end
    return w


def walk_group(m, g, buf, n):
    """What size_bytes_checked(group, n) must answer for a buffer that starts at the group's dimension."""
    w = Walk()
    dim = m.dimension(g)
    dsize = m.enc_size(dim)
    if n < dsize:
        w.valid, w.reason = False, "group dimension does not fit"
        return w

    class _L:
        groups = [g]
        data = []
    end = walk_level(m, _L, buf, n, 0, 0, w)
    if end is not None:
        w.size = end
    return w
