"""Build layer: everything is rebuilt from /repo's *current working tree*.

Keyed by a SHA-256 over the bytes of sbepp/src/** and sbeppc/src/** as they are
now, plus compiler and flags.  A hit is reused, a miss rebuilds; no timestamps.
"""
import fcntl
import glob
import os
import re
import shutil
import time

from . import common as C
from .common import HarnessError

_tree_hash = None


_tree_files = None


def tree_hash():
    """Hash of the sources as they are in the repository now.  The bytes that were hashed are kept and written to a
    snapshot inside the cache (src_root()); everything is compiled from that snapshot, so a change to the repository
    while a check is running can neither mix two trees in one run nor leave artefacts of one tree under the key of
    another."""
    global _tree_hash, _tree_files
    if _tree_hash is None:
        files = []
        for root in (os.path.join(C.REPO, "sbepp", "src"), os.path.join(C.REPO, "sbeppc", "src")):
            for d, _, fs in os.walk(root):
                for f in fs:
                    files.append(os.path.join(d, f))
        files.sort()
        parts = []
        content = {}
        for f in files:
            with open(f, "rb") as fh:
                rel = os.path.relpath(f, C.REPO)
                data = fh.read()
                parts.append(rel)
                parts.append(data)
                content[rel] = data
        with open(os.path.join(C.REPO, "CMakeLists.txt"), "rb") as fh:
            content["CMakeLists.txt"] = fh.read()
        _tree_files = content
        _tree_hash = C.sha(*parts)[:16]
    return _tree_hash


def src_root():
    """Directory holding a byte-exact copy of the hashed sources (sbepp/src, sbeppc/src, CMakeLists.txt)."""
    d = os.path.join(tree_dir(), "src")
    ok = os.path.join(d, ".complete")
    if os.path.exists(ok):
        return d
    with _Lock(d + ".lock"):
        if os.path.exists(ok):
            return d
        for rel, data in _tree_files.items():
            p = os.path.join(d, rel)
            C.ensure_dir(os.path.dirname(p))
            with open(p, "wb") as fh:
                fh.write(data)
        C.write_file(ok, tree_hash())
    return d


def sbepp_inc():
    return os.path.join(src_root(), "sbepp", "src")


def sbeppc_src():
    return os.path.join(src_root(), "sbeppc", "src")


def tree_dir():
    d = os.path.join(C.CACHE, tree_hash())
    if not os.path.isdir(d):
        C.ensure_dir(d)
        _prune()
    try:
        os.utime(d, None)
    except OSError:
        pass
    return d


def _prune(keep=3, min_age=2 * 3600):
    """Keep the `keep` most recently used tree directories, and never remove one that was used within the last
    `min_age` seconds: another check (of this or of another tree) may still be running from it."""
    import time
    try:
        ds = [os.path.join(C.CACHE, x) for x in os.listdir(C.CACHE)]
        ds = [d for d in ds if os.path.isdir(d) and re.fullmatch(r"[0-9a-f]{16}", os.path.basename(d))]
        ds.sort(key=lambda d: os.path.getmtime(d), reverse=True)
        now = time.time()
        for d in ds[keep:]:
            if now - os.path.getmtime(d) < min_age:
                continue
            shutil.rmtree(d, ignore_errors=True)
    except OSError:
        pass


class _Lock:
    def __init__(self, path):
        self.path = path

    def __enter__(self):
        C.ensure_dir(os.path.dirname(self.path))
        self.f = open(self.path, "w")
        fcntl.flock(self.f, fcntl.LOCK_EX)
        return self

    def __exit__(self, *a):
        fcntl.flock(self.f, fcntl.LOCK_UN)
        self.f.close()


def repo_version():
    txt = C.read_text(os.path.join(src_root(), "CMakeLists.txt"))
    m = re.search(r"project\(sbepp\s+VERSION\s+([0-9.]+)", txt)
    return m.group(1) if m else "0.0.0"


SBEPPC_VARIANTS = {
    # the binary users run: the repo's own flags
    "rel": ["g++", "-std=c++17", "-O2", "-DNDEBUG"],
    # asserts alive, libstdc++ assertions, ASan+UBSan (recoverable UBSan so one report does not mask the rest)
    # fmt is compiled into the binary (FMT_HEADER_ONLY), so that reads made by the formatting code -- e.g. of a dangling
    # string_view argument -- are instrumented too; with the shared libfmt they happen in uninstrumented code and ASan
    # stays silent (found with seeded change C09-4)
    "san": ["g++", "-std=c++17", "-O0", "-g1", "-fno-omit-frame-pointer",
            "-fsanitize=address,undefined", "-D_GLIBCXX_ASSERTIONS", "-DFMT_HEADER_ONLY=1"],
    # libstdc++ debug mode (safe iterators): use of an iterator that an insertion/rehash invalidated, comparisons of
    # iterators of different containers, ... -- library-level undefined behaviour that neither ASan nor UBSan sees.
    # pugixml's interface passes no standard containers, so the uninstrumented shared library is compatible
    "dbg": ["g++", "-std=c++17", "-O0", "-g1", "-D_GLIBCXX_DEBUG", "-D_GLIBCXX_DEBUG_PEDANTIC", "-DFMT_HEADER_ONLY=1"],
    # line-coverage build used by tools/coverage_sbeppc.sh only (VERIF_SBEPPC_OVERRIDE=cov): which generator and
    # validator lines did the workloads of the checks actually execute?  Never used for a verdict.
    "cov": ["g++", "-std=c++17", "-O0", "-g1", "--coverage", "-fprofile-update=atomic"],
    # coverage-guided fuzzing target, in-process pipeline (thorough C09 only)
    "fuzz": ["clang++", "-std=c++17", "-O1", "-g", "-fno-omit-frame-pointer",
             "-fsanitize=fuzzer,address,undefined", "-fno-sanitize=object-size",
             "-D_GLIBCXX_ASSERTIONS"],
}


def _build_info_cpp(d):
    p = os.path.join(d, "build_info.cpp")
    if not os.path.exists(p):
        tmpl = C.read_text(os.path.join(sbeppc_src(), "sbepp", "sbeppc", "build_info.cpp.in"))
        C.write_file(p, tmpl.replace("@sbepp_VERSION@", repo_version()))
    return p


def sbeppc(variant="rel", main_src=None):
    """Path of an sbeppc binary built from the current tree (built on demand)."""
    d = tree_dir()
    if not main_src:
        variant = os.environ.get("VERIF_SBEPPC_OVERRIDE", variant)
    out = os.path.join(d, "sbeppc-%s-%s" % (variant, C.sha(" ".join(SBEPPC_VARIANTS[variant]))[:8]))
    if main_src:
        # a wrapper around main.cpp that lives in rt/: the artefact also depends on its text
        out += "-" + C.sha(open(main_src, "rb").read())[:10]
    if os.path.exists(out):
        return out
    with _Lock(out + ".lock"):
        if os.path.exists(out):
            return out
        flags = SBEPPC_VARIANTS[variant]
        src = main_src or os.path.join(sbeppc_src(), "sbepp", "sbeppc", "main.cpp")
        header_only = any(f.startswith("-DFMT_HEADER_ONLY") for f in flags)
        cmd = flags + ([] if header_only else ["-DFMT_SHARED"]) + ["-I" + sbeppc_src(), "-I" + sbepp_inc(),
                       "-isystem", C.FMT_INC, src, _build_info_cpp(d),
                       "-o", out + ".tmp", "-L" + C.FMT_LIBDIR] + ([] if header_only else ["-lfmt"]) + ["-lpugixml",
                       "-Wl,-rpath," + C.FMT_LIBDIR]
        t = C.Timer()
        rc, o, _, to = C.run(cmd, timeout=1800)
        if rc != 0:
            raise HarnessError("building sbeppc-%s failed (rc=%s timeout=%s):\n%s" % (
                variant, rc, to, o.decode(errors="replace")[-4000:]))
        os.replace(out + ".tmp", out)
        C.log("[build] sbeppc-%s built in %.0fs" % (variant, t.s()))
    return out


FUZZ_MAIN = os.path.join(C.RT, "fuzz_main.cpp")


def sbeppc_fuzz():
    """libFuzzer build of sbeppc (clang, ASan+UBSan, asserts alive) around rt/fuzz_main.cpp."""
    return sbeppc("fuzz", main_src=FUZZ_MAIN)


def prebuild_sbeppc(variants=("san", "rel", "fuzz")):
    C.pmap(lambda v: sbeppc_fuzz() if v == "fuzz" else sbeppc(v), list(variants), workers=len(variants))


# ---------------------------------------------------------------- drivers

STD_FLAG = {"11": "-std=c++11", "14": "-std=c++14", "17": "-std=c++17", "20": "-std=c++20", "23": "-std=c++2b"}

MODE_FLAGS = {
    # ASan+UBSan; UBSan recoverable so that every report of a run is seen
    "san": ["-O1", "-g1", "-fno-omit-frame-pointer", "-fsanitize=address,undefined"],
    "ubsan": ["-O1", "-g1", "-fno-omit-frame-pointer", "-fsanitize=undefined"],
    # what a user's release build looks like: with NDEBUG sbepp compiles the *unchecked* arms of its
    # `#if SBEPP_SIZE_CHECKS_ENABLED` code (unless a configuration asks for SBEPP_ENABLE_ASSERTS_WITH_HANDLER, which
    # keeps the checks on regardless); the sanitizer modes leave NDEBUG off and so compile the checked arms
    "plain": ["-O2", "-DNDEBUG"],
    "O0": ["-O0", "-g1"],
}


class Cfg:
    """One compiler configuration for a driver."""

    def __init__(self, cxx="g++", std="17", mode="san", defs=(), extra=()):
        self.cxx, self.std, self.mode = cxx, std, mode
        self.defs, self.extra = tuple(defs), tuple(extra)

    def flags(self):
        f = [self.cxx, STD_FLAG[self.std]] + MODE_FLAGS[self.mode]
        if self.cxx == "clang++" and "sanitize" in " ".join(MODE_FLAGS[self.mode]):
            f.append("-fno-sanitize=object-size")  # documented false alarm on empty classes
        if self.cxx == "clang++" and self.std == "23" and not any(d.startswith("SBEPP_HAS_IS_CONSTANT_EVALUATED") for d in self.defs):
            # clang 14 -std=c++2b folds `if(std::is_constant_evaluated())` to true at run time (compiler bug,
            # reproducible without sbepp, see DESIGN.md section 8); sbepp documents its feature macros as
            # client-overridable, which is what a user of this compiler has to do.
            f.append("-DSBEPP_HAS_IS_CONSTANT_EVALUATED=0")
        f += ["-D" + d for d in self.defs]
        f += list(self.extra)
        return f

    def name(self):
        n = "%s-%s-%s" % (self.cxx.replace("+", "x"), self.std, self.mode)
        if self.defs:
            n += "-" + "-".join(d.replace("=", "") for d in self.defs)
        return n

    def __repr__(self):
        return self.name()


def all_compiler_std():
    return [(c, s) for c in ("g++", "clang++") for s in ("11", "14", "17", "20", "23")]


_rt_hash = None


def rt_hash():
    global _rt_hash
    if _rt_hash is None:
        parts = []
        for f in sorted(glob.glob(os.path.join(C.RT, "*"))):
            if os.path.isfile(f):
                parts.append(os.path.basename(f))
                parts.append(open(f, "rb").read())
        _rt_hash = C.sha(*parts)[:16]
    return _rt_hash


def compile_driver(src_text, cfg, inc_dirs=(), dep_key="", libs=(), name="drv", syntax_only=False, timeout=900):
    """Compile a driver TU.  Returns (ok, exe_path_or_None, compiler_output)."""
    d = os.path.join(tree_dir(), "drv")
    flags = cfg.flags()
    if os.environ.get("VERIF_DRV_COV") and cfg.cxx == "g++" and not syntax_only:
        # tools/coverage_sbepp.sh: which lines of sbepp.hpp do the drivers execute?  Never used for a verdict.
        flags = flags + ["--coverage", "-fprofile-update=atomic"]
    key = C.sha(src_text, rt_hash(), " ".join(flags), dep_key, " ".join(inc_dirs), " ".join(libs), str(syntax_only))[:24]
    base = os.path.join(d, "%s-%s" % (name, key))
    exe, okf, errf = base + ".exe", base + ".ok", base + ".err"
    if os.path.exists(okf):
        return True, (None if syntax_only else exe), C.read_text(okf)
    if os.path.exists(errf):
        return False, None, C.read_text(errf)
    with _Lock(base + ".lock"):
        if os.path.exists(okf):
            return True, (None if syntax_only else exe), C.read_text(okf)
        if os.path.exists(errf):
            return False, None, C.read_text(errf)
        src = base + ".cpp"
        C.write_file(src, src_text)
        cmd = flags + ["-I" + sbepp_inc(), "-I" + C.RT] + ["-I" + i for i in inc_dirs]
        if syntax_only:
            cmd += ["-fsyntax-only", src]
        else:
            cmd += [src, "-o", exe + ".tmp"] + list(libs)
        rc, o, _, to = C.run(cmd, timeout=timeout)
        txt = o.decode(errors="replace")
        if to:
            raise HarnessError("compiler timeout: " + " ".join(cmd))
        if rc != 0:
            C.write_file(errf, txt)
            return False, None, txt
        if not syntax_only:
            os.replace(exe + ".tmp", exe)
        C.write_file(okf, txt)
        return True, (None if syntax_only else exe), txt


def gen_headers(xml_text, variant="rel", extra_args=(), files=None, schema_file="schema.xml"):
    """Run sbeppc on xml_text (plus optional extra files {relpath: text}) into a cached directory.
    Returns dict(rc, out, dir, xml_path)."""
    variant = os.environ.get("VERIF_SBEPPC_OVERRIDE", variant)
    exe = sbeppc(variant)
    key = C.sha(xml_text, variant, " ".join(extra_args), repr(sorted((files or {}).items())))[:24]
    d = os.path.join(tree_dir(), "gen", key)
    meta = os.path.join(d, ".done")
    outdir = os.path.join(d, "out")
    xmlp = os.path.join(d, "in", schema_file)
    if os.path.exists(meta):
        rc_s, out = C.read_text(meta).split("\n", 1)
        return {"rc": int(rc_s), "out": out, "dir": outdir, "xml_path": xmlp}
    with _Lock(d + ".lock"):
        if os.path.exists(meta):
            rc_s, out = C.read_text(meta).split("\n", 1)
            return {"rc": int(rc_s), "out": out, "dir": outdir, "xml_path": xmlp}
        shutil.rmtree(d, ignore_errors=True)
        C.ensure_dir(outdir)
        C.write_file(xmlp, xml_text)
        for rel, txt in (files or {}).items():
            C.write_file(os.path.join(d, "in", rel), txt)
        env = san_env() if variant == "san" else {}
        rc, o, _, to = C.run([exe, "--output-dir", outdir] + list(extra_args) + [xmlp],
                             timeout=120, env=env, cwd=os.path.join(d, "in"))
        if to:
            rc = -999
        out = o.decode(errors="replace")
        C.write_file(meta, "%d\n%s" % (rc, out))
        return {"rc": rc, "out": out, "dir": outdir, "xml_path": xmlp}


def san_env(log_path=None):
    e = {
        "ASAN_OPTIONS": "abort_on_error=0:detect_leaks=1:exitcode=99:allocator_may_return_null=1",
        "UBSAN_OPTIONS": "halt_on_error=0:print_stacktrace=0:exitcode=98",
        "LSAN_OPTIONS": "exitcode=97",
    }
    return e


def drv_env():
    return {
        "ASAN_OPTIONS": "abort_on_error=0:detect_leaks=0:exitcode=99",
        "UBSAN_OPTIONS": "halt_on_error=0:print_stacktrace=0",
    }


UBSAN_RE = re.compile(r"^(\S+?):(\d+):(\d+): runtime error: (.*)$", re.M)


def ubsan_reports(text):
    """Distinct (kind, file) pairs of UBSan reports in a driver's output."""
    out = []
    for m in UBSAN_RE.finditer(text):
        msg = re.sub(r"-?\d+(\.\d+)?(e[+-]?\d+)?", "N", m.group(4))
        msg = re.sub(r"0xN?[0-9a-fA-F]*", "P", msg)
        out.append((msg, os.path.basename(m.group(1)), m.group(0)))
    return out


def ioshim():
    """LD_PRELOAD fault injector (rt/ioshim.c), built on demand."""
    d = os.path.join(C.CACHE, "tools")
    src = os.path.join(C.RT, "ioshim.c")
    key = C.sha(open(src, "rb").read())[:16]
    out = os.path.join(d, "ioshim-%s.so" % key)
    if os.path.exists(out):
        return out
    with _Lock(out + ".lock"):
        if os.path.exists(out):
            return out
        rc, o, _, to = C.run(["gcc", "-shared", "-fPIC", "-O1", src, "-o", out + ".tmp", "-ldl"], timeout=120)
        if rc != 0:
            raise HarnessError("building ioshim failed: " + o.decode(errors="replace"))
        os.replace(out + ".tmp", out)
    return out
