"""Generates, for one schema, the C++ 'codec driver': dumpers (random access, by tag, cursor,
cursor+tag), encoders (named, by tag, cursor, cursor+tag), visit, header fillers and trait
size calls.  Every accessor is spelled from the *model* (schema names), never from sbeppc's
name tables, so the driver is also a probe that each entity is reachable under its name.

The python side (expected_* functions) walks the same structure to produce the expected log
and the token stream the encoder consumes.
"""
from . import refmodel as R
from .schema import PRIM_SIZE

DUMP_MODES = ("ra", "tag", "cur", "curtag")
DATA_WRITERS = [
    "d.assign_range(b);",
    "d.assign(b.begin(), b.end());",
    "d.clear(); for(const auto x : b) d.push_back(static_cast<typename decltype(d)::value_type>(x));",
    "d.resize(static_cast<typename decltype(d)::size_type>(b.size())); for(std::size_t q = 0; q < b.size(); q++) d[static_cast<typename decltype(d)::size_type>(q)] = static_cast<typename decltype(d)::value_type>(b[q]);",
    "d.clear(); d.insert(d.end(), b.begin(), b.end());",
]

ENC_FORMS = ("named", "tag", "cur", "curtag")


def prefill_byte(seed, i):
    return (seed * 31 + i * 7 + (i >> 8) + 0x5A) & 0xFF


def prefill(seed, n):
    return bytes(prefill_byte(seed, i) for i in range(n))


class Gen:
    def __init__(self, schema):
        self.s = schema
        self.m = R.Model(schema)
        self.pkg = schema.package
        self.comp_ids = {}
        self.level_ids = {}
        self.code = []
        self.done = set()
        # documented tag path of every composite: <pkg>::schema::types::<composite>[::<inline composite>...]
        self.comp_tag = {}

        def walk(c, tag):
            self.comp_tag[id(c)] = tag
            for e in c.elements:
                if e.kind == "composite":
                    walk(e, tag + "::" + e.name)
        for ty in schema.types:
            if ty.kind == "composite":
                walk(ty, "::%s::schema::types::%s" % (self.pkg, ty.name))

    # ---------------------------------------------------------------- ids
    def cid(self, comp):
        k = id(comp)
        if k not in self.comp_ids:
            self.comp_ids[k] = len(self.comp_ids)
        return self.comp_ids[k]

    def lid(self, level):
        k = id(level)
        if k not in self.level_ids:
            self.level_ids[k] = len(self.level_ids)
        return self.level_ids[k]

    # ---------------------------------------------------------------- accessors
    @staticmethod
    def get_expr(obj, name, tagowner, mode):
        if mode == "ra":
            return "%s.%s()" % (obj, name)
        if mode == "tag":
            return "sbepp::get_by_tag<typename %s::%s>(%s)" % (tagowner, name, obj)
        if mode == "cur":
            return "%s.%s(c)" % (obj, name)
        return "sbepp::get_by_tag<typename %s::%s>(%s, c)" % (tagowner, name, obj)

    @staticmethod
    def set_stmt(obj, name, tagowner, form, value):
        if form == "named":
            return "%s.%s(%s);" % (obj, name, value)
        if form == "tag":
            return "sbepp::set_by_tag<typename %s::%s>(%s, %s);" % (tagowner, name, obj, value)
        if form == "cur":
            return "%s.%s(%s, c);" % (obj, name, value)
        return "sbepp::set_by_tag<typename %s::%s>(%s, %s, c);" % (tagowner, name, obj, value)

    # ---------------------------------------------------------------- composites
    def gen_composite(self, comp):
        k = self.cid(comp)
        if ("c", k) in self.done:
            return k
        self.done.add(("c", k))
        m = self.m
        lay, size = m.composite_layout(comp)
        # element tags are spelled through the composite's own documented tag path, not through the tag of the
        # field/ref that leads here (those merely inherit from it, and a field named like an element would hide it)
        CT = self.comp_tag[id(comp)]
        for mode in ("ra", "tag"):
            body = []
            for e, off in lay:
                tgt = m.deref(e)
                acc = self.get_expr("c", e.name, CT, mode).replace("typename ", "")
                path = 'p + ".%s"' % e.name
                if tgt.kind == "composite":
                    j = self.gen_composite(tgt)
                    body.append("    dC%d_%s<%s::%s>(%s, %s, z);" % (j, mode, CT, e.name, path, acc))
                elif off is None:
                    body.append("    vrt::prc(%s, %s);" % (path, acc))
                else:
                    body.append("    vrt::pr(%s, %s);" % (path, acc))
            self.code.append(
                "template<typename CT, typename V>\nstatic void dC%d_%s(const std::string& p, V c, bool z)\n{\n"
                "    (void)c;\n    vrt::line(\"{ \" + p);\n"
                "    if(z)\n    {\n        vrt::prz(\"z\", p, sbepp::size_bytes(c));\n"
                "        vrt::prz(\"zt\", p, sbepp::composite_traits<sbepp::traits_tag_t<V>>::size_bytes());\n    }\n"
                "%s\n    vrt::line(\"} \" + p);\n}\n" % (k, mode, "\n".join(body)))
        body = []
        for e, off in lay:
            tgt = m.deref(e)
            path = 'p + ".%s"' % e.name
            if tgt.kind == "composite":
                j = self.gen_composite(tgt)
                body.append("    vC%d(%s, c.%s());" % (j, path, e.name))
            elif tgt.kind == "enum":
                body.append("    vrt::pr_enum_visit(%s, c.%s());" % (path, e.name))
            elif tgt.kind == "set":
                body.append("    vrt::pr_set_visit(%s, c.%s());" % (path, e.name))
        self.code.append("template<typename V>\nstatic void vC%d(const std::string& p, V c)\n{\n    (void)c; (void)p;\n%s\n}\n"
                         % (k, "\n".join(body)))
        for form in ("named", "tag"):
            body = []
            elems = [(e, off) for e, off in lay if off is not None]
            if form == "tag":
                elems = list(reversed(elems))
            for e, off in elems:
                tgt = m.deref(e)
                gmode = "ra" if form == "named" else "tag"
                acc = self.get_expr("c", e.name, CT, gmode).replace("typename ", "")
                if tgt.kind == "composite":
                    j = self.gen_composite(tgt)
                    body.append("    sC%d_%s<%s::%s>(%s, t);" % (j, form, CT, e.name, acc))
                elif tgt.kind == "type" and tgt.is_array():
                    body.append(self.array_assign(acc, form))
                else:
                    body.append("    " + self.set_stmt("c", e.name, CT, form, "vrt::mk<decltype(c.%s())>(t.u64())" % e.name).replace("typename ", ""))
            self.code.append(
                "template<typename CT, typename V>\nstatic void sC%d_%s(V c, vrt::tokens& t)\n{\n    (void)c; (void)t;\n%s\n}\n"
                % (k, form, "\n".join(body)))
        return k

    @staticmethod
    def array_assign(acc, form):
        if form in ("named", "cur"):
            return "    { auto b = t.bytes(); %s.assign_range(b); }" % acc
        return "    { auto b = t.bytes(); %s.assign(b.begin(), b.end()); }" % acc

    # ---------------------------------------------------------------- levels
    def gen_level(self, level):
        k = self.lid(level)
        if ("l", k) in self.done:
            return k
        self.done.add(("l", k))
        m = self.m
        lay, _, _ = m.level_layout(level)
        subs = {g.name: self.gen_level(g) for g in level.groups}
        for mode in DUMP_MODES:
            cur = mode in ("cur", "curtag")
            body = []
            for f, off in lay:
                enc = m.field_enc(f)
                path = 'p + "%s"' % f.name
                if off is None:
                    body.append("    vrt::prc(%s, %s);" % (path, self.get_expr("l", f.name, "LT", "tag" if "tag" in mode else "ra")))
                    continue
                acc = self.get_expr("l", f.name, "LT", mode)
                if enc is not None and enc.kind == "composite":
                    j = self.gen_composite(enc)
                    body.append("    dC%d_%s<typename LT::%s>(%s, %s, z);" % (j, "tag" if "tag" in mode else "ra", f.name, path, acc))
                else:
                    body.append("    vrt::pr(%s, %s);" % (path, acc))
            for g in level.groups:
                path = 'p + "%s"' % g.name
                acc = self.get_expr("l", g.name, "LT", mode)
                loop = "g.cursor_range(c)" if cur else "g"
                call = ("dL%d_%s<typename LT::%s>(vrt::idx(%s, i), e, c, z);" if cur else
                        "dL%d_%s<typename LT::%s>(vrt::idx(%s, i), e, z);") % (subs[g.name], mode, g.name, path)
                inner = ("            vrt::pre(%s, i);\n"
                         "            if(z) vrt::prz(\"z\", %s + \"[\" + std::to_string(i) + \"]\", sbepp::size_bytes(e));\n"
                         "            %s\n            ++i;\n" % (path, path, call))
                if mode == "curtag":
                    # the by-tag cursor mode walks a group of two or more entries as two subranges: [0, 1) and [1, size)
                    loops = ("        typedef typename decltype(g)::size_type vrt_st;\n        if(g.size() >= 2)\n        {\n"
                             "            for(const auto e : g.cursor_subrange(c, vrt_st(0), vrt_st(1)))\n            {\n%s            }\n"
                             "            for(const auto e : g.cursor_subrange(c, vrt_st(1)))\n            {\n%s            }\n        }\n"
                             "        else\n        {\n            for(const auto e : g.cursor_range(c))\n            {\n%s            }\n        }\n"
                             % (inner, inner, inner))
                else:
                    loops = "        for(const auto e : %s)\n        {\n%s        }\n" % (loop, inner)
                body.append(
                    "    {\n        auto g = %s;\n        vrt::prg(%s, g.size());\n"
                    "        if(z) vrt::prz(\"z\", %s, sbepp::size_bytes(g));\n        std::size_t i = 0;\n%s    }" % (acc, path, path, loops))
            for d in level.data:
                path = 'p + "%s"' % d.name
                acc = self.get_expr("l", d.name, "LT", mode)
                body.append(
                    "    {\n        auto d = %s;\n        vrt::pr(%s, d);\n        if(z)\n        {\n"
                    "            vrt::prz(\"z\", %s, sbepp::size_bytes(d));\n"
                    "            vrt::prz(\"zt\", %s, sbepp::data_traits<typename LT::%s>::size_bytes(d.size()));\n"
                    "        }\n    }" % (acc, path, path, path, d.name))
            sig = "const std::string& p, V l, Cur& c, bool z" if cur else "const std::string& p, V l, bool z"
            tmpl = "template<typename LT, typename V, typename Cur>" if cur else "template<typename LT, typename V>"
            unused = "(void)l; (void)p; (void)z;" + (" (void)c;" if cur else "")
            self.code.append("%s\nstatic void dL%d_%s(%s)\n{\n    %s\n%s\n}\n" % (tmpl, k, mode, sig, unused, "\n".join(body)))
        body = []
        for f, off in lay:
            enc = m.field_enc(f)
            path = 'p + "%s"' % f.name
            if enc is None:
                continue
            if enc.kind == "composite" and off is not None:
                body.append("    vC%d(%s, l.%s());" % (self.gen_composite(enc), path, f.name))
            elif enc.kind == "enum":
                body.append("    vrt::pr_enum_visit(%s, l.%s());" % (path, f.name))
            elif enc.kind == "set":
                body.append("    vrt::pr_set_visit(%s, l.%s());" % (path, f.name))
        for g in level.groups:
            path = 'p + "%s"' % g.name
            body.append("    {\n        std::size_t i = 0;\n        for(const auto e : l.%s())\n        {\n"
                        "            vL%d(vrt::idx(%s, i), e);\n            ++i;\n        }\n    }" % (g.name, subs[g.name], path))
        self.code.append("template<typename V>\nstatic void vL%d(const std::string& p, V l)\n{\n    (void)l; (void)p;\n%s\n}\n"
                         % (k, "\n".join(body)))
        for form in ENC_FORMS:
            cur = form in ("cur", "curtag")
            body = []
            fl = [(f, off) for f, off in lay if off is not None]
            if form == "tag":
                fl = list(reversed(fl))
            for f, off in fl:
                enc = m.field_enc(f)
                gmode = {"named": "ra", "tag": "tag", "cur": "cur", "curtag": "curtag"}[form]
                acc = self.get_expr("l", f.name, "LT", gmode)
                if enc is not None and enc.kind == "composite":
                    j = self.gen_composite(enc)
                    body.append("    sC%d_%s<typename LT::%s>(%s, t);" % (j, "tag" if "tag" in form else "named", f.name, acc))
                elif enc is not None and enc.kind == "type" and enc.is_array():
                    body.append(self.array_assign(acc, form))
                else:
                    body.append("    " + self.set_stmt("l", f.name, "LT", form, "vrt::mk<decltype(l.%s())>(t.u64())" % f.name))
            for g in level.groups:
                path = 'p + "%s"' % g.name
                if cur:
                    dm = self.get_expr("l", g.name, "LT", form).replace("(c)", "(sbepp::cursor_ops::dont_move(c))").replace(", c)", ", sbepp::cursor_ops::dont_move(c))")
                    adv = self.get_expr("l", g.name, "LT", form)
                    body.append(
                        "    {\n        auto g = %s;\n        const auto n = static_cast<typename decltype(g)::size_type>(t.u64());\n"
                        "        auto h = sbepp::fill_group_header(g, n);\n"
                        "        vrt::prz(\"r\", %s, static_cast<unsigned long long>(reinterpret_cast<const unsigned char*>(sbepp::addressof(h)) - g_base));\n"
                        "        (void)%s;\n        std::size_t i = 0;\n        for(const auto e : g.cursor_range(c))\n        {\n"
                        "            sL%d_%s<typename LT::%s>(vrt::idx(%s, i), e, t, c);\n            ++i;\n        }\n    }"
                        % (dm, path, adv, subs[g.name], form, g.name, path))
                else:
                    acc = self.get_expr("l", g.name, "LT", "ra" if form == "named" else "tag")
                    body.append(
                        "    {\n        auto g = %s;\n        const auto n = static_cast<typename decltype(g)::size_type>(t.u64());\n"
                        "        auto h = sbepp::fill_group_header(g, n);\n"
                        "        vrt::prz(\"r\", %s, static_cast<unsigned long long>(reinterpret_cast<const unsigned char*>(sbepp::addressof(h)) - g_base));\n"
                        "        std::size_t i = 0;\n        for(const auto e : g)\n        {\n"
                        "            sL%d_%s<typename LT::%s>(vrt::idx(%s, i), e, t);\n            ++i;\n        }\n    }"
                        % (acc, path, subs[g.name], form, g.name, path))
            for di, d in enumerate(level.data):
                # how the payload is written rotates over the ways a <data> member can be filled (per data member, form and
                # level), so that every one of them is confronted with every length type of the corpus: whole-range
                # assignment, iterator pair, clear + push_back per byte, resize + element writes, clear + insert at end
                # (added after seeded change C01-5: push_back stored the new length in the promoted type)
                wr = DATA_WRITERS[(di + ENC_FORMS.index(form) + k) % len(DATA_WRITERS)]
                if cur:
                    dm = self.get_expr("l", d.name, "LT", form).replace("(c)", "(sbepp::cursor_ops::dont_move(c))").replace(", c)", ", sbepp::cursor_ops::dont_move(c))")
                    adv = self.get_expr("l", d.name, "LT", form)
                    body.append("    {\n        auto d = %s;\n        auto b = t.bytes();\n        %s\n        (void)%s;\n    }" % (dm, wr, adv))
                elif form == "named":
                    body.append("    {\n        auto d = l.%s();\n        auto b = t.bytes();\n        %s\n    }" % (d.name, wr))
                else:
                    body.append("    {\n        auto d = %s;\n        auto b = t.bytes();\n        %s\n    }"
                                % (self.get_expr("l", d.name, "LT", "tag"), wr))
            sig = "const std::string& p, V l, vrt::tokens& t, Cur& c" if cur else "const std::string& p, V l, vrt::tokens& t"
            tmpl = "template<typename LT, typename V, typename Cur>" if cur else "template<typename LT, typename V>"
            unused = "(void)l; (void)p; (void)t;" + (" (void)c;" if cur else "")
            self.code.append("%s\nstatic void sL%d_%s(%s)\n{\n    %s\n%s\n}\n" % (tmpl, k, form, sig, unused, "\n".join(body)))
        return k

    # ---------------------------------------------------------------- per message entry points
    def gen_message(self, idx, msg):
        k = self.gen_level(msg)
        mt = "::%s::schema::messages::%s" % (self.pkg, msg.name)
        view = "::%s::messages::%s" % (self.pkg, msg.name)
        npaths = len(R.group_paths(msg))
        hd = R.has_data(msg)
        args = ["a%d" % i for i in range(npaths)] + (["static_cast<std::size_t>(td)"] if hd else [])
        decl = "".join("    const unsigned long long a%d = t.u64();\n" % i for i in range(npaths))
        if hd:
            decl += "    const unsigned long long td = t.u64();\n"
        grp = ""
        for g in msg.groups:
            gp = len(R.group_paths(g))
            ghd = R.has_data(g)
            gargs = ["n"] + ["b%d" % i for i in range(gp)] + (["static_cast<std::size_t>(gtd)"] if ghd else [])
            grp += "    {\n        const unsigned long long n = t.u64();\n"
            grp += "".join("        const unsigned long long b%d = t.u64();\n" % i for i in range(gp))
            if ghd:
                grp += "        const unsigned long long gtd = t.u64();\n"
            grp += "        (void)n;\n        vrt::prz(\"zt\", \"trait_group:%s\", sbepp::group_traits<%s::%s>::size_bytes(%s));\n    }\n" % (
                g.name, mt, g.name, ", ".join(gargs))
        first_group = ""
        if msg.groups:
            g0 = msg.groups[0]
            first_group = (
                "        auto g = m.%s();\n"
                "        auto gh = sbepp::fill_group_header(g, static_cast<typename decltype(g)::size_type>(n));\n"
                "        vrt::prz(\"r\", \"%s\", static_cast<unsigned long long>(reinterpret_cast<const unsigned char*>(sbepp::addressof(gh)) - g_base));\n"
                "        vrt::prz(\"z\", \"dimension_size\", sbepp::size_bytes(gh));\n" % (g0.name, g0.name))
        self.code.append('''
static void run_enc_%(i)d(int form, unsigned char* buf, std::size_t len, vrt::tokens& t)
{
    %(view)s<vrt_byte_t> m{reinterpret_cast<vrt_byte_t*>(buf), len};
    auto h = sbepp::fill_message_header(m);
    vrt::prz("r", "#hdr", static_cast<unsigned long long>(reinterpret_cast<const unsigned char*>(sbepp::addressof(h)) - g_base));
    vrt::prz("z", "#hdr", sbepp::size_bytes(h));
    if(form == 0)
        sL%(k)d_named<%(mt)s>(std::string(), m, t);
    else if(form == 1)
        sL%(k)d_tag<%(mt)s>(std::string(), m, t);
    else
    {
        auto c = sbepp::init_cursor(m);
        if(form == 2)
            sL%(k)d_cur<%(mt)s>(std::string(), m, t, c);
        else
            sL%(k)d_curtag<%(mt)s>(std::string(), m, t, c);
        vrt::prz("zc", "cursor_end", static_cast<unsigned long long>(reinterpret_cast<const unsigned char*>(c.pointer()) - g_base));
        vrt::prz("zc", "size_bytes_cursor", sbepp::size_bytes(m, c));
    }
    vrt::prz("z", "#msg", sbepp::size_bytes(m));
}

static void run_dec_%(i)d(int mode, const unsigned char* buf, std::size_t len)
{
    %(view)s<dec_byte_t> m{reinterpret_cast<dec_byte_t*>(const_cast<unsigned char*>(buf)), len};
    if(mode == 0)
    {
        {
            const auto chk = sbepp::size_bytes_checked(m, len);
            vrt::prz("zc", "checked_valid", chk.valid ? 1 : 0);
            vrt::prz("zc", "checked_size", chk.size);
        }
        vrt::prz("z", "#msg", sbepp::size_bytes(m));
        vrt::prz("z", "#hdr", sbepp::size_bytes(sbepp::get_header(m)));
        dL%(k)d_ra<%(mt)s>(std::string(), m, true);
    }
    else if(mode == 1)
        dL%(k)d_tag<%(mt)s>(std::string(), m, false);
    else
    {
        auto c = sbepp::init_cursor(m);
        if(mode == 2)
            dL%(k)d_cur<%(mt)s>(std::string(), m, c, false);
        else
            dL%(k)d_curtag<%(mt)s>(std::string(), m, c, false);
        vrt::prz("zc", "cursor_end", static_cast<unsigned long long>(reinterpret_cast<const unsigned char*>(c.pointer()) - g_base));
        vrt::prz("zc", "size_bytes_cursor", sbepp::size_bytes(m, c));
    }
}

static void run_vis_%(i)d(long stop_at, const unsigned char* buf, std::size_t len)
{
    %(view)s<dec_byte_t> m{reinterpret_cast<dec_byte_t*>(const_cast<unsigned char*>(buf)), len};
    vrt::rec_visitor<char> v{stop_at, reinterpret_cast<const char*>(buf)};
    auto c = sbepp::init_cursor(m);
    sbepp::visit(m, c, v);
    vrt::prz("zc", "events", static_cast<unsigned long long>(v.events));
    if(!v.stopped)
        vrt::prz("zc", "cursor_end", static_cast<unsigned long long>(reinterpret_cast<const unsigned char*>(c.pointer()) - g_base));
    // the cursor-less overload must behave the same (it creates its own cursor)
    vrt::rec_visitor<char> v2{stop_at, reinterpret_cast<const char*>(buf)};
    const std::size_t mark = vrt::out().size();
    (void)mark;
    sbepp::visit(m, v2);
    vrt::prz("zc", "events2", static_cast<unsigned long long>(v2.events));
}

static void run_evs_%(i)d(const unsigned char* buf, std::size_t len)
{
    %(view)s<dec_byte_t> m{reinterpret_cast<dec_byte_t*>(const_cast<unsigned char*>(buf)), len};
    vL%(k)d(std::string(), m);
}

static void run_siz_%(i)d(vrt::tokens& t)
{
    (void)t;
%(decl)s    vrt::prz("zt", "trait_message", sbepp::message_traits<%(mt)s>::size_bytes(%(args)s));
%(grp)s}

static void run_hdr_%(i)d(unsigned char* buf, std::size_t len, unsigned long long n)
{
    %(view)s<vrt_byte_t> m{reinterpret_cast<vrt_byte_t*>(buf), len};
    (void)n;
    auto h = sbepp::fill_message_header(m);
    vrt::prz("r", "#hdr", static_cast<unsigned long long>(reinterpret_cast<const unsigned char*>(sbepp::addressof(h)) - g_base));
    {
%(first_group)s    }
}
''' % dict(i=idx, k=k, mt=mt, view=view, decl=decl, args=", ".join(args), grp=grp, first_group=first_group))

    def generate(self):
        for i, msg in enumerate(self.s.messages):
            self.gen_message(i, msg)
        n = len(self.s.messages)

        def sw(fmt):
            return "\n".join("        case %d: %s break;" % (i, fmt % {"i": i}) for i in range(n))
        main = MAIN % dict(
            enc=sw("run_enc_%(i)d(form, buf, len, t);"), dec=sw("run_dec_%(i)d(mode, buf, len);"),
            vis=sw("run_vis_%(i)d(k, buf, len);"), evs=sw("run_evs_%(i)d(buf, len);"), siz=sw("run_siz_%(i)d(t);"), hdr=sw("run_hdr_%(i)d(buf, len, n);"))
        return HEAD % dict(pkg=self.pkg) + "\n".join(self.code) + main


HEAD = '''// generated codec driver for schema %(pkg)s
#include "vrt_codec.hpp"
#include <%(pkg)s/%(pkg)s.hpp>
#include <iostream>
#include <memory>

static const unsigned char* g_base = nullptr;
// byte type of the views (documented: any of char, unsigned char, std::byte): VRT_BYTE_KIND 0 char, 1 unsigned char, 2 std::byte
#if defined(VRT_BYTE_KIND) && VRT_BYTE_KIND == 1
typedef unsigned char vrt_byte_t;
#elif defined(VRT_BYTE_KIND) && VRT_BYTE_KIND == 2
#include <cstddef>
typedef std::byte vrt_byte_t;
#else
typedef char vrt_byte_t;
#endif
#ifdef VRT_RO_ARENA
// C11 run-time half: images live in PROT_READ memory and are read through *mutable* view types
#include "vrt_arena.hpp"
typedef vrt_byte_t dec_byte_t;
#else
typedef const vrt_byte_t dec_byte_t;
#endif
'''

MAIN = '''
static unsigned char prefill_byte(unsigned long long seed, std::size_t i)
{
    return static_cast<unsigned char>((seed * 31 + i * 7 + (i >> 8) + 0x5A) & 0xFF);
}

int main()
{
    std::string ln;
    while(std::getline(std::cin, ln))
    {
        vrt::tokens t;
        t.t = vrt::split(ln);
        if(t.t.empty())
            continue;
        const std::string cmd = t.next();
        const std::string id = t.next();
        vrt::line("B " + id + " " + cmd);
        vrt::flush_out(); // a crash must be attributable to the case in progress
        if(cmd == "ENC")
        {
            const int msg = static_cast<int>(t.u64());
            const int form = static_cast<int>(t.u64());
            const std::size_t len = static_cast<std::size_t>(t.u64());
            const unsigned long long seed = t.u64();
            std::unique_ptr<unsigned char[]> arena(new unsigned char[len ? len : 1]);
            unsigned char* buf = arena.get();
            for(std::size_t i = 0; i < len; i++)
                buf[i] = prefill_byte(seed, i);
            g_base = buf;
            switch(msg)
            {
%(enc)s
            }
            if(t.underflow || t.i != t.t.size())
                vrt::line("X token-mismatch");
            vrt::line("ARENA " + vrt::hex(buf, len));
        }
        else if(cmd == "DEC" || cmd == "VIS" || cmd == "EVS")
        {
            const int msg = static_cast<int>(t.u64());
            const long k = static_cast<long>(std::strtol(t.next().c_str(), nullptr, 10));
            const int mode = static_cast<int>(k);
            std::vector<unsigned char> img = t.bytes();
            // exact-size heap copy: the sanitizer sees any access beyond the image
            const std::size_t len = img.size();
#ifdef VRT_RO_ARENA
            vrt::ar().armed = 0; // any fault (i.e. any write, or a read beyond the image) is fatal: "FATAL ..." + exit 70
            unsigned char* buf = vrt::arena_place(img.data(), len, true);
#else
            std::unique_ptr<unsigned char[]> arena(new unsigned char[len ? len : 1]);
            unsigned char* buf = arena.get();
            if(len)
                std::memcpy(buf, img.data(), len);
#endif
            g_base = buf;
            if(cmd == "DEC")
            {
                switch(msg)
                {
%(dec)s
                }
            }
            else if(cmd == "VIS")
            {
                switch(msg)
                {
%(vis)s
                }
            }
            else
            {
                switch(msg)
                {
%(evs)s
                }
            }
            if(len && std::memcmp(buf, img.data(), len) != 0)
                vrt::line("X read-only-operation-modified-buffer");
        }
        else if(cmd == "SIZ")
        {
            const int msg = static_cast<int>(t.u64());
            switch(msg)
            {
%(siz)s
            }
            if(t.underflow || t.i != t.t.size())
                vrt::line("X token-mismatch");
        }
        else if(cmd == "HDR")
        {
            const int msg = static_cast<int>(t.u64());
            const std::size_t len = static_cast<std::size_t>(t.u64());
            const unsigned long long seed = t.u64();
            const unsigned long long n = t.u64();
            std::unique_ptr<unsigned char[]> arena(new unsigned char[len ? len : 1]);
            unsigned char* buf = arena.get();
            for(std::size_t i = 0; i < len; i++)
                buf[i] = prefill_byte(seed, i);
            g_base = buf;
            switch(msg)
            {
%(hdr)s
            }
            vrt::line("ARENA " + vrt::hex(buf, len));
        }
        vrt::line("E " + id);
        vrt::flush_out();
    }
    return 0;
}
'''


# ============================================================================ python side: expected logs / tokens

def _fmt(bits, size):
    return "%0*x" % (2 * size, bits)


def expected_comp(m, comp, value, path, z, out, include_const=True):
    lay, size = m.composite_layout(comp)
    out.append("{ " + path)
    if z:
        out.append("z %s %d" % (path, size))
        out.append("zt %s %d" % (path, size))
    for e, off in lay:
        tgt = m.deref(e)
        p = path + "." + e.name
        if tgt.kind == "composite":
            expected_comp(m, tgt, value[e.name], p, z, out, include_const)
        elif off is None:
            if include_const:
                cv = R.const_value(m, tgt)
                out.append("c %s %s" % (p, _fmt(cv[1], cv[2]) if cv[0] == "scalar" else cv[1].hex()))
        elif tgt.kind == "type" and tgt.is_array():
            out.append("a %s %s" % (p, bytes(value[e.name]).hex()))
        else:
            sz = PRIM_SIZE[tgt.prim] if tgt.kind == "type" else PRIM_SIZE[m.enum_prim(tgt)]
            out.append("v %s %s" % (p, _fmt(value[e.name], sz)))
    out.append("} " + path)


def expected_level(m, level, vals, path, z, out, wire_bl, include_const=True):
    for f, off in m.level_layout(level)[0]:
        enc = m.field_enc(f)
        p = path + f.name
        if off is None:
            if not include_const:
                continue
            if enc is not None and enc.kind == "type":
                cv = R.const_value(m, enc)
                out.append("c %s %s" % (p, _fmt(cv[1], cv[2]) if cv[0] == "scalar" else cv[1].hex()))
            else:
                en, ev = f.value_ref.split(".", 1)
                e = m.find(en)
                vv = [x for x in e.values if x.name == ev][0].value
                pe = m.enum_prim(e)
                bits = ord(vv) if pe == "char" else int(vv)
                size = PRIM_SIZE[pe] if enc is not None else PRIM_SIZE[f.type]
                out.append("c %s %s" % (p, _fmt(bits & ((1 << (8 * size)) - 1), size)))
            continue
        if enc is None:
            out.append("v %s %s" % (p, _fmt(vals.fields[f.name], PRIM_SIZE[f.type])))
        elif enc.kind == "composite":
            expected_comp(m, enc, vals.fields[f.name], p, z, out, include_const)
        elif enc.kind == "type" and enc.is_array():
            out.append("a %s %s" % (p, bytes(vals.fields[f.name]).hex()))
        else:
            sz = PRIM_SIZE[enc.prim] if enc.kind == "type" else PRIM_SIZE[m.enum_prim(enc)]
            out.append("v %s %s" % (p, _fmt(vals.fields[f.name], sz)))
    for g in level.groups:
        entries = vals.groups[g.name]
        gp = path + g.name
        out.append("g %s %d" % (gp, len(entries)))
        ex = vals.groups.get(("extra", g.name), 0)
        if z:
            out.append("z %s %d" % (gp, R.group_size(m, g, entries, ex)))
        gbl = m.level_layout(g)[2] + (entries[0].extra if entries else ex)
        for i, ev in enumerate(entries):
            out.append("e %s[%d]" % (gp, i))
            if z:
                out.append("z %s[%d] %d" % (gp, i, R.level_size(m, g, ev, gbl)))
            expected_level(m, g, ev, "%s[%d]." % (gp, i), z, out, gbl, include_const)
    for d in level.data:
        dp = path + d.name
        b = vals.data[d.name]
        out.append("d %s %s" % (dp, b.hex()))
        if z:
            n = m.data_prefix_size(d) + len(b)
            out.append("z %s %d" % (dp, n))
            out.append("zt %s %d" % (dp, n))


def cursor_end(m, msg, vals):
    """Where a complete cursor traversal leaves the cursor: the message end, unless the message has no
    member that takes a cursor at all (then nothing can move it from the end of the header)."""
    if not msg.groups and not msg.data and all(off is None for _, off in m.level_layout(msg)[0]):
        return m.enc_size(m.header())
    return R.message_size(m, msg, vals)


def expected_dec(m, msg, vals, mode):
    """Expected driver log of DEC for mode 0..3 (ra, tag, cur, curtag)."""
    out = []
    z = mode == 0
    total = R.message_size(m, msg, vals)
    if z:
        out.append("zc checked_valid 1")
        out.append("zc checked_size %d" % total)
        out.append("z #msg %d" % total)
        out.append("z #hdr %d" % m.enc_size(m.header()))
    expected_level(m, msg, vals, "", z, out, m.level_layout(msg)[2] + vals.extra)
    if mode >= 2:
        out.append("zc cursor_end %d" % cursor_end(m, msg, vals))
        out.append("zc size_bytes_cursor %d" % cursor_end(m, msg, vals))
    return out


def expected_events(m, msg, vals):
    """Visit callbacks in order (constants never visited): the lines the recording visitor prints."""
    out = []
    expected_level(m, msg, vals, "", False, out, 0, include_const=False)
    return out


def is_event(line):
    return line[0] in "vadge{" and line[1] == " "


def expected_vis(m, msg, vals, stop_at):
    """Expected log of VIS: header line, events up to the stopping one, counters."""
    ev = expected_events(m, msg, vals)
    out = ["m " + msg.name]
    n = 0
    for ln in ev:
        if is_event(ln):
            if stop_at >= 0 and n >= stop_at:
                break
            n += 1
            out.append(ln)
        else:
            # closing brace of a composite: printed only if the visit was not stopped inside it
            if stop_at >= 0 and n >= stop_at:
                break
            out.append(ln)
    total_events = sum(1 for ln in ev if is_event(ln))
    seen = total_events if stop_at < 0 else min(stop_at, total_events)
    if stop_at == 0:
        seen = min(1, total_events)
    return out, seen, total_events


def enc_tokens(m, level, vals, form, out):
    """Token stream an encoder form consumes for one level instance."""
    def comp_tokens(comp, value, rev):
        elems = [(e, off) for e, off in m.composite_layout(comp)[0] if off is not None]
        if rev:
            elems = list(reversed(elems))
        for e, off in elems:
            tgt = m.deref(e)
            if tgt.kind == "composite":
                comp_tokens(tgt, value[e.name], rev)
            elif tgt.kind == "type" and tgt.is_array():
                out.append(bytes(value[e.name]).hex() or "-")
            else:
                out.append("%x" % value[e.name])
    rev = form == 1            # by-tag form sets the level's fields in reverse order ...
    crev = form in (1, 3)      # ... and both by-tag forms set composite elements in reverse order
    fl = [(f, off) for f, off in m.level_layout(level)[0] if off is not None]
    if rev:
        fl = list(reversed(fl))
    for f, off in fl:
        enc = m.field_enc(f)
        v = vals.fields[f.name]
        if enc is None:
            out.append("%x" % v)
        elif enc.kind == "composite":
            comp_tokens(enc, v, crev)
        elif enc.kind == "type" and enc.is_array():
            out.append(bytes(v).hex() or "-")
        else:
            out.append("%x" % v)
    for g in level.groups:
        entries = vals.groups[g.name]
        out.append("%x" % len(entries))
        for ev in entries:
            enc_tokens(m, g, ev, form, out)
    for d in level.data:
        out.append(vals.data[d.name].hex() or "-")


def siz_tokens(m, msg, vals):
    counts, total = R.count_entries(msg, vals)
    toks = ["%x" % counts.get(p, 0) for p in R.group_paths(msg)]
    if R.has_data(msg):
        toks.append("%x" % total)
    exp = ["zt trait_message %d" % R.message_size(m, msg, vals)]
    for g in msg.groups:
        entries = vals.groups[g.name]
        sub_counts = {}
        sub_total = 0
        for e in entries:
            c2, d2 = R.count_entries(g, e, (g.name,))
            for k, v in c2.items():
                sub_counts[k] = sub_counts.get(k, 0) + v
            sub_total += d2
        toks.append("%x" % len(entries))
        for p in R.group_paths(g, (g.name,)):
            toks.append("%x" % sub_counts.get(p, 0))
        if R.has_data(g):
            toks.append("%x" % sub_total)
        exp.append("zt trait_group:%s %d" % (g.name, R.group_size(m, g, entries)))
    return toks, exp


def expected_evs(m, msg, vals):
    """Expected log of EVS: enum visit result and set visit result of every enum/set member (constants included)."""
    out = []

    def enum_line(path, e, bits):
        p = m.enum_prim(e)
        n = 8 * PRIM_SIZE[p]
        for v in e.values:
            vb = (ord(v.value) if p == "char" else int(v.value)) & ((1 << n) - 1)
            if vb == bits:
                out.append("ev %s known:%s calls=1" % (path, v.name))
                return
        out.append("ev %s unknown calls=1" % path)

    def set_line(path, st, bits):
        txt = "".join("%s=%d," % (c.name, (bits >> c.index) & 1) for c in st.choices)
        out.append("sc %s %s" % (path, txt or "-"))

    def comp(c, value, path):
        for e, off in m.composite_layout(c)[0]:
            tgt = m.deref(e)
            p = path + "." + e.name
            if tgt.kind == "composite":
                comp(tgt, value[e.name], p)
            elif tgt.kind == "enum":
                enum_line(p, tgt, value[e.name])
            elif tgt.kind == "set":
                set_line(p, tgt, value[e.name])

    def level(lv, v, path):
        for f, off in m.level_layout(lv)[0]:
            enc = m.field_enc(f)
            if enc is None:
                continue
            p = path + f.name
            if enc.kind == "composite" and off is not None:
                comp(enc, v.fields[f.name], p)
            elif enc.kind == "enum":
                if off is None:
                    en, ev = f.value_ref.split(".", 1)
                    vv = [x for x in m.find(en).values if x.name == ev][0].value
                    pe = m.enum_prim(enc)
                    bits = (ord(vv) if pe == "char" else int(vv)) & ((1 << (8 * PRIM_SIZE[pe])) - 1)
                else:
                    bits = v.fields[f.name]
                enum_line(p, enc, bits)
            elif enc.kind == "set":
                set_line(p, enc, v.fields[f.name])
        for g in lv.groups:
            for i, ev in enumerate(v.groups[g.name]):
                level(g, ev, "%s%s[%d]." % (path, g.name, i))
    level(msg, vals, "")
    return out
