"""C01/C02/C03/C05/C17/C19: offline checkers over the codec driver's event log."""
import re

from . import build, codec, common as C, gen_driver as G, refmodel as R, schema as S
from .findings import Report


def group_positions(m, level, vals, base, wire_bl, path, out):
    """DFS list of (path, start offset) of every group instance; returns end offset of the level."""
    cur = base + wire_bl
    for g in level.groups:
        entries = vals.groups[g.name]
        gp = path + g.name
        out.append((gp, cur))
        gbl = m.level_layout(g)[2] + (entries[0].extra if entries else vals.groups.get(("extra", g.name), 0))
        cur += m.enc_size(m.dimension(g))
        for i, ev in enumerate(entries):
            cur = group_positions(m, g, ev, cur, gbl, "%s[%d]." % (gp, i), out)
    for d in level.data:
        cur += m.data_prefix_size(d) + len(vals.data[d.name])
    return cur


def expected_enc_log(m, msg, vals, form):
    hs = m.enc_size(m.header())
    total = R.message_size(m, msg, vals)
    out = ["r #hdr 0", "z #hdr %d" % hs]
    pos = []
    group_positions(m, msg, vals, hs, m.level_layout(msg)[2], "", pos)
    out += ["r %s %d" % (p, o) for p, o in pos]
    if form >= 2:
        ce = G.cursor_end(m, msg, vals)
        out += ["zc cursor_end %d" % ce, "zc size_bytes_cursor %d" % ce]
    out.append("z #msg %d" % total)
    return out


def schema_tag(sc):
    return "corpus" if not sc.name.startswith("rnd") else "random"


class Session:
    """Builds the codec driver of every schema for every configuration (in parallel) once."""

    def __init__(self, rep, schemas, cfgs):
        self.rep = rep
        self.items = []
        preps = C.pmap(codec.prepare, schemas)
        for p in preps:
            if not p.ok:
                rep.inconc("sbeppc did not accept generated schema %s: %s" % (p.schema.name, p.gen["out"][-300:]))
        jobs = [(p, cfg) for p in preps if p.ok for cfg in cfgs]

        def comp(job):
            p, cfg = job
            ok, exe, out = codec.compile_codec(p, cfg)
            return p, cfg, ok, exe, out
        for p, cfg, ok, exe, out in C.pmap(comp, jobs):
            if not ok:
                errs = [l for l in out.splitlines() if "error" in l][:3]
                rep.inconc("codec driver for %s does not compile under %s (a C07 matter): %s" % (p.schema.name, cfg, errs))
                continue
            self.items.append((p, cfg, exe))
        rep.cov["schemas"] = sorted({p.schema.name for p, _, _ in self.items})
        rep.cov["configs"] = sorted({str(cfg) for _, cfg, _ in self.items})

    def run_all(self, make_commands, check):
        """make_commands(prep) -> list of case dicts with 'id','cmd', ...; check(prep,cfg,case,lines)"""
        cases_by_schema = {}

        def one(item):
            p, cfg, exe = item
            if p.schema.name not in cases_by_schema:
                cases_by_schema[p.schema.name] = make_commands(p)
            cases = cases_by_schema[p.schema.name]
            res = codec.run_codec(exe, [(c["id"], c["cmd"]) for c in cases])
            return p, cfg, cases, res
        # command generation is deterministic per schema; do it up-front to avoid racing in threads
        for p in {id(p): p for p, _, _ in self.items}.values():
            cases_by_schema[p.schema.name] = make_commands(p)
        for p, cfg, cases, res in C.pmap(one, self.items):
            rep = self.rep
            byid = {c["id"]: c for c in cases}
            for cid, rc, tail in res.deaths:
                case = byid.get(cid)
                kind = "timeout" if rc == "timeout" else ("asan" if "AddressSanitizer" in tail else "crash")
                if "FATAL unexpected-fault" in tail:
                    kind = "fault-in-protected-memory"
                detail = ""
                mm = re.search(r"ERROR: AddressSanitizer: (\S+)", tail)
                if mm:
                    detail = ":" + mm.group(1)
                fn = re.search(r"#\d+ 0x[0-9a-f]+ in (sbepp::[\w:]+)", tail)
                # keys carry no case-specific numbers (DESIGN appendix C): "visit stop-at=39" -> "visit stop-at=N"
                site = fn.group(1) if fn else (re.sub(r"\d+", "N", case["what"]) if case else "driver")
                rep.violation(kind + detail, site, "%s/%s: driver died (rc=%s) in case %s: %s" % (
                    p.schema.name, cfg, rc, case["cmd"][:200] if case else cid, tail[-1200:]),
                    {"schema": p.schema.name, "schema_xml": p.xml, "config": str(cfg), "case": case["cmd"] if case else cid,
                     "output": tail})
            for msg_, f, line in res.ubsan:
                rep.violation("ubsan:" + msg_, f, "%s/%s: %s" % (p.schema.name, cfg, line),
                              {"schema": p.schema.name, "schema_xml": p.xml, "config": str(cfg), "report": line})
            for c in cases:
                lines = res.blocks.get(c["id"])
                if lines is None:
                    if not any(d[0] == c["id"] for d in res.deaths):
                        rep.inconc("%s/%s: case %s produced no log" % (p.schema.name, cfg, c["id"]))
                    continue
                check(p, cfg, c, lines)


def report_diff(rep, p, cfg, case, klass, expected, observed, extra=None):
    d = codec.first_diff(expected, observed)
    if d is None:
        return False
    i, e, o = d
    msg = case["msg"]
    ref = e if e != "<nothing>" else o
    site = codec.classify(p.model, msg, ref) if not ref.startswith("X ") else ref[2:]
    if o.startswith("X "):
        site = o[2:]
    replay = {"schema": p.schema.name, "schema_xml": p.xml, "config": str(cfg), "command": case["cmd"],
              "line_index": i, "expected": e, "observed": o, "message": msg.name,
              "how_to_run": "build the codec driver (vf/gen_driver.py) for this schema and feed the command on stdin"}
    if extra:
        replay.update(extra)
    rep.violation(klass, site, "%s/%s msg %s [%s]: expected `%s` observed `%s`" % (
        p.schema.name, cfg, msg.name, case["what"], e[:200], o[:200]), replay)
    return True


# ============================================================================ C01 / C17

def c01_main(prop="C01"):
    rep = Report(prop, "exploration")
    quick = rep.tier == "quick"
    schemas = codec.all_schemas(rep.tier, rep.seed, 2, 30)
    cfgs = codec.std_configs(rep.tier)
    nscripts = 6 if quick else 40
    ses = Session(rep, schemas, cfgs)
    only_headers = prop == "C17"
    if only_headers:
        schemas = schemas + [S.big_header_schema()]
        ses = Session(rep, schemas, cfgs)
        rep.rule("covering corpus (incl. the header-layout schemas: every unsigned width for every level-header member, "
                 "reordered members, gaps, extra members, ref-typed and optional-typed members, numGroups/"
                 "numVarDataFields) + seeded random schemas; per message: fill_message_header alone and followed by "
                 "fill_group_header of the first group with numInGroup in {0,1,2,max of its type,random}; plus every "
                 "fill_group_header performed while encoding full random messages (all levels). Oracle: whole arena "
                 "(pre-filled pattern) equals the pattern overlaid with the reference header bytes; returned view "
                 "address and size equal the level start / header size. distinct_nontrivial = distinct (schema, message, "
                 "level header) combinations filled.")
    else:
        rep.rule("covering corpus + seeded random schemas; per message %d encode scripts over random value trees "
                 "(boundary values per primitive, NaN payloads, group sizes 0..3, data lengths 0..9) in four forms: named "
                 "setters in schema order, by-tag setters in reverse field order, cursor setters, cursor+by-tag setters; "
                 "the arena is pre-filled with a seeded pattern and compared as a whole with the pattern overlaid by the "
                 "independent reference image; group-header addresses, cursor end and size_bytes are compared too. "
                 "distinct_nontrivial = distinct (schema, message, form, value-tree hash) whose image contains at least "
                 "one group entry or data byte or a composite." % nscripts)

    def make(p):
        m = p.model
        cases = []
        for mi, msg in enumerate(p.schema.messages):
            rng = C.rng_for(rep.seed, prop, p.schema.name, msg.name)
            if only_headers:
                hs = m.enc_size(m.header())
                bl = m.level_layout(msg)[2]
                ns = [0]
                if msg.groups:
                    num_prim = m.header_member(m.dimension(msg.groups[0]), "numInGroup")[1]
                    mx = 2 ** (8 * R.PRIM_SIZE[num_prim]) - 1
                    ns = [0, 1, 2, mx, rng.randrange(mx + 1)]
                if bl > (1 << 20) and msg.groups:
                    continue                      # the first group would sit gigabytes away
                for n in ns:
                    # a block of gigabytes is not allocated: the filler touches the header only, 64 bytes behind it are watched
                    ln = hs + min(bl, 64 if bl > (1 << 20) else bl) + (m.enc_size(m.dimension(msg.groups[0])) if msg.groups else 0) + 5
                    seed = rng.randrange(256)
                    cid = "h%d_%d" % (mi, len(cases))
                    cases.append(dict(id=cid, cmd="HDR %s %x %x %x %x" % (cid, mi, ln, seed, n), msg=msg, mi=mi, n=n, len=ln,
                                      seed=seed, what="fill headers numInGroup=%d" % n, kind="hdr"))
            for k in range(nscripts if not only_headers else max(2, nscripts // 3)):
                if getattr(p.schema, "headers_only", False):
                    break                         # 64-bit block lengths: nothing but headers can be written
                vals = R.gen_values(m, msg, rng, force=(k < 4), big_data=([2] if k == 1 else None))
                form = k % 4
                total = R.message_size(m, msg, vals)
                ln = total + rng.choice([0, 1, 7])
                seed = rng.randrange(256)
                toks = []
                G.enc_tokens(m, msg, vals, form, toks)
                cid = "e%d_%d" % (mi, len(cases))
                cases.append(dict(id=cid, cmd="ENC %s %x %x %x %x %s" % (cid, mi, form, ln, seed, " ".join(toks)),
                                  msg=msg, mi=mi, vals=vals, form=form, len=ln, seed=seed,
                                  what="encode form=%s" % G.ENC_FORMS[form], kind="enc"))
        return cases

    def check(p, cfg, case, lines):
        m = p.model
        msg = case["msg"]
        rep.evaluation()
        arena = [l for l in lines if l.startswith("ARENA ")]
        log = [l for l in lines if not l.startswith("ARENA ")]
        if case["kind"] == "hdr":
            hs = m.enc_size(m.header())
            bl = m.level_layout(msg)[2]
            img = R.Image()
            img.b = bytearray(G.prefill(case["seed"], case["len"]))
            hdr = m.header()
            R.put_header_member(m, img, 0, hdr, "blockLength", bl, "#hdr")
            R.put_header_member(m, img, 0, hdr, "templateId", msg.id, "#hdr")
            R.put_header_member(m, img, 0, hdr, "schemaId", m.s.id, "#hdr")
            R.put_header_member(m, img, 0, hdr, "version", m.s.version, "#hdr")
            R.put_header_member(m, img, 0, hdr, "numGroups", len(msg.groups), "#hdr")
            R.put_header_member(m, img, 0, hdr, "numVarDataFields", len(msg.data), "#hdr")
            exp_log = ["r #hdr 0"]
            rep.nontrivial(p.schema.name, msg.name, "#hdr")
            if msg.groups:
                g = msg.groups[0]
                dim = m.dimension(g)
                at = hs + bl
                R.put_header_member(m, img, at, dim, "blockLength", m.level_layout(g)[2], g.name)
                R.put_header_member(m, img, at, dim, "numInGroup", case["n"], g.name)
                R.put_header_member(m, img, at, dim, "numGroups", len(g.groups), g.name)
                R.put_header_member(m, img, at, dim, "numVarDataFields", len(g.data), g.name)
                exp_log += ["r %s %d" % (g.name, at), "z dimension_size %d" % m.enc_size(dim)]
                rep.nontrivial(p.schema.name, msg.name, g.name, case["n"] > 1)
            expected_arena = bytes(img.b)
            owner = img.owner
        else:
            pre = G.prefill(case["seed"], case["len"])
            (expected_arena, end), owner = R.encode_message(m, msg, case["vals"], prefill=pre)
            exp_log = expected_enc_log(m, msg, case["vals"], case["form"])
            v = case["vals"]
            if any(v.groups.get(g.name) for g in msg.groups) or any(v.data.values()) or len(exp_log) > 3:
                rep.nontrivial(p.schema.name, msg.name, case["form"], case["cmd"][-40:])
            if only_headers:
                for ln in exp_log:
                    if ln.startswith("r ") and not ln.startswith("r #hdr"):
                        rep.nontrivial(p.schema.name, msg.name, re.sub(r"\[\d+\]", "[]", ln.split(" ")[1]))
        if only_headers and case["kind"] == "enc":
            # C17 looks only at header bytes and returned addresses of this run
            exp_r = [l for l in exp_log if l.startswith("r ") or l.startswith("z #hdr")]
            obs_r = [l for l in log if l.startswith("r ") or l.startswith("z #hdr")]
            report_diff(rep, p, cfg, case, "header-mismatch", exp_r, obs_r)
            rep.count("header_fills", len(exp_r))
        else:
            if report_diff(rep, p, cfg, case, "value-mismatch", exp_log, log):
                return
            rep.count("log_lines_compared", len(exp_log))
        if not arena:
            rep.inconc("%s/%s: no ARENA line for %s" % (p.schema.name, cfg, case["id"]))
            return
        got = bytes.fromhex(arena[0].split(" ", 1)[1]) if len(arena[0]) > 6 else b""
        rep.count("bytes_compared", len(expected_arena))
        if only_headers and len(rep.cov["samples"]) < 5 and case["kind"] == "hdr" and msg.groups and got == expected_arena and case["n"] > 1:
            rep.sample({"schema": p.schema.name, "config": str(cfg), "message": msg.name, "numInGroup": case["n"],
                        "command": case["cmd"], "arena_after_fill": got.hex(), "returned": log})
        if only_headers and case["kind"] == "enc":
            # restrict the comparison to bytes owned by level headers
            idxs = [i for i, o in owner.items() if "#hdr" in o or "#dim" in o]
            bad = [i for i in idxs if i < len(got) and got[i] != expected_arena[i]]
            if bad:
                i = bad[0]
                rep.violation("header-mismatch", "header-byte:" + re.sub(r"\[\d+\]|\w+\.", "", owner[i]).split("#")[-1],
                              "%s/%s msg %s: header byte at offset %d (%s) is %02x, expected %02x" % (
                                  p.schema.name, cfg, msg.name, i, owner[i], got[i], expected_arena[i]),
                              {"schema": p.schema.name, "schema_xml": p.xml, "config": str(cfg), "command": case["cmd"],
                               "offset": i, "owner": owner[i]})
            return
        if got != expected_arena:
            n = min(len(got), len(expected_arena))
            i = next((j for j in range(n) if got[j] != expected_arena[j]), n)
            own = owner.get(i, "<gap/padding or beyond the message: must keep its previous value>")
            site = "byte-of:" + (codec.member_kind(m, msg, own.split("#")[0].rstrip(".")) if i in owner and not own.startswith("#")
                                 else ("level-header" if i in owner else "unowned-byte"))
            if i in owner and own.endswith("#len"):
                site = "byte-of:data-length"
            elif i in owner and "#dim" in own:
                site = "byte-of:group-dimension"
            rep.violation("value-mismatch" if i in owner else "overwrite", site,
                          "%s/%s msg %s [%s]: arena differs at offset %d (%s): got %s expected %s" % (
                              p.schema.name, cfg, msg.name, case["what"], i, own,
                              got[i:i + 8].hex(), expected_arena[i:i + 8].hex()),
                          {"schema": p.schema.name, "schema_xml": p.xml, "config": str(cfg), "command": case["cmd"],
                           "offset": i, "owner": own, "expected_arena": expected_arena.hex(), "observed_arena": got.hex()})
        elif len(rep.cov["samples"]) < 4 and case["kind"] == "enc" and len(expected_arena) > 30:
            rep.sample({"schema": p.schema.name, "config": str(cfg), "message": msg.name, "form": case["what"],
                        "command": case["cmd"][:300], "arena": got.hex()[:200]})

    ses.run_all(make, check)
    rep.assumptions += ["images stay inside the generator domain of DESIGN 2.2 (unsigned level headers, ids and block "
                        "lengths representable in their header members)",
                        "members are written in the documented in-order discipline"]
    return rep.finish()


# ============================================================================ C02 / C03 / C05 / C19

def _values_only(lines):
    return [l for l in lines if not (l.startswith("z ") or l.startswith("zt ") or l.startswith("zc "))]


def _sizes_only(lines):
    return [l for l in lines if l.startswith("z ") or l.startswith("zt ") or l.startswith("zc ")]


def dec_main(prop):
    rep = Report(prop, "exploration")
    quick = rep.tier == "quick"
    schemas = codec.all_schemas(rep.tier, rep.seed, 2, 30)
    if prop == "C05":
        # trait formulas take one count per group path, named after the `_`-joined path: a schema whose paths collide
        from .checks import c07
        schemas = schemas + [c07.path_concat_schema(), S.const_block_schema()]
    cfgs = codec.std_configs(rep.tier)
    nimg = {"C02": (5, 40), "C03": (6, 40), "C05": (5, 40), "C19": (3, 12)}[prop][0 if quick else 1]
    max_stops = 40 if quick else 400
    ses = Session(rep, schemas, cfgs)
    inflate = prop == "C03"
    rules = {
        "C02": "covering corpus + seeded random schemas; per message %d well-formed images produced by the independent "
               "python encoder from random value trees (boundary values, NaN payloads, group sizes 0..3, data 0..9 bytes); "
               "every value is read back four ways (named accessors, get_by_tag, cursor accessors, cursor+get_by_tag) from "
               "an exact-size heap copy under ASan and compared bit-exactly, constants included. Constant evaluation "
               "(C++20/23, both compilers): per message further images (exact and with inflated block lengths) are embedded "
               "as constexpr arrays and every encoded value is collected by the same random-access getters inside a "
               "constant expression, printed and compared with the value tree; the same collector also runs at run time. "
               "distinct_nontrivial = distinct (schema, message, image) with at least one group entry, data byte or "
               "composite (run-time and constexpr images counted separately)." % nimg,
        "C03": "as C02 but every level of every image gets an independent extra wire block length from {0,0,1,3,17} "
               "(root block, and each group occurrence separately, so a nested group may be longer in one parent entry "
               "than in another); filler bytes are a seeded pattern. Each image is decoded by random access (values and "
               "size_bytes of message/groups/entries/data/composites), by cursor (values, final cursor position) and by "
               "sbepp::visit with a recording visitor. distinct_nontrivial = distinct images with at least one level "
               "whose wire block length exceeds the compiled one." % (),
        "C05": "per message %d well-formed current-schema images: size_bytes of the message, header, every group, entry, "
               "data member and composite, composite_traits/data_traits sizes, size_bytes(m, cursor) after a full cursor "
               "traversal, message_traits::size_bytes(counts..., total_data) and group_traits::size_bytes for every "
               "top-level group are all compared with the sizes of the reference image; plus header-only views whose "
               "numInGroup x blockLength products reach 2^16..2^64 (see big_products). distinct_nontrivial = distinct "
               "(schema, message, image) with a group or data member, plus distinct big products." % nimg,
        "C19": "per message %d images (the last one with inflated wire block lengths): full visit, and one visit per stopping point k = 1..min(#callbacks, %d) with a "
               "recording visitor (callback kind, traits name of the callback's tag, value, order), both visit overloads; "
               "visit of every enum member value (known/unknown tag) and every set member (all choices in order); "
               "get_by_tag (plain and cursor overloads) against the value tree on the first and the inflated image of every message; the set_by_tag side is exercised by the cursor+tag encode form of C01 on the same drivers. "
               "distinct_nontrivial = distinct (schema, message, image, k)." % (nimg, max_stops),
    }
    rep.rule(rules[prop])

    def make(p):
        m = p.model
        cases = []
        for mi, msg in enumerate(p.schema.messages):
            rng = C.rng_for(rep.seed, prop, p.schema.name, msg.name)
            for k in range(nimg):
                # image 1: the first two <data> members with an 8/16-bit length type carry the largest valid length
                # C19: the last image of every message carries inflated wire block lengths (entries of constant-only or
                # empty groups then occupy bytes, which the visiting code has to step over -- seeded change C19-4)
                infl = inflate or (prop == "C19" and k == nimg - 1)
                vals = R.gen_values(m, msg, rng, inflate=infl, force=(k <= 1), big_data=([2] if k == 1 else None))
                if infl:
                    pre = bytes(rng.getrandbits(8) for _ in range(R.message_size(m, msg, vals)))
                    (arena, end), owner = R.encode_message(m, msg, vals, prefill=pre)
                    image = arena[:end]
                else:
                    image, owner = R.encode_message(m, msg, vals)
                hx = image.hex() or "-"
                base = dict(msg=msg, mi=mi, vals=vals, image=image)
                if prop in ("C02", "C03", "C05"):
                    modes = {"C02": (0, 1, 2, 3), "C03": (0, 2), "C05": (0, 2)}[prop]
                    for mode in modes:
                        cid = "d%d_%d" % (mi, len(cases))
                        cases.append(dict(base, id=cid, cmd="DEC %s %x %d %s" % (cid, mi, mode, hx), mode=mode, kind="dec",
                                          what="decode mode=%s" % G.DUMP_MODES[mode]))
                if prop == "C19" and k in (0, nimg - 1):
                    # get_by_tag behaves like the named accessors, also through the cursor overloads (whose position
                    # every following access depends on): the by-tag and cursor+by-tag decode modes on the first and
                    # on the inflated image (added after seeded change C19-5; the set_by_tag side is C01's cursor+tag form)
                    for mode in (1, 3):
                        cid = "d%d_%d" % (mi, len(cases))
                        cases.append(dict(base, id=cid, cmd="DEC %s %x %d %s" % (cid, mi, mode, hx), mode=mode, kind="dec",
                                          what="decode mode=%s" % G.DUMP_MODES[mode]))
                if prop == "C05" and not infl:
                    toks, exp = G.siz_tokens(m, msg, vals)
                    cid = "s%d_%d" % (mi, len(cases))
                    cases.append(dict(base, id=cid, cmd="SIZ %s %x %s" % (cid, mi, " ".join(toks)), kind="siz", exp=exp,
                                      what="trait sizes"))
                if prop in ("C03", "C19"):
                    cid = "v%d_%d" % (mi, len(cases))
                    cases.append(dict(base, id=cid, cmd="VIS %s %x -1 %s" % (cid, mi, hx), kind="vis", stop=-1, what="visit"))
                if prop == "C19":
                    total = sum(1 for l in G.expected_events(m, msg, vals) if G.is_event(l))
                    stops = list(range(1, total + 1))
                    if len(stops) > max_stops:
                        stops = sorted(set(stops[:max_stops // 2] + rng.sample(stops, max_stops // 2)))
                    for st in stops:
                        cid = "v%d_%d" % (mi, len(cases))
                        cases.append(dict(base, id=cid, cmd="VIS %s %x %d %s" % (cid, mi, st, hx), kind="vis", stop=st,
                                          what="visit stop-at=%d" % st))
                    cid = "x%d_%d" % (mi, len(cases))
                    cases.append(dict(base, id=cid, cmd="EVS %s %x 0 %s" % (cid, mi, hx), kind="evs", what="enum/set visit"))
        return cases

    def check(p, cfg, case, lines):
        m = p.model
        msg, vals = case["msg"], case["vals"]
        rep.evaluation()
        nontriv = any(vals.groups.get(g.name) for g in msg.groups) or any(vals.data.values()) or len(lines) > 12
        if case["kind"] == "dec":
            exp = G.expected_dec(m, msg, vals, case["mode"])
            if prop == "C02":
                exp, obs = _values_only(exp), _values_only(lines)
            elif prop == "C05":
                exp, obs = _sizes_only(exp), _sizes_only(lines) + [l for l in lines if l.startswith("X ")]
            else:
                obs = lines
            rep.count("lines_compared", len(exp))
            if prop == "C19":
                rep.count("by_tag_dumps")
            if not report_diff(rep, p, cfg, case, "value-mismatch" if prop != "C05" else "size-mismatch", exp, obs):
                if nontriv:
                    if prop == "C03":
                        if vals.extra or any(isinstance(k, tuple) and v for k, v in _all_extras(vals)):
                            rep.nontrivial(p.schema.name, msg.name, case["image"].hex())
                    else:
                        rep.nontrivial(p.schema.name, msg.name, case["image"].hex())
                if len(rep.cov["samples"]) < 4 and len(exp) > 8 and case["mode"] in (0, 2):
                    rep.sample({"schema": p.schema.name, "config": str(cfg), "message": msg.name, "what": case["what"],
                                "image": case["image"].hex()[:160], "first_lines": obs[:6]})
        elif case["kind"] == "siz":
            rep.count("trait_size_calls", len(case["exp"]))
            report_diff(rep, p, cfg, case, "size-mismatch", case["exp"], lines)
        elif case["kind"] == "vis":
            lines1, seen, total = G.expected_vis(m, msg, vals, case["stop"])
            exp = list(lines1) + ["zc events %d" % seen]
            if case["stop"] < 0 or case["stop"] > total:
                exp.append("zc cursor_end %d" % G.cursor_end(m, msg, vals))
            exp += lines1 + ["zc events2 %d" % seen]
            rep.count("visit_events", 2 * seen)
            if not report_diff(rep, p, cfg, case, "visit-mismatch", exp, lines):
                rep.nontrivial(p.schema.name, msg.name, case["image"].hex(), case["stop"])
                rep.count("stop_points", 1 if case["stop"] >= 0 else 0)
                if len(rep.cov["samples"]) < 4 and case["stop"] > 3:
                    rep.sample({"schema": p.schema.name, "config": str(cfg), "message": msg.name, "stop_at": case["stop"],
                                "callbacks_total": total, "last_lines": lines[max(0, seen - 2):seen + 2]})
        elif case["kind"] == "evs":
            exp = G.expected_evs(m, msg, vals)
            rep.count("enum_set_visits", len(exp))
            report_diff(rep, p, cfg, case, "visit-mismatch", exp, lines)

    ses.run_all(make, check)
    if prop == "C05":
        big_products(rep)
    if prop == "C02":
        constexpr_leg(rep, schemas)
    rep.assumptions += ["images are produced by the independent python encoder inside the generator domain (DESIGN 2.2)"]
    if prop == "C03":
        rep.assumptions += ["only well-formed extensions: every wire block length >= the compiled one, buffers complete"]
    return rep.finish()


def constexpr_leg(rep, schemas):
    """C02: the same getters in constant evaluation (C++20 and later), see vf/gen_cx.py."""
    from . import gen_cx as X
    quick = rep.tier == "quick"
    nimg = 2 if quick else 6
    cfgs = [build.Cfg("g++", "20", "O0"), build.Cfg("clang++", "20", "O0")]
    if not quick:
        cfgs += [build.Cfg("g++", "23", "plain"), build.Cfg("clang++", "23", "O0")]
    preps = [p for p in C.pmap(codec.prepare, schemas) if p.ok]
    jobs = []
    for p in preps:
        m = p.model
        cases = []
        for mi, msg in enumerate(p.schema.messages):
            rng = C.rng_for(rep.seed, "C02cx", p.schema.name, msg.name)
            for k in range(nimg):
                infl = k % 2 == 1
                vals = R.gen_values(m, msg, rng, max_group=2, max_data=6, inflate=infl, force=(k == 0))
                if infl:
                    pre = bytes(rng.getrandbits(8) for _ in range(R.message_size(m, msg, vals)))
                    (arena, end), _ = R.encode_message(m, msg, vals, prefill=pre)
                    image = bytes(arena[:end])
                else:
                    image, _ = R.encode_message(m, msg, vals)
                    image = bytes(image)
                if len(image) > 1500:
                    continue
                cases.append((mi, msg, vals, image, X.expected_sequence(m, msg, vals)))
        src = X.CxGen(p.schema).generate([(mi, image, len(exp)) for mi, _, _, image, exp in cases])
        for cfg in cfgs:
            jobs.append((p, cfg, cases, src))

    def one(job):
        p, cfg, cases, src = job
        ok, exe, out = build.compile_driver(src, cfg, inc_dirs=(p.gen["dir"],), dep_key=p.dep, name="cx-" + p.schema.package)
        if not ok:
            return job, False, out
        rc, o, e, to = C.run([exe], timeout=300)
        return job, True, (rc, o.decode(errors="replace"), to)

    for (p, cfg, cases, src), ok, res in C.pmap(one, jobs):
        if not ok:
            errs = [l.strip() for l in res.splitlines() if "error" in l][:3]
            key = re.sub(r"[^A-Za-z_:]+", "_", re.sub(r".*error: ", "", errs[0]))[:60] if errs else "?"
            rep.violation("not-a-constant-expression", key,
                          "%s/%s: a getter of an accepted schema is not usable in constant evaluation (or the constexpr "
                          "driver does not compile): %s" % (p.schema.name, cfg, errs),
                          {"schema": p.schema.name, "schema_xml": p.xml, "config": str(cfg), "errors": errs, "source_head": src[-3000:]})
            continue
        rc, out, to = res
        if rc != 0 or to:
            rep.inconc("%s/%s: constexpr driver exited rc=%s" % (p.schema.name, cfg, rc))
            continue
        got = {}
        for ln in out.splitlines():
            parts = ln.split(" ")
            if parts[0] in ("X", "R") and len(parts) >= 3:
                got[(parts[0], int(parts[1]))] = (int(parts[2]), [int(x, 16) for x in parts[3:]])
        for i, (mi, msg, vals, image, exp) in enumerate(cases):
            for tag, what in (("X", "constant evaluation"), ("R", "run time (same collector)")):
                rep.evaluation()
                g = got.get((tag, i))
                if g is None:
                    rep.inconc("%s/%s: no %s line for image %d" % (p.schema.name, cfg, tag, i))
                    continue
                n, seq = g
                rep.count("constexpr_values" if tag == "X" else "runtime_values_same_collector", len(seq))
                if n != len(exp) or seq != exp:
                    j = next((a for a in range(min(len(seq), len(exp))) if seq[a] != exp[a]), min(len(seq), len(exp)))
                    rep.violation("value-mismatch", "constexpr-getter" if tag == "X" else "collector-at-run-time",
                                  "%s/%s msg %s in %s: value #%d is %s, the encoder wrote %s (%d values observed, %d expected)" % (
                                      p.schema.name, cfg, msg.name, what, j, "%x" % seq[j] if j < len(seq) else "<missing>",
                                      "%x" % exp[j] if j < len(exp) else "<nothing>", n, len(exp)),
                                  {"schema": p.schema.name, "schema_xml": p.xml, "config": str(cfg), "message": msg.name,
                                   "image_hex": image.hex(), "expected": ["%x" % x for x in exp], "observed": ["%x" % x for x in seq]})
                elif tag == "X" and len(exp) > 6:
                    rep.nontrivial("cx", p.schema.name, msg.name, image.hex())
    rep.cov["constexpr_configs"] = [str(c) for c in cfgs]


def _all_extras(vals):
    out = []
    for k, v in vals.groups.items():
        if isinstance(k, tuple):
            out.append((k, v))
        else:
            for e in v:
                if e.extra:
                    out.append((("extra", k), e.extra))
                out += _all_extras(e)
    return out


def big_products(rep):
    """C05: numInGroup x blockLength products beyond 16/31/32 bits on header-only flat group views (unchecked build:
    nothing but the dimension is read).  Uses the C12 schema (one flat group per dimension type pair)."""
    from .checks import c12
    xml = c12.make_schema()
    gen = build.gen_headers(xml, "rel")
    if gen["rc"] != 0:
        raise C.HarnessError("sbeppc rejected the dimension matrix schema")
    cases = []
    for n in c12.TY:
        for b in c12.TY:
            nmax, bmax = 2 ** n - 1, 2 ** b - 1
            pairs = {(nmax, bmax), (nmax, 1), (1, bmax), (0, bmax), (nmax, 0), (min(nmax, 65535), min(bmax, 65535)),
                     (min(nmax, 65536), min(bmax, 65536)), (min(nmax, 2 ** 31), min(bmax, 2)), (min(nmax, 46341), min(bmax, 46341)),
                     (min(nmax, 2 ** 32 - 1), min(bmax, 2 ** 32 - 1)), (min(nmax, 2 ** 16 + 1), min(bmax, 2 ** 16 - 1))}
            for cnt, bl in sorted(pairs):
                # sizes up to 2^62: beyond that `address + size` itself cannot be represented (pointer
                # arithmetic overflow is outside what any size computation can promise)
                if cnt * bl < 2 ** 62:
                    cases.append((n, b, cnt, bl))
            if n + b >= 96:
                cases.append((n, b, min(nmax, 2 ** 32 - 1), min(bmax, 2 ** 29)))
                cases.append((n, b, min(nmax, 2 ** 31 + 1), min(bmax, 2 ** 30 + 3)))
    calls = ""
    for i, (n, b, cnt, bl) in enumerate(cases):
        calls += "    one<c12::messages::mf_%d_%d<char>, %d, %d>(%d, %dULL, %dULL);\n" % (n, b, n // 8, b // 8, i, cnt, bl)
    # trait-level formulas (compile-time counts): group_traits / message_traits size_bytes for a flat group and a
    # data-carrying group with compiled block length 64, per numInGroup width, with counts up to the type's maximum
    tcases = []
    for n in c12.TY:
        nmax = 2 ** n - 1
        for cnt in sorted({0, 1, min(nmax, 1000), min(nmax, 2 ** 16 - 1), min(nmax, 2 ** 16), min(nmax, 2 ** 25 - 1), min(nmax, 2 ** 25),
                           min(nmax, 2 ** 26), min(nmax, 2 ** 26 + 1), min(nmax, 10 ** 8), min(nmax, 2 ** 31 - 1), min(nmax, 2 ** 31),
                           min(nmax, 2 ** 32 - 1), min(nmax, 2 ** 40), min(nmax, 2 ** 55)}):
            tcases.append((n, cnt))
    for i, (n, cnt) in enumerate(tcases):
        calls += ("    std::printf(\"TRAIT %d flat_group=%%llu flat_message=%%llu data_group=%%llu data_message=%%llu\\n\", "
                  "(unsigned long long)sbepp::group_traits<c12::schema::messages::mt_%d::g>::size_bytes(static_cast<std::uint%d_t>(%dULL)), "
                  "(unsigned long long)sbepp::message_traits<c12::schema::messages::mt_%d>::size_bytes(static_cast<std::uint%d_t>(%dULL)), "
                  "(unsigned long long)sbepp::group_traits<c12::schema::messages::mtd_%d::g>::size_bytes(static_cast<std::uint%d_t>(%dULL), 5), "
                  "(unsigned long long)sbepp::message_traits<c12::schema::messages::mtd_%d>::size_bytes(static_cast<std::uint%d_t>(%dULL), 5));\n"
                  % (i, n, n, cnt, n, n, cnt, n, n, cnt, n, n, cnt))
    src = r'''
#include <c12/c12.hpp>
#include <cstdio>
#include <cstring>
static void put_le(unsigned char* p, int n, unsigned long long v) { for(int i = 0; i < n; i++) p[i] = (unsigned char)(v >> (8 * i)); }
template<typename Msg, int NB, int BB>
static void one(int id, unsigned long long cnt, unsigned long long bl)
{
    unsigned char buf[8 + 16 + 8];
    std::memset(buf, 0, sizeof buf);
    put_le(buf + 8, BB, bl);
    put_le(buf + 8 + BB, NB, cnt);
    Msg m{reinterpret_cast<char*>(buf), sizeof buf};
    auto g = m.g();
    std::printf("BIG %d group=%llu message=%llu size=%llu\n", id, (unsigned long long)sbepp::size_bytes(g),
                (unsigned long long)sbepp::size_bytes(m), (unsigned long long)g.size());
}
int main()
{
''' + calls + "    return 0;\n}\n"
    cfgs = [build.Cfg("g++", "17", "ubsan", defs=("SBEPP_DISABLE_ASSERTS",)), build.Cfg("clang++", "20", "ubsan", defs=("SBEPP_DISABLE_ASSERTS",)),
            build.Cfg("g++", "11", "plain", defs=("SBEPP_DISABLE_ASSERTS",))]
    for cfg in cfgs:
        ok, exe, out = build.compile_driver(src, cfg, inc_dirs=(gen["dir"],), dep_key=C.sha(xml), name="c05big")
        if not ok:
            raise C.HarnessError("big-product driver does not compile under %s: %s" % (cfg, out[-2000:]))
        rc, o, _, to = C.run([exe], timeout=300, env=build.drv_env())
        txt = o.decode(errors="replace")
        for msg_, f, line in build.ubsan_reports(txt):
            rep.violation("ubsan:" + msg_, f, "big products/%s: %s" % (cfg, line), {"config": str(cfg), "report": line})
        got = {int(mm.group(1)): (int(mm.group(2)), int(mm.group(3)), int(mm.group(4)))
               for mm in re.finditer(r"^BIG (\d+) group=(\d+) message=(\d+) size=(\d+)$", txt, re.M)}
        tgot = {int(mm.group(1)): tuple(int(x) for x in mm.groups()[1:])
                for mm in re.finditer(r"^TRAIT (\d+) flat_group=(\d+) flat_message=(\d+) data_group=(\d+) data_message=(\d+)$", txt, re.M)}
        for i, (n, cnt) in enumerate(tcases):
            rep.evaluation()
            if i not in tgot:
                rep.inconc("trait product case %d missing under %s" % (i, cfg))
                continue
            dim = (n + 16) // 8
            fg = dim + cnt * 64
            dg = dim + cnt * (64 + 1) + 5          # every entry: block + 1-byte length prefix; 5 payload bytes in total
            exp = (fg, 8 + fg, dg, 8 + dg)
            rep.count("trait_big_products", 4)
            if cnt * 64 >= 2 ** 16:
                rep.nontrivial("trait-big", n, cnt)
            if tgot[i] != exp:
                rep.violation("size-mismatch", "trait-size_bytes/big-product",
                              "%s: numInGroup(uint%d)=%d, compiled blockLength 64: group_traits/message_traits size_bytes "
                              "(flat group, flat message, data group, data message) = %s, expected %s" % (cfg, n, cnt, tgot[i], exp),
                              {"config": str(cfg), "num_type": n, "numInGroup": cnt, "schema_xml": xml, "observed": tgot[i], "expected": exp})
        for i, (n, b, cnt, bl) in enumerate(cases):
            rep.evaluation()
            if i not in got:
                rep.inconc("big product case %d missing under %s" % (i, cfg))
                continue
            dim = (n + b) // 8
            exp_g = dim + cnt * bl
            exp_m = 8 + exp_g
            if cnt * bl >= 2 ** 16:
                rep.nontrivial("big", n, b, cnt, bl)
            rep.count("big_products", 1)
            if got[i] != (exp_g, exp_m, cnt):
                rep.violation("size-mismatch", "flat-group-size_bytes/big-product",
                              "%s: numInGroup(uint%d)=%d x blockLength(uint%d)=%d: size_bytes(group)=%d expected %d; "
                              "size_bytes(message)=%d expected %d" % (cfg, n, cnt, b, bl, got[i][0], exp_g, got[i][1], exp_m),
                              {"config": str(cfg), "num_type": n, "bl_type": b, "numInGroup": cnt, "blockLength": bl,
                               "schema_xml": xml})
