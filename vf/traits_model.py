"""Expected output of the generic trait dump (rt/vrt_traits.hpp), computed from the schema model (C18)."""
from . import refmodel as R
from .schema import PRIM_SIZE

PRES = {"required": 0, "optional": 1, "constant": 2}


def hs(s):
    if s is None or s == "":
        return "-"
    return s.encode().hex()


def bits(p, text):
    return "%0*x" % (2 * PRIM_SIZE[p], R.literal_bits(p, text))


class TraitsModel:
    def __init__(self, schema):
        self.s = schema
        self.m = R.Model(schema)
        self.out = []

    def T(self, path, trait, value):
        self.out.append("T %s %s %s" % (path, trait, value))

    def opt(self, path, trait, v):
        self.T(path, trait, "-" if v is None else v)

    # ---- encodings.  `via` = the <ref> element through which the encoding is seen (traits inherit from the target)
    def enc(self, e, prefix, offset_in_comp, public, via=None):
        m = self.m
        tgt = m.deref(e)
        name = via.name if via is not None else e.name
        p = prefix + name
        since = (via.since if via is not None else tgt.since) or 0
        deprecated = via.deprecated if (via is not None and via.deprecated is not None) else tgt.deprecated
        if via is not None:
            off = offset_in_comp if offset_in_comp is not None else 0
        elif public:
            off = tgt.offset
        else:
            off = offset_in_comp if offset_in_comp is not None else tgt.offset
        if tgt.kind == "type":
            self.T(p, "kind", "type")
            self.T(p, "tagkinds", 1)
            self.T(p, "description", hs(tgt.description))
            self.T(p, "presence", PRES[tgt.eff_presence()])
            self.T(p, "primitive", tgt.prim)
            self.T(p, "length", tgt.eff_length())
            if not tgt.is_const():
                self.opt(p, "offset", off)
            self.T(p, "semantic_type", hs(tgt.semantic_type))
            self.T(p, "since", since)
            self.opt(p, "deprecated", deprecated)
            self.T(p, "character_encoding", hs(tgt.char_encoding))
            if tgt.eff_length() == 1 and not tgt.is_const():
                d = R.default_min_max_null(tgt.prim)
                n = 2 * PRIM_SIZE[tgt.prim]
                self.T(p, "min_value", bits(tgt.prim, tgt.min) if tgt.min is not None else "%0*x" % (n, d[0]))
                self.T(p, "max_value", bits(tgt.prim, tgt.max) if tgt.max is not None else "%0*x" % (n, d[1]))
                if tgt.eff_presence() == "optional":
                    self.T(p, "null_value", bits(tgt.prim, tgt.null) if tgt.null is not None else "%0*x" % (n, d[2]))
                else:
                    self.T(p, "null_value", "-")
            else:
                self.T(p, "min_value", "-")
                self.T(p, "max_value", "-")
                self.T(p, "null_value", "-")
            if tgt.is_const():
                # numeric constants have no traits_tag mapping; string constants are static_array_ref (generic mapping)
                rt = "plain:1" if tgt.eff_length() != 1 else "plain:-"
            elif tgt.is_array():
                rt = "tmpl:1"
            else:
                rt = "plain:1"
            if via is not None and rt.endswith(":1"):
                rt = rt[:-1] + "0"      # the value type maps back to the *referred* type's tag, not to the ref's
            self.T(p, "roundtrip", rt)
        elif tgt.kind == "enum":
            prim = m.enum_prim(tgt)
            self.T(p, "kind", "enum")
            self.T(p, "tagkinds", 2)
            self.T(p, "description", hs(tgt.description))
            self.T(p, "encoding", prim)
            self.opt(p, "offset", off)
            self.T(p, "since", since)
            self.opt(p, "deprecated", deprecated)
            self.T(p, "roundtrip", "plain:0" if via is not None else "plain:1")
            self.T(p, "underlying_ok", 1)
            self.T(p, "values", len(tgt.values))
            for v in tgt.values:
                vp = p + "." + v.name
                self.T(vp, "kind", "enum_value")
                self.T(vp, "tagkinds", 512)
                self.T(vp, "description", hs(v.description))
                self.T(vp, "since", v.since or 0)
                self.opt(vp, "deprecated", v.deprecated)
                b = (ord(v.value) if prim == "char" else int(v.value)) & ((1 << (8 * PRIM_SIZE[prim])) - 1)
                self.T(vp, "value", "%0*x" % (2 * PRIM_SIZE[prim], b))
        elif tgt.kind == "set":
            prim = m.set_prim(tgt)
            self.T(p, "kind", "set")
            self.T(p, "tagkinds", 4)
            self.T(p, "description", hs(tgt.description))
            self.T(p, "encoding", prim)
            self.opt(p, "offset", off)
            self.T(p, "since", since)
            self.opt(p, "deprecated", deprecated)
            self.T(p, "roundtrip", "plain:0" if via is not None else "plain:1")
            self.T(p, "choices", len(tgt.choices))
            for c in tgt.choices:
                cp = p + "." + c.name
                self.T(cp, "kind", "choice")
                self.T(cp, "tagkinds", 1024)
                self.T(cp, "description", hs(c.description))
                self.T(cp, "since", c.since or 0)
                self.opt(cp, "deprecated", c.deprecated)
                self.T(cp, "index", c.index)
        elif tgt.kind == "composite":
            lay, size = m.composite_layout(tgt)
            self.T(p, "kind", "composite")
            self.T(p, "tagkinds", 8)
            self.T(p, "description", hs(tgt.description))
            self.opt(p, "offset", off)
            self.T(p, "semantic_type", hs(tgt.semantic_type))
            self.T(p, "since", since)
            self.opt(p, "deprecated", deprecated)
            self.T(p, "size_bytes", size)
            self.T(p, "roundtrip", "tmpl:0" if via is not None else "tmpl:1")
            self.T(p, "elements", len(tgt.elements))
            for e2, off2 in lay:
                if e2.kind == "ref":
                    self.enc(m.find(e2.type), p + ".", off2, False, via=e2)
                else:
                    self.enc(e2, p + ".", off2, False)

    # ---- levels
    def level(self, lv, p):
        m = self.m
        self.T(p, "fields", len(lv.fields))
        self.T(p, "groups", len(lv.groups))
        self.T(p, "data", len(lv.data))
        for f, off in m.level_layout(lv)[0]:
            fp = p + "." + f.name
            enc = m.field_enc(f)
            pres = m.field_presence(f)
            self.T(fp, "kind", "field")
            self.T(fp, "tagkinds", 16)
            self.T(fp, "id", f.id)
            self.T(fp, "description", hs(f.description))
            self.T(fp, "presence", PRES[pres])
            if pres != "constant":
                self.T(fp, "offset", off)
            self.T(fp, "since", f.since or 0)
            self.opt(fp, "deprecated", f.deprecated)
            if pres == "constant":
                self.T(fp, "value_type_tag", "-")
                self.T(fp, "roundtrip", "-")
            elif enc is None:
                self.T(fp, "value_type_tag", "type:" + f.type)
                self.T(fp, "roundtrip", "plain:1")
            else:
                self.T(fp, "value_type_tag", "%s:%s" % (enc.kind, enc.name))
                tmpl = enc.kind == "composite" or (enc.kind == "type" and enc.is_array())
                self.T(fp, "roundtrip", "tmpl:1" if tmpl else "plain:1")
        for g in lv.groups:
            gp = p + "." + g.name
            dim = m.dimension(g)
            self.T(gp, "kind", "group")
            self.T(gp, "tagkinds", 32)
            self.T(gp, "id", g.id)
            self.T(gp, "description", hs(g.description))
            self.T(gp, "block_length", m.level_layout(g)[2])
            self.T(gp, "semantic_type", hs(g.semantic_type))
            self.T(gp, "since", g.since or 0)
            self.opt(gp, "deprecated", g.deprecated)
            self.T(gp, "dimension", dim.name)
            self.T(gp, "dimension_type_ok", 1)
            self.T(gp, "roundtrip_group", 1)
            self.T(gp, "roundtrip_entry", 1)
            self.T(gp, "is_group_view", 1)
            self.T(gp, "is_entry_view", 1)
            self.T(gp, "flat", 0 if (g.groups or g.data) else 1)
            self.level(g, gp)
        for d in lv.data:
            dp = p + "." + d.name
            comp = m.data_comp(d)
            le = comp.element("length")
            lt = m.deref(le)
            self.T(dp, "kind", "data")
            self.T(dp, "tagkinds", 64)
            self.T(dp, "id", d.id)
            self.T(dp, "description", hs(d.description))
            self.T(dp, "since", d.since or 0)
            self.opt(dp, "deprecated", d.deprecated)
            self.T(dp, "length_type", lt.name)
            self.T(dp, "length_primitive", lt.prim)
            self.T(dp, "length_type_ok", 1)
            self.T(dp, "element", m.data_elem_prim(d))
            self.T(dp, "is_data_view", 1)
            self.T(dp, "size_bytes_3", PRIM_SIZE[lt.prim] + 3)

    def message(self, msg):
        p = "msg:" + msg.name
        self.T(p, "kind", "message")
        self.T(p, "tagkinds", 128)
        self.T(p, "id", msg.id)
        self.T(p, "description", hs(msg.description))
        self.T(p, "block_length", self.m.level_layout(msg)[2])
        self.T(p, "semantic_type", hs(msg.semantic_type))
        self.T(p, "since", msg.since or 0)
        self.opt(p, "deprecated", msg.deprecated)
        self.T(p, "schema_tag_ok", 1)
        self.T(p, "roundtrip", 1)
        self.T(p, "is_message_view", 1)
        self.level(msg, p)


def expected(schema):
    """(schema lines, {type name: block lines} -- type_tags are documented as unordered, message lines)"""
    tm = TraitsModel(schema)
    s = schema
    m = tm.m
    tm.T("schema", "tagkinds", 256)
    tm.T("schema", "package", hs(s.package))
    tm.T("schema", "id", s.id)
    tm.T("schema", "version", s.version)
    tm.T("schema", "semantic_version", hs(s.semantic_version))
    tm.T("schema", "byte_order", "big" if s.big_endian() else "little")
    tm.T("schema", "description", hs(s.description))
    tm.T("schema", "header", m.header().name)
    tm.T("schema", "header_type_ok", 1)
    tm.T("schema", "types", len(s.types))
    tm.T("schema", "messages", len(s.messages))
    head = tm.out
    blocks = {}
    for t in s.types:
        tm.out = []
        tm.enc(t, "type:", None, True)
        blocks[t.name] = tm.out
    tm.out = []
    for msg in s.messages:
        tm.message(msg)
    return head, blocks, tm.out


def probes(schema):
    """[(C++ tag expression, path, expected kind mask, expected name)] for every entity, spelled from the model."""
    m = R.Model(schema)
    pkg = schema.package
    out = []
    KIND = {"type": 1, "enum": 2, "set": 4, "composite": 8}

    def enc(e, tag, path):
        tgt = m.deref(e)
        out.append((tag, path, KIND[tgt.kind], e.name))
        if tgt.kind == "enum":
            for v in tgt.values:
                if not (e.kind == "ref" and v.name == e.name):
                    out.append(("%s::%s" % (tag, v.name), path + "." + v.name, 512, v.name))
        elif tgt.kind == "set":
            for c in tgt.choices:
                if not (e.kind == "ref" and c.name == e.name):
                    out.append(("%s::%s" % (tag, c.name), path + "." + c.name, 1024, c.name))
        elif tgt.kind == "composite":
            for e2 in tgt.elements:
                if e.kind == "ref" and e2.name == e.name:
                    # reached through a <ref> the element tags are *inherited* (an undocumented convenience); an
                    # inherited member named like the ref's own tag is hidden by the injected class name.  Its
                    # documented path (through the referred composite) is probed where that composite is walked.
                    continue
                enc(e2, "%s::%s" % (tag, e2.name), path + "." + e2.name)

    for t in schema.types:
        enc(t, "::%s::schema::types::%s" % (pkg, t.name), "type:" + t.name)

    def level(lv, tag, path):
        for f in lv.fields:
            out.append(("%s::%s" % (tag, f.name), path + "." + f.name, 16, f.name))
            fe = m.field_enc(f)
            # members of the field's type are reachable through the field tag as well
            first = (fe.values if fe is not None and fe.kind == "enum" else fe.choices if fe is not None and fe.kind == "set"
                     else fe.elements if fe is not None and fe.kind == "composite" else [])
            if first and first[0].name == f.name:
                continue          # same injected-class-name situation as for refs above
            if fe is not None and fe.kind == "enum" and fe.values:
                out.append(("%s::%s::%s" % (tag, f.name, fe.values[0].name), path + "." + f.name + "." + fe.values[0].name, 512, fe.values[0].name))
            if fe is not None and fe.kind == "set" and fe.choices:
                out.append(("%s::%s::%s" % (tag, f.name, fe.choices[0].name), path + "." + f.name + "." + fe.choices[0].name, 1024, fe.choices[0].name))
            if fe is not None and fe.kind == "composite" and fe.elements:
                e0 = fe.elements[0]
                out.append(("%s::%s::%s" % (tag, f.name, e0.name), path + "." + f.name + "." + e0.name, KIND[m.deref(e0).kind], e0.name))
        for g in lv.groups:
            out.append(("%s::%s" % (tag, g.name), path + "." + g.name, 32, g.name))
            level(g, "%s::%s" % (tag, g.name), path + "." + g.name)
        for d in lv.data:
            out.append(("%s::%s" % (tag, d.name), path + "." + d.name, 64, d.name))

    for msg in schema.messages:
        tag = "::%s::schema::messages::%s" % (pkg, msg.name)
        out.append((tag, "msg:" + msg.name, 128, msg.name))
        level(msg, tag, "msg:" + msg.name)
    out.append(("::%s::schema" % pkg, "schema", 256, "?"))
    return out
