"""Violation keys, known-findings matching, replay files, evidence writer."""
import json
import os
import re
import sys
import time

from . import common as C

KNOWN_FILE = os.path.join(C.VERIF, "known_findings.txt")
LEVELS = {"exploration", "fault_enumeration", "model_checking", "proof", "translation_validation", "other"}


def load_known():
    """known_findings.txt: one entry per line
         known: property=<id> key=<key> :: <what fails>
         fixed: property=<id> <commit> key=<key> :: <what failed>
       Only `known:` entries suppress anything.  Never written at run time."""
    known = {}
    if os.path.exists(KNOWN_FILE):
        for ln in open(KNOWN_FILE):
            ln = ln.strip()
            m = re.match(r"known:\s+property=(\S+)\s+key=(\S+)\s*::\s*(.*)$", ln)
            if m:
                known[(m.group(1), m.group(2))] = m.group(3)
    return known


class Report:
    def __init__(self, prop, level, tier=None, seed=None):
        assert level in LEVELS
        self.prop = prop
        self.level = level
        self.tier = tier or os.environ.get("VERIF_TIER", "quick")
        if self.tier not in ("quick", "thorough"):
            self.tier = "quick"
        self.seed = C.seed_from_env() if seed is None else seed
        self.t = C.Timer()
        self.cov = {"evaluations": 0, "distinct_nontrivial": 0, "rule": "", "samples": []}
        self.assumptions = []
        self.violations = {}   # key -> (what, replay)
        self.counts = {}       # key -> occurrences
        self.inconclusive = []
        self._nontrivial = set()
        self.known = load_known()

    # ---- coverage helpers
    def count(self, name, n=1):
        self.cov[name] = self.cov.get(name, 0) + n

    def evaluation(self, n=1):
        self.cov["evaluations"] += n

    def nontrivial(self, *ident):
        self._nontrivial.add(C.sha(*[str(i) for i in ident])[:16])

    def sample(self, s, limit=6):
        if len(self.cov["samples"]) < limit:
            self.cov["samples"].append(s)

    def rule(self, txt):
        self.cov["rule"] = txt

    # ---- verdicts
    def violation(self, klass, site, what, replay=None):
        key = "%s|%s|%s" % (self.prop, klass, site)
        key = re.sub(r"\s+", "_", key)
        self.counts[key] = self.counts.get(key, 0) + 1
        if key not in self.violations:
            self.violations[key] = (what, replay or {})
        return key

    def inconc(self, why):
        self.inconclusive.append(why)

    # ---- finish
    def finish(self):
        self.cov["distinct_nontrivial"] = max(self.cov.get("distinct_nontrivial", 0), len(self._nontrivial))
        new = []
        for key, (what, replay) in sorted(self.violations.items()):
            k = (self.prop, key)
            if k in self.known:
                print("KNOWN-FINDING: property=%s %s -- %s (seen %d times this run)" % (
                    self.prop, key, self.known[k], self.counts[key]))
            else:
                path = self._write_replay(key, what, replay)
                print("VIOLATION property=%s replay=%s" % (self.prop, path))
                print("  key: %s\n  what: %s" % (key, what[:2000]))
                new.append(key)
        ev = {
            "property_id": self.prop,
            "tier": self.tier,
            "seed": self.seed,
            "level": self.level,
            "coverage": self.cov,
            "assumptions": self.assumptions,
            "wall_s": self.t.s(),
            "violations": len(new),
        }
        self.cov["known_findings_seen"] = sorted(k for k in self.violations if (self.prop, k) in self.known)
        if self.inconclusive:
            self.cov["inconclusive"] = self.inconclusive[:20]
        # VERIF_EVIDENCE_DIR: trial runs against seeded changes / coverage builds write elsewhere, so that the committed
        # evidence always comes from a run against /repo itself
        evdir = os.environ.get("VERIF_EVIDENCE_DIR") or os.path.join(C.VERIF, "evidence")
        C.write_file(os.path.join(evdir, self.prop + ".json"), json.dumps(ev, indent=1, default=str))
        sys.stdout.flush()
        if new:
            return 1
        if self.inconclusive:
            C.log("INCONCLUSIVE: " + "; ".join(self.inconclusive[:5]))
            return 2
        if self.cov["evaluations"] < 1 or self.cov["distinct_nontrivial"] < 2:
            C.log("INCONCLUSIVE: the run observed too little (evaluations=%s, distinct=%s)" % (
                self.cov["evaluations"], self.cov["distinct_nontrivial"]))
            return 2
        print("OK property=%s tier=%s seed=%d evaluations=%d distinct_nontrivial=%d wall=%.1fs" % (
            self.prop, self.tier, self.seed, self.cov["evaluations"], self.cov["distinct_nontrivial"], self.t.s()))
        return 0

    def _write_replay(self, key, what, replay):
        d = C.ensure_dir(os.path.join(C.VERIF, "replays", self.prop))
        name = re.sub(r"[^A-Za-z0-9_.-]+", "_", key)[:100] + "-" + C.sha(key)[:8] + ".json"
        path = os.path.join(d, name)
        body = {"property": self.prop, "key": key, "what": what, "seed": self.seed, "tier": self.tier,
                "how_to_run": "VERIF_SEED=%d /verif/vcheck %s --tier %s" % (self.seed, self.prop, self.tier)}
        body.update(replay)
        C.write_file(path, json.dumps(body, indent=1, default=str))
        return path
