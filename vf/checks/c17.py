"""C17 -- header fillers write exactly the schema's identifying values (see vf/codec_checks.py)."""
from ..codec_checks import c01_main


def main():
    return c01_main("C17")
