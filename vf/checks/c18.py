"""C18 -- traits and tags mirror the schema.

A generic trait dump (rt/vrt_traits.hpp) walks the tag lists themselves (schema_traits::type_tags /
message_tags, field_tags / group_tags / data_tags, element_tags, value_tags, choice_tags), prints
every documented trait member (optional ones through detection), the value_type <-> traits_tag round
trip and the set of tag-kind predicates that accept each tag; a second section probes every entity
through its *named* tag path spelled from the schema model.  The offline checker compares the dump
with the expectation computed from the schema model (vf/traits_model.py); public type blocks are
compared as a set (type_tags is documented as unordered), everything else in schema order.
"""
import re

from .. import build, codec, common as C, schema as S, traits_model as TM
from ..findings import Report


def make_driver(sc):
    pr = TM.probes(sc)
    body = "".join('    vt::probe<%s>("%s");\n' % (tag, path) for tag, path, _, _ in pr)
    return ('#include "vrt_traits.hpp"\n#include <%s/%s.hpp>\n\nint main()\n{\n    vt::dump_schema<::%s::schema>();\n'
            '    vrt::line("PROBES");\n%s    vrt::flush_out();\n    return 0;\n}\n' % (sc.package, sc.package, sc.package, body)), pr


def main():
    rep = Report("C18", "exploration")
    quick = rep.tier == "quick"
    schemas = S.corpus() + [S.corpus_attrs(), S.self_clash_schema()] + S.random_schemas(rep.seed, 3 if quick else 60) + S.clash_schemas(rep.seed, 2 if quick else 20)
    cfgs = [build.Cfg("g++", "17", "O0"), build.Cfg("clang++", "11", "O0")] if quick else \
        [build.Cfg("g++", "11", "O0"), build.Cfg("g++", "20", "O0"), build.Cfg("clang++", "14", "O0"), build.Cfg("clang++", "23", "O0")]
    rep.rule("covering corpus, the attribute-matrix schema (every entity kind x {no attributes, sinceVersion, sinceVersion + "
             "deprecated, description + semanticType}, refs and fields x versioned / unversioned targets), seeded random schemas (random descriptions, since/deprecated versions, presence overrides, "
             "custom offsets) and clash-pool schemas; per schema the complete generic trait dump (every trait of every "
             "entity reachable from the tag lists) and one named-path probe per entity are compared with the model. An "
             "evaluation is one trait value / probe compared; distinct_nontrivial = distinct (schema, entity path) whose "
             "expectation has at least one non-default trait (description, version, offset, deprecated, explicit range).")
    jobs = []
    for sc in schemas:
        p = codec.prepare(sc)
        if not p.ok:
            rep.inconc("sbeppc did not accept %s" % sc.name)
            continue
        src, pr = make_driver(sc)
        for cfg in cfgs:
            jobs.append((p, src, pr, cfg))

    def run(job):
        p, src, pr, cfg = job
        ok, exe, out = build.compile_driver(src, cfg, inc_dirs=(p.gen["dir"],), dep_key=p.dep, name="c18-" + p.schema.package)
        if not ok:
            return job, None, out
        rc, o, _, to = C.run([exe], timeout=300, env=build.drv_env())
        return job, (rc, to), o.decode(errors="replace")

    for (p, src, pr, cfg), st, out in C.pmap(run, jobs):
        name = p.schema.name
        if st is None:
            errs = [l for l in out.splitlines() if "error" in l]
            rep.violation("compile-error", "trait-dump/" + re.sub(r"‘[^’]*’|'[^']*'|\d+", "_", errs[0].split("error:")[-1] if errs else "?")[:60].strip().replace(" ", "_"),
                          "%s/%s: the trait dump does not compile (a documented trait member or tag path is missing): %s" % (
                              name, cfg, errs[0][:400] if errs else out[:300]),
                          {"schema": name, "schema_xml": p.xml, "config": str(cfg), "compiler_output": out[:6000]})
            continue
        rc, to = st
        if rc != 0 or to:
            rep.violation("crash", "trait-dump", "%s/%s: dump died rc=%s" % (name, cfg, rc), {"schema": name, "schema_xml": p.xml})
            continue
        lines = out.splitlines()
        head, blocks, msgs = TM.expected(p.schema)
        # split observed output
        try:
            pi = lines.index("PROBES")
        except ValueError:
            rep.inconc("%s/%s: no PROBES marker" % (name, cfg))
            continue
        dump, probes = lines[:pi], lines[pi + 1:]
        obs_head, obs_blocks, obs_msgs = [], {}, []
        cur = None
        stage = 0
        for ln in dump:
            if ln == "TYPE-BEGIN":
                cur = []
                stage = 1
            elif ln == "TYPE-END":
                key = cur[0].split(" ")[1][5:] if cur else "?"
                obs_blocks[key] = cur
                cur = None
                stage = 2
            elif cur is not None:
                cur.append(ln)
            elif stage == 0:
                obs_head.append(ln)
            else:
                obs_msgs.append(ln)

        def diff(exp, obs, what):
            rep.evaluation(len(exp))
            rep.count("traits_compared", len(exp))
            d = codec.first_diff(exp, obs)
            if d is None:
                return
            i, e, o = d
            ref = e if e != "<nothing>" else o
            parts = ref.split(" ")
            trait = parts[2] if len(parts) > 2 else "?"
            kind = "?"
            for back in range(i, -1, -1):
                cand = (exp[back] if back < len(exp) else "").split(" ")
                if len(cand) > 3 and cand[2] == "kind" and (ref.split(" ")[1].startswith(cand[1])):
                    kind = cand[3]
                    break
            rep.violation("trait-mismatch", "%s/%s" % (kind, trait),
                          "%s/%s [%s]: expected `%s` observed `%s`" % (name, cfg, what, e[:200], o[:200]),
                          {"schema": name, "schema_xml": p.xml, "config": str(cfg), "expected": e, "observed": o, "section": what,
                           "context": obs[max(0, i - 3):i + 3]})

        diff(head, obs_head, "schema")
        if sorted(blocks) != sorted(obs_blocks):
            rep.violation("trait-mismatch", "schema/type_tags", "%s/%s: type_tags enumerate %s, schema declares %s" % (
                name, cfg, sorted(obs_blocks)[:20], sorted(blocks)[:20]), {"schema": name, "schema_xml": p.xml})
        for tn in blocks:
            if tn in obs_blocks:
                diff(blocks[tn], obs_blocks[tn], "type " + tn)
                if any(" description " in l and not l.endswith(" -") for l in blocks[tn]) or any(" offset " in l and not l.endswith(" -") for l in blocks[tn]):
                    rep.nontrivial(name, "type", tn)
        diff(msgs, obs_msgs, "messages")
        for l in msgs:
            if (" description " in l or " deprecated " in l) and not l.endswith(" -") or (" since " in l and not l.endswith(" 0")):
                rep.nontrivial(name, l.split(" ")[1])
        exp_probes = ["P %s %d %s" % (path, kind, nm) for _, path, kind, nm in pr]
        rep.count("tags_probed", len(exp_probes))
        rep.evaluation(len(exp_probes))
        d = codec.first_diff(exp_probes, probes)
        if d is not None:
            i, e, o = d
            rep.violation("tag-mismatch", "named-tag-path/kind%s" % (e.split(" ")[2] if e != "<nothing>" else "?"),
                          "%s/%s: tag probe expected `%s` observed `%s`" % (name, cfg, e, o),
                          {"schema": name, "schema_xml": p.xml, "config": str(cfg)})
        if len(rep.cov["samples"]) < 3 and len(msgs) > 30:
            rep.sample({"schema": name, "config": str(cfg), "dump_excerpt": obs_msgs[:12], "probe_excerpt": probes[:4]})
    rep.cov["schemas"] = [s.name for s in schemas]
    rep.cov["configs"] = [str(c) for c in cfgs]
    rep.assumptions += ["a <ref> element's traits inherit from the referred type except name, offset and the versions given on "
                        "the ref itself (documented: there are no ref traits); offset of constants is not compared"]
    return rep.finish()
