"""C11 -- read-only views cannot mutate the buffer.

Static half (the compiler is the oracle, observed by *running* a generated probe): for every
generated view class of every schema a detection idiom is instantiated for every mutator (named
setters, set_by_tag, cursor setters with const / non-const cursors, fill_*_header, group
resize/clear, every array and <data> mutator incl. element assignment and raw()) x byte constness,
and for every view/cursor conversion.  The program prints the table; the checker demands *callable
iff everything is mutable* and *convertible iff towards more const*.  Rows that are SFINAE-visible
on a read-only view are re-checked with a real (negative) compile: only "compiles" is a violation.
Run-time half: all getters, size queries, iterator walks, cursor traversals, visits and
size_bytes_checked run over images placed in a PROT_READ arena through *mutable* view types (any
write faults) and through const views with a before/after comparison.
"""
import re

from .. import build, codec, common as C, gen_driver as G, refmodel as R, schema as S
from ..findings import Report

LIB_USE = {
    # detector -> statement on `v` (used for the confirming negative compile)
    "a_assign_string_cstr": 'v.assign_string("x");', "a_assign_string_mode": 'v.assign_string("x", sbepp::eos_null::none);',
    "a_assign_string_range": "{ std::string s; v.assign_string(s); }", "a_assign_range": "{ std::vector<typename V::value_type> s; v.assign_range(s); }",
    "a_fill": "v.fill(typename V::value_type{});", "a_assign_count": "v.assign(std::size_t(1), typename V::value_type{});",
    "a_assign_iter": "{ const typename V::value_type* q = nullptr; v.assign(q, q); }",
    "a_assign_ilist": "v.assign(std::initializer_list<typename V::value_type>{});", "a_elem_assign": "v[0] = typename V::value_type{};",
    "a_front_assign": "v.front() = typename V::value_type{};", "a_deref_begin_assign": "*v.begin() = typename V::value_type{};",
    "a_data_assign": "*v.data() = typename V::value_type{};",
    "a_raw_elem_assign": "v.raw()[0] = typename std::remove_cv<sbepp::byte_type_t<V>>::type{};",
    "d_clear": "v.clear();", "d_resize": "v.resize(1);", "d_resize_val": "v.resize(1, typename V::value_type{});",
    "d_resize_default": "v.resize(1, sbepp::default_init);", "d_push_back": "v.push_back(typename V::value_type{});",
    "d_pop_back": "v.pop_back();", "d_erase_pos": "v.erase(v.begin());", "d_erase_range": "v.erase(v.begin(), v.end());",
    "d_insert_val": "v.insert(v.begin(), typename V::value_type{});", "d_insert_count": "v.insert(v.begin(), 1, typename V::value_type{});",
    "d_insert_iter": "{ const typename V::value_type* q = nullptr; v.insert(v.begin(), q, q); }",
    "d_insert_ilist": "v.insert(v.begin(), std::initializer_list<typename V::value_type>{});",
    "d_assign_count": "v.assign(1, typename V::value_type{});", "d_assign_iter": "{ const typename V::value_type* q = nullptr; v.assign(q, q); }",
    "d_assign_ilist": "v.assign(std::initializer_list<typename V::value_type>{});", "d_assign_string": 'v.assign_string("x");',
    "d_assign_range": "{ std::vector<typename V::value_type> s; v.assign_range(s); }", "d_elem_assign": "v[0] = typename V::value_type{};",
    "d_front_assign": "v.front() = typename V::value_type{};", "d_back_assign": "v.back() = typename V::value_type{};",
    "d_data_assign": "*v.data() = typename V::value_type{};", "d_raw_clear": "v.raw().clear();",
    "g_resize": "v.resize(1);", "g_clear": "v.clear();", "g_fill_header": "sbepp::fill_group_header(v, 1);",
    "g_header_setter": "sbepp::get_header(v).numInGroup(1);", "m_fill_header": "sbepp::fill_message_header(v);",
    "m_header_setter": "sbepp::get_header(v).blockLength(1);",
}
ARRAY_OPS = [k for k in LIB_USE if k.startswith("a_")]
DATA_OPS = [k for k in LIB_USE if k.startswith("d_")]
GROUP_OPS = [k for k in LIB_USE if k.startswith("g_")]
MSG_OPS = [k for k in LIB_USE if k.startswith("m_")]


class ProbeGen:
    def __init__(self, schema):
        self.s = schema
        self.m = R.Model(schema)
        self.pkg = schema.package
        self.det = []        # detector definitions
        self.body = {"char": [], "const char": []}
        self.rows = {}       # (path, op, byte) -> (type_expr, statement)
        self.conv = []
        self.n = 0
        # documented tag path of every composite (types::<composite>[::<inline composite>...]); element tags are spelled
        # through it, not through the tag of the field/ref that leads there (those only inherit from it and a member
        # named like them is hidden by the injected class name)
        self.comp_tag = {}

        def walk(c, tag):
            self.comp_tag[id(c)] = tag
            for e in c.elements:
                if e.kind == "composite":
                    walk(e, tag + "::" + e.name)
        for ty in schema.types:
            if ty.kind == "composite":
                walk(ty, "::%s::schema::types::%s" % (self.pkg, ty.name))

    def uid(self):
        self.n += 1
        return self.n

    def value_members(self, vexpr, path, lay, tag_prefix, cursors, byte):
        """detectors for value-semantics members (scalar/enum/set) of a level or composite"""
        pass

    def member_rows(self, type_expr, byte, path, name, tag, cursors):
        k = self.uid()
        val = "std::declval<decltype(std::declval<V>().%s())>()" % name
        dets = [("set_named", "std::declval<V>().%s(%s)" % (name, val), "-", "v.%s(decltype(v.%s()){});" % (name, name)),
                ("set_by_tag", "sbepp::set_by_tag<%s>(std::declval<V>(), %s)" % (tag, val), "-",
                 "sbepp::set_by_tag<%s>(v, decltype(v.%s()){});" % (tag, name))]
        if cursors:
            dets += [
                ("set_cursor_m", "std::declval<V>().%s(%s, std::declval<sbepp::cursor<char>&>())" % (name, val), "m",
                 "{ sbepp::cursor<char> c; v.%s(decltype(v.%s()){}, c); }" % (name, name)),
                ("set_cursor_c", "std::declval<V>().%s(%s, std::declval<sbepp::cursor<const char>&>())" % (name, val), "c",
                 "{ sbepp::cursor<const char> c; v.%s(decltype(v.%s()){}, c); }" % (name, name)),
                ("set_by_tag_cursor_m", "sbepp::set_by_tag<%s>(std::declval<V>(), %s, std::declval<sbepp::cursor<char>&>())" % (tag, val), "m",
                 "{ sbepp::cursor<char> c; sbepp::set_by_tag<%s>(v, decltype(v.%s()){}, c); }" % (tag, name)),
                ("set_by_tag_cursor_c", "sbepp::set_by_tag<%s>(std::declval<V>(), %s, std::declval<sbepp::cursor<const char>&>())" % (tag, val), "c",
                 "{ sbepp::cursor<const char> c; sbepp::set_by_tag<%s>(v, decltype(v.%s()){}, c); }" % (tag, name)),
                ("set_cursor_dont_move_m", "std::declval<V>().%s(%s, sbepp::cursor_ops::dont_move(std::declval<sbepp::cursor<char>&>()))" % (name, val), "m",
                 "{ sbepp::cursor<char> c; v.%s(decltype(v.%s()){}, sbepp::cursor_ops::dont_move(c)); }" % (name, name)),
                ("set_cursor_init_c", "std::declval<V>().%s(%s, sbepp::cursor_ops::init(std::declval<sbepp::cursor<const char>&>()))" % (name, val), "c",
                 "{ sbepp::cursor<const char> c; v.%s(decltype(v.%s()){}, sbepp::cursor_ops::init(c)); }" % (name, name)),
                ("get_cursor_m", "std::declval<V>().%s(std::declval<sbepp::cursor<char>&>())" % name, "gm",
                 "{ sbepp::cursor<char> c; (void)v.%s(c); }" % name),
                ("get_cursor_c", "std::declval<V>().%s(std::declval<sbepp::cursor<const char>&>())" % name, "gc",
                 "{ sbepp::cursor<const char> c; (void)v.%s(c); }" % name)]
        for op, expr, cur, stmt in dets:
            dn = "det_%d_%s" % (k, op)
            self.det.append("VRO_DETECT(%s, %s)" % (dn, expr))
            self.body[byte].append('    vro::C("%s.%s", "%s", "%s", "%s", %s<%s>::value);' % (
                path, name, op, "1" if byte == "char" else "0", cur, dn, type_expr))
            self.rows[(path + "." + name, op, byte)] = (type_expr, stmt)

    WRAP = [("plain", "%s"), ("init", "sbepp::cursor_ops::init(%s)"), ("dont_move", "sbepp::cursor_ops::dont_move(%s)"),
            ("init_dont_move", "sbepp::cursor_ops::init_dont_move(%s)")]

    def view_through_cursor_rows(self, type_expr, byte, path, name):
        """the view a cursor accessor of a view-typed member yields must be read-only as soon as the enclosing view or the
        cursor is: one row per wrapper x cursor byte type"""
        k = self.uid()
        for wn, wfmt in self.WRAP:
            for cb, cn in (("char", "1"), ("const char", "0")):
                dn = "rb_%d_%s_%s" % (k, wn, "m" if cn == "1" else "c")
                expr = "std::declval<V>().%s(%s)" % (name, wfmt % ("std::declval<sbepp::cursor<%s>&>()" % cb))
                self.det.append("VRO_RESULT_BYTE(%s, %s)" % (dn, expr))
                self.body[byte].append('    vro::B("%s.%s", "%s", "%s", "%s", %s<%s>::value);' % (
                    path, name, wn, "1" if byte == "char" else "0", cn, dn, type_expr))

    def lib_rows(self, fn, ops, type_expr, byte, path):
        self.body[byte].append('    vro::%s<%s>("%s");' % (fn, type_expr, path))
        for op in ops:
            self.rows[(path, op, byte)] = (type_expr, LIB_USE[op])

    def composite(self, comp, type_expr, byte, path, tag):
        tag = self.comp_tag.get(id(comp), tag)
        for e, off in self.m.composite_layout(comp)[0]:
            if off is None:
                continue
            tgt = self.m.deref(e)
            sub = "decltype(std::declval<%s>().%s())" % (type_expr, e.name)
            if tgt.kind == "composite":
                self.composite(tgt, sub, byte, path + "." + e.name, "%s::%s" % (tag, e.name))
            elif tgt.kind == "type" and tgt.is_array():
                self.lib_rows("probe_array", ARRAY_OPS, sub, byte, path + "." + e.name)
            else:
                self.member_rows(type_expr, byte, path, e.name, "%s::%s" % (tag, e.name), False)

    def level(self, lv, type_expr, byte, path, tag, is_msg):
        if is_msg:
            self.lib_rows("probe_message", MSG_OPS, type_expr, byte, path)
        for f, off in self.m.level_layout(lv)[0]:
            if off is None:
                continue
            enc = self.m.field_enc(f)
            sub = "decltype(std::declval<%s>().%s())" % (type_expr, f.name)
            if enc is not None and enc.kind == "composite":
                self.composite(enc, sub, byte, path + "." + f.name, "%s::%s" % (tag, f.name))
                self.view_through_cursor_rows(type_expr, byte, path, f.name)
            elif enc is not None and enc.kind == "type" and enc.is_array():
                self.lib_rows("probe_array", ARRAY_OPS, sub, byte, path + "." + f.name)
                self.view_through_cursor_rows(type_expr, byte, path, f.name)
            else:
                self.member_rows(type_expr, byte, path, f.name, "%s::%s" % (tag, f.name), True)
        for g in lv.groups:
            gt = "decltype(std::declval<%s>().%s())" % (type_expr, g.name)
            self.lib_rows("probe_group", GROUP_OPS, gt, byte, path + "." + g.name)
            self.view_through_cursor_rows(type_expr, byte, path, g.name)
            self.level(g, "typename %s::value_type" % gt if False else "%s::value_type" % gt, byte, path + "." + g.name + "[]",
                       "%s::%s" % (tag, g.name), False)
        for d in lv.data:
            dt = "decltype(std::declval<%s>().%s())" % (type_expr, d.name)
            self.lib_rows("probe_data", DATA_OPS, dt, byte, path + "." + d.name)
            self.view_through_cursor_rows(type_expr, byte, path, d.name)

    def comp_conversions(self, comp, mexpr, cexpr, path):
        """views nested inside a composite view: composite and array elements, recursively"""
        for e, off in self.m.composite_layout(comp)[0]:
            tgt = self.m.deref(e)
            if off is None or not (tgt.kind == "composite" or (tgt.kind == "type" and tgt.is_array())):
                continue
            em = "decltype(std::declval<%s>().%s())" % (mexpr, e.name)
            ec = "decltype(std::declval<%s>().%s())" % (cexpr, e.name)
            self.conv.append('    vro::probe_conv<%s, %s>("%s.%s");' % (em, ec, path, e.name))
            if tgt.kind == "composite":
                self.comp_conversions(tgt, em, ec, path + "." + e.name)

    def conversions(self, lv, mexpr, cexpr, path):
        self.conv.append('    vro::probe_conv<%s, %s>("%s");' % (mexpr, cexpr, path))
        if path.count(".") == 0 and "[]" not in path:
            # the message header view
            self.conv.append('    vro::probe_conv<decltype(sbepp::get_header(std::declval<%s>())), decltype(sbepp::get_header(std::declval<%s>()))>("%s.#header");'
                             % (mexpr, cexpr, path))
        for f, off in self.m.level_layout(lv)[0]:
            enc = self.m.field_enc(f)
            if off is not None and enc is not None and (enc.kind == "composite" or (enc.kind == "type" and enc.is_array())):
                self.conv.append('    vro::probe_conv<decltype(std::declval<%s>().%s()), decltype(std::declval<%s>().%s())>("%s.%s");' % (
                    mexpr, f.name, cexpr, f.name, path, f.name))
                if enc.kind == "composite":
                    self.comp_conversions(enc, "decltype(std::declval<%s>().%s())" % (mexpr, f.name),
                                          "decltype(std::declval<%s>().%s())" % (cexpr, f.name), path + "." + f.name)
        for g in lv.groups:
            gm = "decltype(std::declval<%s>().%s())" % (mexpr, g.name)
            gc = "decltype(std::declval<%s>().%s())" % (cexpr, g.name)
            self.conv.append('    vro::probe_conv<%s, %s>("%s.%s");' % (gm, gc, path, g.name))
            self.conv.append('    vro::probe_conv<decltype(sbepp::get_header(std::declval<%s>())), decltype(sbepp::get_header(std::declval<%s>()))>("%s.%s.#dimension");'
                             % (gm, gc, path, g.name))
            self.conversions(g, gm + "::value_type", gc + "::value_type", path + "." + g.name + "[]")
        for d in lv.data:
            self.conv.append('    vro::probe_conv<decltype(std::declval<%s>().%s()), decltype(std::declval<%s>().%s())>("%s.%s");' % (
                mexpr, d.name, cexpr, d.name, path, d.name))

    def generate(self):
        for msg in self.s.messages:
            tag = "::%s::schema::messages::%s" % (self.pkg, msg.name)
            for byte in ("char", "const char"):
                te = "::%s::messages::%s<%s>" % (self.pkg, msg.name, byte)
                self.level(msg, te, byte, msg.name, tag, True)
            self.conversions(msg, "::%s::messages::%s<char>" % (self.pkg, msg.name), "::%s::messages::%s<const char>" % (self.pkg, msg.name), msg.name)
        src = ('#include "vrt_ro.hpp"\n#include <%s/%s.hpp>\n\nnamespace vro\n{\n%s\n}\nusing namespace vro;\n\n'
               'static void run_mutable()\n{\n%s\n}\nstatic void run_const()\n{\n%s\n}\nstatic void run_conv()\n{\n'
               '    vro::probe_conv<sbepp::cursor<char>, sbepp::cursor<const char>>("cursor");\n%s\n}\n'
               'int main()\n{\n    run_mutable();\n    run_const();\n    run_conv();\n    vrt::flush_out();\n    return 0;\n}\n') % (
                   self.pkg, self.pkg, "\n".join(self.det), "\n".join(self.body["char"]), "\n".join(self.body["const char"]),
                   "\n".join(self.conv))
        return src


def expected_callable(op, byte_mutable, cur):
    if op in ("set_cursor_c", "set_by_tag_cursor_c", "set_cursor_init_c"):
        return False                       # a const cursor never writes
    if op == "get_cursor_c":
        return True                        # reading with a more-const cursor is always fine
    return byte_mutable                    # everything else: only through a mutable view (a mutable cursor cannot bind a const view)


def main():
    rep = Report("C11", "exploration")
    quick = rep.tier == "quick"
    schemas = S.corpus()[::2] + S.random_schemas(rep.seed, 2 if quick else 30)
    if not quick:
        schemas = S.corpus() + schemas[3:] + S.clash_schemas(rep.seed, 6)
    cfgs = [build.Cfg("g++", "17", "O0"), build.Cfg("clang++", "11", "O0")] if quick else \
        [build.Cfg("g++", "11", "O0"), build.Cfg("g++", "14", "O0"), build.Cfg("g++", "20", "O0"), build.Cfg("clang++", "17", "O0"),
         build.Cfg("clang++", "23", "O0")]
    rep.rule("per schema (corpus + seeded random): one detection row per (generated view class member, mutator form, byte "
             "constness[, cursor constness]) -- named setter, set_by_tag, cursor setters with mutable/const/dont_move/init "
             "cursors, cursor getters, fill_message_header, fill_group_header, header setters through get_header, group "
             "resize/clear, 13 array mutators, 22 <data> mutators -- plus 4 conversion rows per view type pair and cursor; "
             "run-time: all decode modes, visit and size_bytes_checked over PROT_READ images through mutable view types. "
             "distinct_nontrivial = distinct (schema, view path, operation) rows on read-only views (the ones that must be "
             "rejected) plus read-only runs that traversed at least one group or data member.")
    preps = [p for p in (codec.prepare(sc) for sc in schemas) if p.ok]
    jobs = []
    gens = {}
    for p in preps:
        g = ProbeGen(p.schema)
        src = g.generate()
        gens[p.schema.name] = g
        for cfg in cfgs:
            jobs.append((p, g, src, cfg))

    def run(job):
        p, g, src, cfg = job
        ok, exe, out = build.compile_driver(src, cfg, inc_dirs=(p.gen["dir"],), dep_key=p.dep, name="c11-" + p.schema.package)
        if not ok:
            return job, None, out
        rc, o, _, to = C.run([exe], timeout=300)
        return job, (rc, to), o.decode(errors="replace")

    suspects = []
    for (p, g, src, cfg), st, out in C.pmap(run, jobs):
        name = p.schema.name
        if st is None:
            errs = [l for l in out.splitlines() if "error" in l]
            rep.inconc("C11 probe for %s does not compile under %s: %s" % (name, cfg, errs[:2]))
            continue
        seen = set()
        for ln in out.splitlines():
            parts = ln.split(" ")
            if parts[0] == "C" and len(parts) == 6:
                _, path, op, mut, cur, callable_ = parts
                rep.evaluation()
                byte = "char" if mut == "1" else "const char"
                seen.add((path, op, byte))
                exp = expected_callable(op, mut == "1", cur)
                if mut == "0" or cur == "c":
                    rep.nontrivial(name, path, op, byte)
                rep.count("probes")
                if (callable_ == "1") != exp:
                    if callable_ == "1":
                        suspects.append((p, cfg, path, op, byte))
                    else:
                        rep.violation("mutator-missing-on-mutable-view", re.sub(r"det_\d+_", "", op),
                                      "%s/%s: %s %s is not callable although view and cursor are mutable" % (name, cfg, path, op),
                                      {"schema": name, "schema_xml": p.xml, "config": str(cfg), "row": ln})
            elif parts[0] == "B" and len(parts) == 6:
                _, path, wrapper, vmut, cmut, res = parts
                rep.evaluation()
                rep.count("view_through_cursor_rows")
                res = int(res)
                if res == -1:
                    rep.count("view_through_cursor_not_callable")
                if vmut == "0" or cmut == "0":
                    rep.nontrivial(name, path, "view-through-cursor", wrapper, vmut, cmut)
                    if res == 0:
                        rep.violation("mutable-view-through-read-only-access", "view-through-cursor/" + wrapper,
                                      "%s/%s: %s obtained with the %s cursor form yields a view over *mutable* bytes although the %s "
                                      "is read-only" % (name, cfg, path, wrapper, "enclosing view" if vmut == "0" else "cursor"),
                                      {"schema": name, "schema_xml": p.xml, "config": str(cfg), "row": ln})
                elif res != 0:
                    rep.violation("mutator-missing-on-mutable-view", "view-through-cursor/" + wrapper,
                                  "%s/%s: %s obtained with the %s cursor form from a mutable view and cursor is %s" % (
                                      name, cfg, path, wrapper, "not callable" if res == -1 else "read-only"),
                                  {"schema": name, "schema_xml": p.xml, "config": str(cfg), "row": ln})
            elif parts[0] == "V" and len(parts) == 4:
                rep.evaluation()
                rep.count("conversion_rows")
                exp = "1" if parts[2] == "mutable->const" else "0"
                if parts[3] != exp:
                    rep.violation("conversion", parts[2], "%s/%s: %s %s is %s" % (name, cfg, parts[1], parts[2], parts[3]),
                                  {"schema": name, "schema_xml": p.xml, "config": str(cfg), "row": ln})
        missing = set(g.rows) - seen
        if missing:
            rep.inconc("%s/%s: %d expected probe rows were not printed, e.g. %s" % (name, cfg, len(missing), sorted(missing)[:2]))
        if len(rep.cov["samples"]) < 3:
            rep.sample({"schema": name, "config": str(cfg), "rows": [l for l in out.splitlines() if " 0 " in l][:6]})

    # ---- confirm suspects with a real negative compile: only "compiles" is a violation
    def confirm(t):
        p, cfg, path, op, byte = t
        te, stmt = gens[p.schema.name].rows[(path, op, byte)]
        src = ('#include <sbepp/sbepp.hpp>\n#include <%s/%s.hpp>\n#include <string>\n#include <vector>\n'
               'using V = %s;\nvoid use(V& v);\nvoid use(V& v)\n{\n    %s\n}\nint main() { return 0; }\n') % (
                   p.schema.package, p.schema.package, te, stmt)
        ok, _, out = build.compile_driver(src, cfg, inc_dirs=(p.gen["dir"],), dep_key=p.dep, name="c11n", syntax_only=True)
        return t, ok, src, out

    for (p, cfg, path, op, byte), ok, src, out in C.pmap(confirm, suspects):
        rep.count("negative_compiles")
        rep.evaluation()
        if ok:
            rep.violation("mutator-compiles-on-read-only", re.sub(r"det_\d+_", "", op),
                          "%s/%s: %s on a view/cursor that is not fully mutable (%s byte) compiles: %s" % (
                              p.schema.name, cfg, op, byte, path),
                          {"schema": p.schema.name, "schema_xml": p.xml, "config": str(cfg), "path": path, "operation": op,
                           "byte_type": byte, "program": src})
        else:
            rep.count("sfinae_visible_but_hard_error")

    # ---- run-time half: read-only arena, mutable view types
    ro_cfgs = [build.Cfg("g++", "17", "plain", defs=("VRT_RO_ARENA",))] if quick else \
        [build.Cfg("g++", "17", "plain", defs=("VRT_RO_ARENA",)), build.Cfg("clang++", "20", "plain", defs=("VRT_RO_ARENA",)),
         build.Cfg("g++", "11", "O0", defs=("VRT_RO_ARENA",))]
    from ..codec_checks import Session
    ses = Session(rep, [p.schema for p in preps], ro_cfgs)
    nimg = 3 if quick else 12

    def make(p):
        m = p.model
        cases = []
        for mi, msg in enumerate(p.schema.messages):
            rng = C.rng_for(rep.seed, "C11", p.schema.name, msg.name)
            for k in range(nimg):
                vals = R.gen_values(m, msg, rng, force=(k == 0))
                image, _ = R.encode_message(m, msg, vals)
                hx = image.hex() or "-"
                base = dict(msg=msg, vals=vals, image=image)
                for mode in (0, 1, 2, 3):
                    cid = "d%d_%d" % (mi, len(cases))
                    cases.append(dict(base, id=cid, cmd="DEC %s %x %d %s" % (cid, mi, mode, hx), kind="dec", mode=mode, what="read-only decode"))
                cid = "v%d_%d" % (mi, len(cases))
                cases.append(dict(base, id=cid, cmd="VIS %s %x -1 %s" % (cid, mi, hx), kind="vis", what="read-only visit"))
                cid = "x%d_%d" % (mi, len(cases))
                cases.append(dict(base, id=cid, cmd="EVS %s %x 0 %s" % (cid, mi, hx), kind="evs", what="read-only enum/set visit"))
        return cases

    def check(p, cfg, case, lines):
        rep.evaluation()
        rep.count("readonly_ops", len(lines))
        for l in lines:
            if l.startswith("X ") or l.startswith("FATAL"):
                rep.violation("write-through-read-only-operation", l[2:40].replace(" ", "_"),
                              "%s/%s: %s during %s" % (p.schema.name, cfg, l, case["cmd"][:120]),
                              {"schema": p.schema.name, "schema_xml": p.xml, "config": str(cfg), "command": case["cmd"]})
        if case["kind"] == "dec":
            exp = G.expected_dec(p.model, case["msg"], case["vals"], case["mode"])
            from ..codec_checks import report_diff
            report_diff(rep, p, cfg, case, "value-mismatch", exp, lines)
            v = case["vals"]
            if any(v.groups.get(g.name) for g in case["msg"].groups) or any(v.data.values()):
                rep.nontrivial(p.schema.name, case["msg"].name, case["image"].hex(), case["mode"])

    ses.run_all(make, check)
    rep.assumptions += ["'rejected at compile time' includes hard errors: a detector that says callable on a read-only view is "
                        "confirmed by compiling the call", "iterators of const and mutable views are distinct types and are not "
                        "required to convert"]
    return rep.finish()
