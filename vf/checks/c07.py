"""C07 -- accepted schemas yield compilable, name-preserving headers.

The deciding oracle is the compiler's exit status on the output of a real sbeppc run (the
property's own observation point): for every schema sbeppc accepts, (a) every generated header is
compiled on its own, (b) a generated touch-everything TU (the codec driver of vf/gen_driver.py,
which names every message, field, group, data member, composite element, constant, tag path,
by-tag accessor, cursor accessor, visitor entry point and trait size function through its
*unmodified schema name*) is compiled.  Workload: covering corpus, seeded random schemas, schemas
whose names all come from a clash pool, special-purpose schemas (all presence/min/max/null
combinations, sets with every index, 16 dimension pairs, hostile text, library-member names).
"""
import os
import re

from .. import refmodel as R, build, codec, common as C, gen_driver as G, schema as S
from ..findings import Report


def hostile_text_schema():
    s = S.corpus_layout("hostile")
    s.name = "hostile_text"
    s.description = 'say "hi" \\ back\\slash'
    s.semantic_version = 'v"1"'
    s.types.append(S.Type("Q", "uint8", description='a "quoted" description', semantic_type='sem\\type', char_encoding='enc"x'))
    s.types.append(S.Enum("EQ", "char", [S.EnumValue("quote", "'"), S.EnumValue("bslash", "\\"), S.EnumValue("dq", '"')],
                          description="new\nline"))
    s.types.append(S.Type("CQ", "char", presence="constant", const="'"))
    s.types.append(S.Type("CB", "char", presence="constant", const="\\"))
    s.types.append(S.Type("CS", "char", presence="constant", const='a"b\\c'))
    s.messages[1].description = 'msg "descr"'
    # `??x` sequences are trigraphs under -std=c++11/14: `??/` would become a backslash in front of the closing quote
    s.types.append(S.Type("TG", "uint8", description='what??/', semantic_type="??=??(??)", char_encoding="??'"))
    s.types.append(S.Enum("ETG", "char", [S.EnumValue("qm", "?")], description="??/"))
    s.types.append(S.Type("CTG", "char", presence="constant", const="a??/"))
    s.types.append(S.Type("CQM", "char", presence="constant", const="?"))
    s.messages[1].fields.append(S.Field("tg", 903, "TG", description="??/"))
    s.messages[1].fields.append(S.Field("etg", 904, "ETG"))
    s.messages[1].fields.append(S.Field("ctg", 905, "CTG"))
    s.messages[1].fields.append(S.Field("q", 900, "Q", description="field 'd' \"e\""))
    s.messages[1].fields.append(S.Field("eq", 901, "EQ"))
    s.messages[1].fields.append(S.Field("cs", 902, "CS"))
    # text that is not printable ASCII: UTF-8 (multi-byte sequences count in bytes for `length`), control characters that
    # XML allows (tab, CR, LF through character references), DEL.  In C++20 a u8 literal is char8_t, a universal
    # character name depends on the execution character set: the bytes of the schema are what must come out
    # (added after seeded change C07-4 and the line coverage of sbeppc's escape function)
    s.types.append(S.Type("U8D", "uint8", description="B\u00f6rse \u20ac \u65e5\u672c tab\there cr\rlf\n del\x7f end",
                          semantic_type="St\u00fcck", char_encoding="UTF-8"))
    s.types.append(S.Type("CU8", "char", presence="constant", const="B\u00f6rse", char_encoding="UTF-8"))
    s.types.append(S.Type("CU8pad", "char", presence="constant", length=8, const="St\u00fcck"))
    s.types.append(S.Type("CU8x", "char", presence="constant", length=7, const="\u20ac\t\u65e5"))
    s.types.append(S.Composite("CompU8", [S.Type("id", "uint32"), S.Type("unit", "char", presence="constant", length=8, const="St\u00fcck"),
                                          S.Ref("venue", "CU8")], description="\u00fc"))
    s.messages[1].fields.append(S.Field("u8d", 906, "U8D", description="\u00e4\t\u00f6"))
    s.messages[1].fields.append(S.Field("cu8", 907, "CU8"))
    s.messages[1].fields.append(S.Field("cu8pad", 908, "CU8pad"))
    s.messages[1].fields.append(S.Field("cu8x", 909, "CU8x"))
    s.messages[1].fields.append(S.Field("compu8", 910, "CompU8"))
    s.messages[1].block_length = None
    return s


def oddities_schema():
    """Valid but unusual constructs: a char constant longer than its one-character value (the type is an array, so the value
    has to be generated as a padded string), enums whose validValues share a value (enumerators may alias, `case` labels may
    not), numeric and char flavours."""
    s = S.corpus_layout("odd")
    s.name = "oddities"
    s.types.append(S.Type("C1pad", "char", presence="constant", length=3, const="A"))
    s.types.append(S.Type("C1pad8", "char", presence="constant", length=8, const="z"))
    s.types.append(S.Enum("EDUP", "uint8", [S.EnumValue("A", "1"), S.EnumValue("B", "1"), S.EnumValue("C", "01"), S.EnumValue("D", "2")]))
    s.types.append(S.Enum("EDUPS", "int16", [S.EnumValue("Z", "0"), S.EnumValue("NZ", "-0"), S.EnumValue("ZZ", "000"), S.EnumValue("M", "-1")]))
    s.types.append(S.Enum("EDUPC", "char", [S.EnumValue("X", "x"), S.EnumValue("Y", "x"), S.EnumValue("W", "w")]))
    s.types.append(S.Composite("OddC", [S.Type("k3", "char", presence="constant", length=3, const="Q"), S.Type("v", "uint8")]))
    m = s.messages[1]
    m.fields += [S.Field("c1pad", 910, "C1pad"), S.Field("c1pad8", 911, "C1pad8"), S.Field("edup", 912, "EDUP"),
                 S.Field("edups", 913, "EDUPS"), S.Field("edupc", 914, "EDUPC"), S.Field("oddc", 915, "OddC")]
    m.block_length = None
    return s


def float_literal_schema():
    s = S.corpus_layout("fplits")
    s.name = "float_literals"
    for i, (p, mn, mx) in enumerate([("float", "1", "16777216"), ("float", "-3", "16777217"), ("double", "0", "9007199254740993"),
                                     ("float", "1e10", "3.4028235e38"), ("double", "-1.7976931348623157e308", "1e308"),
                                     ("float", "0.1", "0.3"), ("float", "-INF", "INF"), ("double", "-0.0", "+INF"),
                                     # integers beyond the 64-bit literals of C++
                                     ("double", "-9223372036854775808", "100000000000000000000"),
                                     ("float", "-18446744073709551616", "18446744073709551615"),
                                     ("double", "9223372036854775808", "340282366920938463463374607431768211456")]):
        s.types.append(S.Type("F%d" % i, p, min=mn, max=mx))
        s.types.append(S.Type("FO%d" % i, p, presence="optional", min=mn, max=mx, null="NaN"))
    return s


def libnames_schema():
    """Entities named like members of sbepp's representation classes (value, size, begin, ...)."""
    types = [S.std_header(), S.std_dimension(), S.std_vardata()]
    fields = []
    names = S.LIB_MEMBER_POOL
    for i, n in enumerate(names):
        types.append(S.Type(n, ["uint32", "int8", "double", "char"][i % 4], presence=[None, "optional"][i % 2]))
        fields.append(S.Field("f_" + n, i + 1, n))
    types.append(S.Composite("Holder", [S.Type(n, "uint8") for n in names]))
    types.append(S.Enum("data", "uint8", [S.EnumValue(n, str(i)) for i, n in enumerate(names)]))
    types.append(S.SetT("empty", "uint16", [S.Choice(n, i) for i, n in enumerate(names)]))
    types.append(S.Type("front", "char", length=4))
    fields += [S.Field("holder", 100, "Holder"), S.Field("e", 101, "data"), S.Field("s", 102, "empty"), S.Field("a", 103, "front")]
    grp = S.Group("resize", 200, fields=[S.Field(n, 300 + i, "uint8") for i, n in enumerate(names)])
    return S.Schema("libnames", types=types, messages=[S.Message("M", 1, fields=fields, groups=[grp])], name="libnames")


def signed_headers_schema():
    """sbeppc does not insist on unsigned level-header members: signed integers and `char` are accepted for blockLength,
    numInGroup, the <data> length, templateId/schemaId/version and the counters.  Outside the value domain of the other
    checks (DESIGN 2.2), but "every accepted schema compiles and every accessor instantiates" covers it: the touch TU
    instantiates size_bytes, operator[], iteration, fill_*_header, resize for flat and nested groups of every signed
    dimension pair (added after seeded change C07-5: a braced size_t conversion of a signed header value is a narrowing
    error under clang only)."""
    types = [S.Composite("messageHeader", [S.Type("blockLength", "int16"), S.Type("templateId", "int32"), S.Type("schemaId", "int8"),
                                           S.Type("version", "int64"), S.Type("numGroups", "int8"), S.Type("numVarDataFields", "char")])]
    sig = ["int8", "int16", "int32", "int64", "char"]
    dims, vds = [], []
    for i, n in enumerate(sig):
        for j, b in enumerate(sig + ["uint16"]):
            if (i + j) % 2 == 0 or b == "uint16":
                nm = "sd_%s_%s" % (n, b)
                types.append(S.Composite(nm, [S.Type("blockLength", b), S.Type("numInGroup", n)]))
                dims.append(nm)
    for l in sig[:4]:
        nm = "sv_%s" % l
        types.append(S.Composite(nm, [S.Type("length", l), S.Type("varData", "char", length=0)]))
        vds.append(nm)
    types.append(S.Composite("sd_u16_i8", [S.Type("blockLength", "int8"), S.Type("numInGroup", "uint16")]))
    dims.append("sd_u16_i8")
    msgs = []
    nid = 1
    for k in range(0, len(dims), 4):
        groups = []
        for j, d in enumerate(dims[k:k + 4]):
            nid += 3
            if j % 2 == 0:
                groups.append(S.Group("f_" + d, nid, fields=[S.Field("x", nid + 1, "uint16"), S.Field("y", nid + 2, "int8")], dimension_type=d))
            else:
                groups.append(S.Group("n_" + d, nid, fields=[S.Field("x", nid + 1, "uint8")], dimension_type=d,
                                      groups=[S.Group("in", nid + 2, fields=[S.Field("z", nid + 3, "int8")], dimension_type=dims[(k + j + 3) % len(dims)])],
                                      data=[S.Data("dd", nid + 4, vds[(k + j) % len(vds)])]))
                nid += 3
        msgs.append(S.Message("SM%d" % (k // 4), 1 + k // 4, fields=[S.Field("f", nid + 5, "uint32")], groups=groups,
                              data=[S.Data("md", nid + 6, vds[(k // 4) % len(vds)])]))
        nid += 8
    s = S.Schema("signedhdrs", id=5, version=1, types=types, messages=msgs, name="signedhdrs", description="signed level headers")
    return s


GROUP_BASE_MEMBERS = ["value_type", "reference", "sbe_size_type", "size_type", "difference_type", "iterator", "sbe_size", "size",
                      "resize", "empty", "max_size", "begin", "end", "front", "back", "clear", "cursor_range_t", "cursor_range",
                      "cursor_subrange", "cursor_iterator", "cursor_begin", "cursor_end"]


def group_libnames_schemas():
    """Groups named like the public members a group view inherits from sbepp's group base classes (size, begin, resize,
    value_type, ...), as a flat group and as a group with a nested group: a class named like an inherited member hides it,
    and the container interface of that group (g.size(), range-for, G::value_type) is what the three TUs instantiate.
    Several schemas so that one failure does not mask the others."""
    out = []
    for k in range(0, len(GROUP_BASE_MEMBERS), 6):
        names = GROUP_BASE_MEMBERS[k:k + 6]
        types = [S.std_header(), S.std_dimension(), S.std_vardata()]
        msgs = []
        for i, n in enumerate(names):
            flat = S.Group(n, 10, fields=[S.Field("a", 11, "uint8")])
            nest = S.Group(n, 20, fields=[S.Field("a", 21, "uint8")],
                           groups=[S.Group("inner", 22, fields=[S.Field("b", 23, "uint16")])])
            msgs.append(S.Message("F%d" % i, 2 * i + 1, fields=[S.Field("x", 2, "uint32")], groups=[flat]))
            msgs.append(S.Message("N%d" % i, 2 * i + 2, groups=[nest]))
        nm = "grpnames%d" % (k // 6)
        out.append(S.Schema(nm, types=types, messages=msgs, name=nm))
    return out


def sole_dependency_schema():
    """Every type is used from exactly one place, one schema construct per dependency direction, so that each
    `#include` of a generated header must come from that construct alone: field types at message level and in groups
    at depth 1 and 2, <data> types, dimension types used only by a nested group, enums reached only through a constant
    `valueRef` (field level, through a constant type, inside a composite), refs inside composites to every kind,
    inline composites holding refs."""
    from .. import refmodel
    nid = S._ids()
    types = [S.std_header("hdrX"), S.std_dimension(), S.std_vardata()]
    n = [0]

    def fresh(kind):
        n[0] += 1
        nm = "%s%d" % (kind, n[0])
        if kind == "T":
            types.append(S.Type(nm, "uint16"))
        elif kind == "A":
            types.append(S.Type(nm, "char", length=4))
        elif kind == "E":
            types.append(S.Enum(nm, "uint8", [S.EnumValue("A", "1"), S.EnumValue("B", "2")]))
        elif kind == "S":
            types.append(S.SetT(nm, "uint8", [S.Choice("p", 0), S.Choice("q", 3)]))
        elif kind == "C":
            types.append(S.Composite(nm, [S.Type("m", "uint8"), S.Type("n", "int32")]))
        elif kind == "D":
            types.append(S.Composite(nm, [S.Type("blockLength", "uint16"), S.Type("numInGroup", "uint8")]))
        elif kind == "V":
            types.append(S.Composite(nm, [S.Type("length", "uint8"), S.Type("varData", "char", length=0)]))
        return nm

    msgs = []
    k = [0]

    def msg(fields=(), groups=(), data=()):
        k[0] += 1
        msgs.append(S.Message("M%d" % k[0], k[0], list(fields), list(groups), list(data)))

    for kind in "TAESC":
        msg(fields=[S.Field("f", nid(), fresh(kind))])
        msg(groups=[S.Group("g", nid(), [S.Field("f", nid(), fresh(kind))])])
        msg(groups=[S.Group("g", nid(), [S.Field("x", nid(), "uint8")], [S.Group("h", nid(), [S.Field("f", nid(), fresh(kind))])])])
    msg(data=[S.Data("d", nid(), fresh("V"))])
    msg(groups=[S.Group("g", nid(), [S.Field("x", nid(), "uint8")], [], [S.Data("d", nid(), fresh("V"))])])
    msg(groups=[S.Group("g", nid(), [S.Field("x", nid(), "uint8")], dimension_type=fresh("D"))])
    msg(groups=[S.Group("g", nid(), [S.Field("x", nid(), "uint8")], [S.Group("h", nid(), [S.Field("y", nid(), "uint8")], dimension_type=fresh("D"))])])
    # enums reached only through valueRef
    e1, e2, e3, e4, e5 = [fresh("E") for _ in range(5)]
    msg(fields=[S.Field("k", nid(), "uint8", presence="constant", value_ref=e1 + ".A"), S.Field("x", nid(), "uint16")])
    types.append(S.Type("KC", "uint8", presence="constant", value_ref=e2 + ".B"))
    msg(fields=[S.Field("k", nid(), "KC"), S.Field("x", nid(), "uint16")])
    msg(groups=[S.Group("g", nid(), [S.Field("k", nid(), "uint8", presence="constant", value_ref=e3 + ".A"), S.Field("x", nid(), "uint8")])])
    types.append(S.Composite("CK", [S.Type("a", "uint16"), S.Type("kf", "uint8", presence="constant", value_ref=e4 + ".B")]))
    msg(fields=[S.Field("c", nid(), "CK")])
    msg(fields=[S.Field("ke", nid(), e5, presence="constant", value_ref=e5 + ".A"), S.Field("x", nid(), "uint16")])
    # refs inside composites (and inside inline composites) as the only users
    types.append(S.Composite("CR", [S.Ref("rt", fresh("T")), S.Ref("ra", fresh("A")), S.Ref("re", fresh("E")), S.Ref("rs", fresh("S")),
                                    S.Ref("rc", fresh("C")), S.Composite("inl", [S.Ref("it", fresh("T")), S.Ref("ie", fresh("E"))])]))
    msg(fields=[S.Field("c", nid(), "CR")])
    # sbeppc resolves type references case-insensitively: the same dependency directions with a reference whose
    # letter case differs from the definition (the generated #include must name the definition's file)
    msg(fields=[S.Field("f", nid(), fresh("T").lower())])
    msg(fields=[S.Field("f", nid(), fresh("E").lower())])
    msg(fields=[S.Field("f", nid(), fresh("C").lower())])
    msg(groups=[S.Group("g", nid(), [S.Field("f", nid(), fresh("S").lower())])])
    msg(data=[S.Data("d", nid(), fresh("V").lower())])
    msg(groups=[S.Group("g", nid(), [S.Field("x", nid(), "uint8")], [], [S.Data("d", nid(), fresh("V").lower())])])
    msg(groups=[S.Group("g", nid(), [S.Field("x", nid(), "uint8")], dimension_type=fresh("D").lower())])
    e6 = fresh("E")
    msg(fields=[S.Field("k", nid(), "uint8", presence="constant", value_ref=e6.lower() + ".A"), S.Field("x", nid(), "uint16")])
    types.append(S.Composite("CRL", [S.Ref("rt", fresh("T").lower()), S.Ref("re", fresh("E").lower()), S.Ref("rc", fresh("C").lower())]))
    msg(fields=[S.Field("c", nid(), "crl")])
    s = S.Schema("soledep", id=3, version=1, types=types, messages=msgs, header_type="HDRx", description="sole dependencies", name="soledep")
    refmodel.fix_offsets(s)
    refmodel.fit_ids_to_header(s)
    return s


def path_concat_schema():
    """Group paths whose concatenation with `_` collides: a{b{c}, b_c}, a_b{c}, a{b_c{d}}, a_b{c_d}...  The generated
    trait formulas name their parameters after the group path."""
    from .. import refmodel
    nid = S._ids()

    def g(name, *subs, data=()):
        return S.Group(name, nid(), [S.Field("x", nid(), "uint8")], list(subs), list(data))

    msgs = [
        S.Message("m1", 1, [], [g("a", g("b", g("c")), g("b_c")), g("a_b", g("c"))], []),
        S.Message("m2", 2, [], [g("a", g("b_c", g("d"))), g("a_b", g("c_d"), g("c", g("d")))], []),
        S.Message("m3", 3, [], [g("p", g("q", g("r", data=[S.Data("d", nid(), "varDataEncoding")])), g("q_r")), g("p_q", g("r")), g("p_q_r")], []),
        S.Message("m4", 4, [], [g("num", g("in", g("group"))), g("num_in", g("group")), g("num_in_group")], []),
    ]
    s = S.Schema("pathcat", id=4, version=1, types=[S.std_header(), S.std_dimension(), S.std_vardata()], messages=msgs,
                 description="group path concatenations", name="pathcat")
    refmodel.fix_offsets(s)
    refmodel.fit_ids_to_header(s)
    return s


def special_raw():
    from . import c12, c15, c16
    rng = C.rng_for(1, "c07-special")
    order = {w: list(range(w)) for w in c15.WIDTHS}
    return [("c16-scalars", c16.build_cases()[0]), ("c15-sets", c15.make_schema(order)), ("c12-dimensions", c12.make_schema())]


def err_site(out):
    errs = [l for l in out.splitlines() if re.search(r"\berror\b", l)]
    if not errs:
        return "unknown", out[:300]
    e = errs[0]
    msg = e.split("error:", 1)[1] if "error:" in e else e
    msg = re.sub(r"‘[^’]*’|'[^']*'|`[^`]*`", "_", msg)
    msg = re.sub(r"\d+", "N", msg).strip()
    return re.sub(r"\s+", "_", msg)[:70], e


def main():
    rep = Report("C07", "exploration")
    quick = rep.tier == "quick"
    schemas = S.corpus() + S.random_schemas(rep.seed, 3 if quick else 60) + S.clash_schemas(rep.seed, 6 if quick else 60)
    schemas += [hostile_text_schema(), float_literal_schema(), oddities_schema(),
                libnames_schema(), sole_dependency_schema(), path_concat_schema(), S.self_clash_schema(), S.internal_names_schema(), signed_headers_schema()] + S.package_name_clash_schemas() + group_libnames_schemas() + \
        S.pair_clash_schemas()
    sparse = S.pair_clash_schemas(sparse=True)
    if quick:
        # sibling and nested group pairs always; a seeded sample of the other positions
        keep = [s for s in sparse if s.name.startswith(("ps_sib", "ps_nest", "ps_msgself"))]
        rest = [s for s in sparse if not s.name.startswith(("ps_sib", "ps_nest", "ps_msgself"))]
        sparse = keep + C.rng_for(rep.seed, "c07-sparse").sample(rest, 30)
    schemas += sparse
    hdr_cfgs = [build.Cfg("g++", "17", "O0")] if quick else [build.Cfg(c, s, "O0") for c, s in build.all_compiler_std()]
    if quick:
        hdr_cfgs_sampled = [build.Cfg("clang++", "11", "O0"), build.Cfg("clang++", "23", "O0"), build.Cfg("g++", "20", "O0")]
        tu_cfgs = [build.Cfg("g++", "11", "O0"), build.Cfg("g++", "20", "O0"), build.Cfg("clang++", "14", "O0"),
                   build.Cfg("clang++", "23", "O0"), build.Cfg("g++", "17", "O0")]
    else:
        hdr_cfgs_sampled = []
        tu_cfgs = [build.Cfg(c, s, "O0") for c, s in build.all_compiler_std()]
    rep.rule("schemas: covering corpus (6), seeded random (%d), clash-pool names (%d), hostile text, float literal forms, "
             "library-member names (types, enum values, choices, composite members; and 4 schemas whose groups are named like every "
             "public member a group view inherits: size, begin, resize, value_type, ...), a sole-dependency schema (every type used from exactly one construct, so every #include "
             "must come from it: field types at depth 0-2, data and dimension types, enums reached only through valueRef, refs in "
             "composites, case-differing references), a path-concatenation schema (group paths whose `_`-joined names collide), "
             "7 systematic pair-clash schemas (every ordered pair of {X, X_entry, X_0, X_0_entry, X_1, entry, "
             "X_entry_0} as sibling groups, nested groups, group + entry member, field + group, group + data, message + "
             "group), the same pairs as single-message schemas plus 36 schemas in which a message shares its name with one of its "
             "own members while earlier messages' groups occupy the mangled candidates (all 91 sibling/nested pairs, these 36 "
             "and 30 sampled others in quick, "
             "all 273 in thorough; message header, top-level header and touch TU compiled), and three special-purpose raw "
             "schemas; per accepted schema every generated header is "
             "compiled alone (-fsyntax-only) and the touch-everything TU is compiled, under the configurations listed; "
             "for all but the pair schemas the cursor-protocol interpreter (every member x every cursor wrapper, ranges) "
             "and the operation driver (every container operation and derived view) are compiled as two further TUs. An "
             "evaluation is one compiler run; distinct_nontrivial = distinct (schema, header or TU, configuration) compiled."
             % ((3 if quick else 60), (6 if quick else 60)))
    preps = []
    for sc in schemas:
        p = codec.prepare(sc)
        if not p.ok:
            # not C07's business (C08 decides accept/reject), but say so
            rep.count("schemas_rejected_by_sbeppc")
            rep.cov.setdefault("rejected", []).append([sc.name, p.gen["out"].strip().splitlines()[-1][-160:] if p.gen["out"].strip() else ""])
            continue
        preps.append(p)
    # --schema-name: the package attribute is not a C++ name at all, the namespace / directory comes from the option
    sn = S.corpus()[4].clone()
    sn.package = sn.name = "layout_sn"
    psn = codec.Prepared.__new__(codec.Prepared)
    psn.schema, psn.model = sn, R.Model(sn)
    psn.xml = sn.to_xml().replace('package="layout_sn"', 'package="com.example.layout-v2"', 1)
    psn.gen = build.gen_headers(psn.xml, "rel", extra_args=("--schema-name", "layout_sn"))
    psn.ok = psn.gen["rc"] == 0
    psn.dep = C.sha(psn.xml)
    if psn.ok:
        from .. import gen_driver as GDR
        psn.src = GDR.Gen(sn).generate()
        preps.append(psn)
    else:
        rep.inconc("sbeppc rejected --schema-name layout_sn for package com.example.layout-v2: %s" % psn.gen["out"][-200:])
    raws = []
    for name, xml in special_raw():
        g = build.gen_headers(xml, "rel")
        if g["rc"] == 0:
            raws.append((name, xml, g))
    # --inject-include: documented to put `#include "PATH"` at the top of schema/schema.hpp (the repository's own CMake
    # helper passes a path relative to that file).  Every header must still compile on its own, and the directive must
    # really be there: schema/schema.hpp and the umbrella header are compiled with an #error unless the anchor was seen.
    inj_jobs = []
    inj_sc = S.corpus()[0]
    inj_rel = "../../c07 anchor-1.hpp"
    inj_gen = build.gen_headers(inj_sc.to_xml(), "rel", extra_args=("--inject-include", inj_rel))
    if inj_gen["rc"] == 0:
        C.write_file(os.path.join(inj_gen["dir"], "c07 anchor-1.hpp"), "#pragma once\n#define C07_ANCHOR_SEEN 1\n")
        raws.append(("inject-include:" + inj_sc.name, inj_sc.to_xml(), inj_gen))

        class Inj:
            pass
        for hdr in ("%s/schema/schema.hpp" % inj_sc.package, "%s/%s.hpp" % (inj_sc.package, inj_sc.package)):
            x = Inj()
            x.label = "injected-include-present:" + hdr
            x.src = ('#include <%s>\n#ifndef C07_ANCHOR_SEEN\n#error "--inject-include: the directive is missing from %s"\n#endif\n'
                     'int main() { return 0; }\n' % (hdr, hdr))
            inj_jobs.append(("xtu", "inject-include:" + inj_sc.name, inj_sc.to_xml(), inj_gen, x))
    else:
        rep.inconc("sbeppc rejected --inject-include for %s: %s" % (inj_sc.name, inj_gen["out"][-200:]))
    jobs = []
    rng = C.rng_for(rep.seed, "c07")
    for name, xml, gen in [(p.schema.name, p.xml, p.gen) for p in preps] + raws:
        hdrs = []
        for root, _, fs in os.walk(gen["dir"]):
            hdrs += [os.path.relpath(os.path.join(root, f), gen["dir"]) for f in fs if f.endswith(".hpp")]
        hdrs.sort()
        if name.startswith("ps_"):
            # single-message pair schemas: the type headers are the same in all of them
            for h in [x for x in hdrs if "/messages/" in x or x.count("/") == 1 and not x.endswith("schema.hpp")]:
                jobs.append(("hdr", name, xml, gen, h, hdr_cfgs[0]))
            continue
        for h in hdrs:
            for cfg in hdr_cfgs:
                jobs.append(("hdr", name, xml, gen, h, cfg))
        for cfg in hdr_cfgs_sampled:
            for h in rng.sample(hdrs, min(len(hdrs), 6)):
                jobs.append(("hdr", name, xml, gen, h, cfg))
    for p in preps:
        for cfg in (tu_cfgs[:1] if p.schema.name.startswith("ps_") else tu_cfgs):
            jobs.append(("tu", p.schema.name, p.xml, p.gen, p, cfg))
    # two more instantiate-everything TUs per schema (added after seeded change C04-4 produced a cursor accessor that only
    # fails to compile when it is called through a dont_move/skip wrapper): the cursor-protocol interpreter of C04 (every
    # member x every cursor wrapper x get/set, ranges and subranges) and the operation driver of C10 (every array, <data>
    # and group container operation, raw(), iterator forms, by-tag and cursor forms)
    from .. import gen_cur as GCUR, gen_ops as GOPS

    class Extra:
        pass
    for p in preps:
        if p.schema.name.startswith("ps_"):
            continue
        for label, G in (("cursor-protocol-TU", GCUR.CurGen), ("operations-TU", GOPS.OpsGen)):
            try:
                x = Extra()
                x.src, x.label = G(p.schema).generate(), label
            except Exception as e:  # the generators of other checks are not written for every special-purpose schema
                rep.count("extra_tus_not_generated")
                rep.cov.setdefault("extra_tu_generator_gaps", []).append([p.schema.name, label, repr(e)[:120]])
                continue
            for cfg in tu_cfgs:
                jobs.append(("xtu", p.schema.name, p.xml, p.gen, x, cfg))

    for j in inj_jobs:
        for cfg in tu_cfgs:
            jobs.append(j + (cfg,))

    def run(job):
        kind, name, xml, gen, what, cfg = job
        if kind == "hdr":
            src = '#include "%s"\nint main() { return 0; }\n' % what
            ok, _, out = build.compile_driver(src, cfg, inc_dirs=(gen["dir"],), dep_key=C.sha(xml), name="c07h", syntax_only=True)
        else:
            ok, _, out = build.compile_driver(what.src, cfg, inc_dirs=(gen["dir"],), dep_key=C.sha(xml), name="c07t", syntax_only=True)
        return job, ok, out

    entities = 0
    for (kind, name, xml, gen, what, cfg), ok, out in C.pmap(run, jobs):
        rep.evaluation()
        label = what if kind == "hdr" else "touch-everything-TU" if kind == "tu" else what.label
        rep.nontrivial(name, label, str(cfg))
        rep.count("headers_compiled" if kind == "hdr" else "tus_compiled")
        if ok:
            continue
        site, first = err_site(out)
        construct = "header" if kind == "hdr" else "tu"
        rep.violation("compile-error", "%s/%s" % (construct, site),
                      "%s: %s does not compile under %s: %s" % (name, label, cfg, first[:400]),
                      {"schema": name, "schema_xml": xml, "unit": label, "config": str(cfg), "compiler_output": out[:6000],
                       "driver_source_excerpt": (what.src[:3000] if kind != "hdr" else None)})
    for p in preps:
        entities += p.src.count("l.") + p.src.count("c.")
    rep.cov["entities_named_in_tus"] = entities
    rep.cov["schemas"] = [p.schema.name for p in preps] + [n for n, _, _ in raws]
    rep.cov["header_configs"] = [str(c) for c in hdr_cfgs + hdr_cfgs_sampled]
    rep.cov["tu_configs"] = [str(c) for c in tu_cfgs]
    if preps:
        rep.sample({"schema": preps[-1].schema.name, "touch_tu_excerpt": preps[-1].src[preps[-1].src.find("static void dL"):][:800]})
        rep.sample({"schema": preps[0].schema.name, "headers": sorted(os.listdir(os.path.join(preps[0].gen["dir"], preps[0].schema.package, "types")))[:12]})
    rep.assumptions += ["schemas stay inside the generator domain of DESIGN 2.2; names are SBE symbolic names",
                        "compilers: g++ 12 and clang++ 14 with libstdc++ 12"]
    return rep.finish()
