"""C20 -- sbeppc's exit status is truthful and its output deterministic.

Fault enumeration on the release binary (the one users run): an LD_PRELOAD shim
(rt/ioshim.c) counts the output-directed calls of a run (mkdir / fopen / write /
writev) and, in one run per (k, kind), makes the k-th one fail with ENOSPC,
EACCES or EIO, perform a genuine short write, or a short write whose retry
fails.  Oracle: the shim logged INJECTED <error> => exit != 0 and a diagnostic;
exit 0 => every generated file is byte-identical to the fault-free reference.
Determinism: repeated runs, a run over a populated directory and the sanitizer
build all produce byte-identical files.
"""
import os
import re
import shutil
import tempfile

from .. import build, common as C
from ..findings import Report

KINDS = ["28", "13", "5", "short", "short-then-28"]  # ENOSPC, EACCES, EIO


def read_tree(d):
    out = {}
    for root, _, files in os.walk(d):
        for f in files:
            p = os.path.join(root, f)
            out[os.path.relpath(p, d)] = open(p, "rb").read()
    return out


# a schema without any <message> ("common types" file): sbeppc still creates the messages/ directory but never opens a
# file in it, so only the directory creation itself can report an obstruction there (seeded change C20-5)
TYPES_ONLY = """<?xml version="1.0" encoding="UTF-8"?>
<sbe:messageSchema xmlns:sbe="http://fixprotocol.io/2016/sbe" package="common_types" id="7" version="1" byteOrder="littleEndian">
    <types>
        <composite name="messageHeader">
            <type name="blockLength" primitiveType="uint16"/>
            <type name="templateId" primitiveType="uint16"/>
            <type name="schemaId" primitiveType="uint16"/>
            <type name="version" primitiveType="uint16"/>
        </composite>
        <type name="price" primitiveType="int64" presence="optional"/>
        <enum name="side" encodingType="char"><validValue name="Buy">B</validValue><validValue name="Sell">S</validValue></enum>
        <set name="flags" encodingType="uint8"><choice name="a">0</choice><choice name="b">7</choice></set>
        <composite name="pair"><ref name="p" type="price"/><ref name="s" type="side"/></composite>
    </types>
</sbe:messageSchema>
"""


def list_dirs(d):
    """every directory of a generated tree, relative, including ones that hold no file"""
    out = []
    for root, dirs, _ in os.walk(d):
        for x in dirs:
            out.append(os.path.relpath(os.path.join(root, x), d))
    return sorted(out)


def schemas(tier, seed):
    from . import c12, c16
    out = [("types-only", TYPES_ONLY),
           ("c12-dimension-matrix", c12.make_schema()),
           ("repo:big_endian_schema", C.read_text(os.path.join(C.REPO, "test/schemas/big_endian_schema.xml")))]
    if tier != "quick":
        out.append(("c16-scalars", c16.build_cases()[0]))
        for n in ("test_schema", "test_schema2", "traits_test_schema"):
            out.append(("repo:" + n, C.read_text(os.path.join(C.REPO, "test/schemas/%s.xml" % n))))
    try:
        from .. import schema as S
        corp = S.corpus()
        rnd = S.random_schemas(seed, 1 if tier == "quick" else 6)
        for sc in (corp[:1] if tier == "quick" else corp) + rnd:
            out.append((sc.name, sc.to_xml()))
    except ImportError:
        pass
    return out


def run_sbeppc(exe, xml_path, outdir, env=None):
    rc, o, _, to = C.run([exe, "--output-dir", outdir, xml_path], timeout=120, env=env)
    return rc, o.decode(errors="replace"), to


def main():
    rep = Report("C20", "fault_enumeration")
    rel = build.sbeppc("rel")
    san = build.sbeppc("san")
    shim = build.ioshim()
    work = tempfile.mkdtemp(prefix="c20-", dir=C.ensure_dir(os.path.join(C.CACHE, "tmp")))
    rep.rule("for each schema: a dry run counts the N output-directed calls (mkdir, fopen, write, writev); then one run "
             "per k in 1..N x kind in {ENOSPC, EACCES, EIO, genuine short write, short write whose retry fails with "
             "ENOSPC}; plus determinism runs (second fresh run, runs over directories populated with longer / truncated / empty / "
             "same-length stale files, a re-run after every failed run, invocation variants - relative paths from another "
             "cwd, nested new output directory, trailing slash, other schema file name, other locale/TZ/HOME, and address-space variants: no ASLR, every allocation mmapped, malloc perturbation, 100 KB of extra environment - and the "
             "ASan/UBSan build). An "
             "evaluation is one sbeppc execution; distinct_nontrivial counts distinct (schema, k, kind) runs in which the "
             "shim really disturbed a call (logged INJECTED).")
    try:
        jobs = []
        refs = {}
        for si, (name, xml) in enumerate(schemas(rep.tier, rep.seed)):
            sd = os.path.join(work, "s%d" % si)
            xmlp = os.path.join(sd, "schema.xml")
            C.write_file(xmlp, xml)
            ref_dir = os.path.join(sd, "ref")
            os.makedirs(ref_dir)
            rc, out, to = run_sbeppc(rel, xmlp, ref_dir)
            rep.evaluation()
            if rc != 0:
                rep.inconc("reference run of %s failed rc=%s: %s" % (name, rc, out[-300:]))
                continue
            ref = read_tree(ref_dir)
            refs[si] = ref
            # --- determinism
            d2 = os.path.join(sd, "again")
            os.makedirs(d2)
            rc2, out2, _ = run_sbeppc(rel, xmlp, d2)
            rep.evaluation()
            if rc2 != 0 or read_tree(d2) != ref:
                rep.violation("nondeterministic-output", "second-fresh-run", "%s: a second run differs from the first" % name,
                              {"schema": name, "schema_xml": xml})
            # populated directory: every file longer than before plus a stale extra file
            d3 = os.path.join(sd, "populated")
            shutil.copytree(ref_dir, d3)
            for rel_p in ref:
                with open(os.path.join(d3, rel_p), "ab") as f:
                    f.write(b"\n// stale tail that must disappear\n" * 50)
            rc3, out3, _ = run_sbeppc(rel, xmlp, d3)
            rep.evaluation()
            t3 = read_tree(d3)
            if rc3 != 0 or any(t3.get(k) != v for k, v in ref.items()):
                rep.violation("nondeterministic-output", "populated-directory",
                              "%s: compiling into a populated directory gives different files" % name,
                              {"schema": name, "schema_xml": xml})
            # populated with *truncated* and same-length-different files (what an earlier failed run or an
            # older schema version leaves behind): the result must still be the complete new output
            for variant in ("prefix", "empty", "same-length"):
                dv = os.path.join(sd, "populated-" + variant)
                shutil.copytree(ref_dir, dv)
                vr = C.rng_for(rep.seed, "c20", name, variant)
                for rel_p, content in ref.items():
                    fp = os.path.join(dv, rel_p)
                    if variant == "prefix":
                        new = content[:vr.randrange(0, len(content))] if vr.random() < 0.7 else content
                    elif variant == "empty":
                        new = b"" if vr.random() < 0.5 else content
                    else:
                        new = bytes((b ^ 1) if i % 97 == 5 else b for i, b in enumerate(content))
                    with open(fp, "wb") as f:
                        f.write(new)
                rcv, outv, _ = run_sbeppc(rel, xmlp, dv)
                rep.evaluation()
                tv = read_tree(dv)
                bad = [k for k, v in ref.items() if tv.get(k) != v]
                if rcv != 0 or bad:
                    rep.violation("nondeterministic-output", "populated-directory-" + variant,
                                  "%s: compiling into a directory holding %s versions of the files: exit %s, %d file(s) differ "
                                  "from a fresh compile (first: %s)" % (name, variant, rcv, len(bad), bad[:1]),
                                  {"schema": name, "schema_xml": xml, "variant": variant, "differing": bad[:10]})
                rep.count("files_compared", len(ref))
            # the way sbeppc is invoked must not show in the output: relative paths from another working directory, an
            # output directory that does not exist yet (nested), a trailing slash, another schema file name, a
            # different environment (locale, TZ, HOME, TMPDIR)
            os.makedirs(os.path.join(sd, "cwd", "sub"))
            shutil.copy(xmlp, os.path.join(sd, "cwd", "sub", "Other Name.v2.xml"))
            inv = [("relative-paths", [rel, "--output-dir", "../out-rel", "sub/Other Name.v2.xml"], os.path.join(sd, "cwd"),
                    os.path.join(sd, "out-rel"), None),
                   ("nested-new-output-dir", [rel, "--output-dir", os.path.join(sd, "new", "a", "b"), xmlp], None, os.path.join(sd, "new", "a", "b"), None),
                   ("trailing-slash", [rel, "--output-dir", os.path.join(sd, "slash") + "/", xmlp], None, os.path.join(sd, "slash"), None),
                   ("environment", [rel, "--output-dir", os.path.join(sd, "envout"), xmlp], "/", os.path.join(sd, "envout"),
                    {"LC_ALL": "tr_TR.UTF-8", "LANG": "de_DE.UTF-8", "TZ": "Pacific/Kiritimati", "HOME": "/nonexistent", "TMPDIR": "/nonexistent",
                     "COLUMNS": "20", "NO_COLOR": "1", "TERM": "dumb"})]
            # address-space variants: if any container keyed by addresses (or anything else that differs between two
            # processes) ever steered the output, different heap/stack/mmap layouts would show it
            big_env = {"VERIF_PAD_%d" % i: "x" * 4000 for i in range(25)}
            inv += [("no-aslr", ["setarch", "x86_64", "-R", rel, "--output-dir", os.path.join(sd, "as1"), xmlp], None, os.path.join(sd, "as1"), None),
                    ("every-allocation-mmapped", [rel, "--output-dir", os.path.join(sd, "as2"), xmlp], None, os.path.join(sd, "as2"),
                     {"MALLOC_MMAP_THRESHOLD_": "0", "MALLOC_MMAP_MAX_": "1000000"}),
                    ("malloc-perturb-top-pad", [rel, "--output-dir", os.path.join(sd, "as3"), xmlp], None, os.path.join(sd, "as3"),
                     {"MALLOC_PERTURB_": "165", "MALLOC_TOP_PAD_": "1048576", "MALLOC_ARENA_MAX": "1"}),
                    ("large-environment", [rel, "--output-dir", os.path.join(sd, "as4"), xmlp], None, os.path.join(sd, "as4"), big_env)]
            for iname, cmd, cwd, od, env_ in inv:
                rci, oi, _, toi = C.run(cmd, timeout=120, cwd=cwd, env=env_)
                rep.evaluation()
                ti = read_tree(od) if os.path.isdir(od) else {}
                if rci != 0 or ti != ref:
                    badf = sorted(k for k in set(ref) | set(ti) if ref.get(k) != ti.get(k))
                    rep.violation("nondeterministic-output", "invocation-" + iname,
                                  "%s: invoked as %s (cwd=%s): exit %s, %d file(s) differ from the reference run (first: %s): %s" % (
                                      name, iname, cwd, rci, len(badf), badf[:1], oi.decode(errors="replace")[-200:]),
                                  {"schema": name, "schema_xml": xml, "command": cmd, "cwd": cwd, "env": env_, "differing": badf[:10]})
                rep.count("files_compared", len(ref))
                rep.count("invocation_variants")
            d4 = os.path.join(sd, "san")
            os.makedirs(d4)
            rc4, out4, _ = run_sbeppc(san, xmlp, d4, env=build.san_env())
            rep.evaluation()
            if rc4 != 0 or read_tree(d4) != ref:
                rep.violation("nondeterministic-output", "sanitizer-build",
                              "%s: ASan/UBSan build of sbeppc rc=%s produces different files or fails: %s" % (name, rc4, out4[-400:]),
                              {"schema": name, "schema_xml": xml})
            rep.count("files_compared", 4 * len(ref))
            # --- obstructed destinations: the output tree exists already and something other than a plain file sits where
            # a file must go (or the other way round).  Whatever sbeppc does, exit 0 is only allowed when every file reads
            # back complete (added after seeded change C20-4: a writer that moves finished files into place can lose the
            # failure of that last step)
            paths = sorted(ref)
            orng = C.rng_for(rep.seed, "c20-obstruct", name)
            sample = paths if rep.tier != "quick" else sorted(set(orng.sample(paths, min(6, len(paths))) + paths[:1] + paths[-1:]))
            dirs = list_dirs(ref_dir)  # every directory sbeppc creates, also those it leaves empty
            obstructions = [("directory-at-file-path", p_) for p_ in sample] + [("symlink-to-dev-full", p_) for p_ in sample[:3]] + \
                           [("dangling-symlink", p_) for p_ in sample[:3]] + [("file-at-directory-path", d_) for d_ in dirs]
            for oi, (okind, target) in enumerate(obstructions):
                do = os.path.join(sd, "obst%d" % oi)
                shutil.copytree(ref_dir, do)
                tp = os.path.join(do, target)
                if okind == "directory-at-file-path":
                    os.remove(tp)
                    os.makedirs(os.path.join(tp, "occupied"))
                elif okind == "symlink-to-dev-full":
                    os.remove(tp)
                    os.symlink("/dev/full", tp)
                elif okind == "dangling-symlink":
                    os.remove(tp)
                    os.symlink(os.path.join(sd, "obst%d-target" % oi), tp)
                else:
                    shutil.rmtree(tp)
                    C.write_file(tp, "not a directory\n")
                rco, oo, _ = run_sbeppc(rel, xmlp, do)
                rep.evaluation()
                rep.count("obstructed_destinations")
                rep.nontrivial("obstructed", name, okind, target)
                complete = False
                if rco == 0:
                    try:
                        # bounded reads: a destination may be a symlink to /dev/full, which reads back zeros without end
                        # (a run on seeded change C20-6, where sbeppc exits 0 there, took 64 GB before this bound)
                        complete = all(open(os.path.join(do, p_), "rb").read(len(v) + 1) == v for p_, v in ref.items()) and \
                            all(os.path.isdir(os.path.join(do, d_)) for d_ in dirs)
                    except OSError:
                        complete = False
                rpl = {"schema": name, "schema_xml": xml, "obstruction": okind, "path": target, "exit": rco, "output": oo[-600:]}
                if rco == 0 and not complete:
                    rep.violation("exit0-with-wrong-files", "obstructed/" + okind,
                                  "%s: %s `%s` in the output tree: sbeppc exited 0 but the generated tree does not read back "
                                  "complete (a file differs or is missing, or a directory of the reference tree is not a directory)" % (name, okind, target), rpl)
                elif rco != 0 and (rco < 0 or rco in (97, 98, 99, 134, 139)):
                    rep.violation("crash-after-fault", "obstructed/" + okind, "%s: sbeppc died (rc=%s) with %s `%s`: %s" % (
                        name, rco, okind, target, oo[-300:]), rpl)
                elif rco != 0 and "Error" not in oo:
                    rep.violation("no-diagnostic", "obstructed/" + okind, "%s: exit %s without a diagnostic with %s `%s`" % (
                        name, rco, okind, target), rpl)
                elif rco != 0 and okind == "dangling-symlink":
                    rep.count("obstructed_dangling_symlink_refused")
                if okind in ("directory-at-file-path", "file-at-directory-path") and rco == 0:
                    rep.count("obstructed_replaced_by_sbeppc")
                shutil.rmtree(do, ignore_errors=True)
            # --- dry run under the shim
            dry = os.path.join(sd, "dry")
            os.makedirs(dry)
            log = os.path.join(sd, "dry.log")
            env = {"LD_PRELOAD": shim, "VERIF_SHIM_DIR": dry, "VERIF_SHIM_LOG": log, "VERIF_SHIM_K": "0"}
            rc5, out5, _ = run_sbeppc(rel, xmlp, dry, env=env)
            rep.evaluation()
            calls = re.findall(r"^CALL (\d+) (\S+)", C.read_text(log) if os.path.exists(log) else "", re.M)
            n = len(calls)
            if rc5 != 0 or read_tree(dry) != ref or n < 3 + len(ref):
                rep.inconc("%s: dry run under the shim is not faithful (rc=%s, calls=%d, files=%d)" % (name, rc5, n, len(ref)))
                continue
            rep.count("io_calls", n)
            rep.cov.setdefault("calls_per_schema", {})[name] = n
            rep.cov.setdefault("call_kinds", {})
            for _, cn in calls:
                rep.cov["call_kinds"][cn] = rep.cov["call_kinds"].get(cn, 0) + 1
            ks = range(1, n + 1)
            for k in ks:
                for kind in KINDS:
                    jobs.append((si, name, xml, xmlp, sd, k, kind, calls[k - 1][1]))

        def one(job):
            si, name, xml, xmlp, sd, k, kind, callname = job
            od = os.path.join(sd, "k%d-%s" % (k, kind))
            os.makedirs(od)
            log = od + ".log"
            env = {"LD_PRELOAD": shim, "VERIF_SHIM_DIR": od, "VERIF_SHIM_LOG": log, "VERIF_SHIM_K": str(k),
                   "VERIF_SHIM_KIND": kind}
            rc, out, to = run_sbeppc(rel, xmlp, od, env=env)
            lg = C.read_text(log) if os.path.exists(log) else ""
            inj_err = re.search(r"^INJECTED \d+ \S+ errno=(\d+)", lg, re.M)
            inj_short = re.search(r"^INJECTED \d+ \S+ short", lg, re.M)
            tree = read_tree(od) if rc == 0 else None
            rerun = None
            if (inj_err or inj_short) and rc != 0 and k % 5 == 1 and kind in ("28", "short-then-28"):
                # history: the failed run left whatever it left; a later fault-free run into the same directory
                # must succeed and produce the complete output
                rc2, out2, to2 = run_sbeppc(rel, xmlp, od)
                rerun = (rc2, read_tree(od) if rc2 == 0 else None, out2[-300:])
            shutil.rmtree(od, ignore_errors=True)
            return job, rc, out, to, bool(inj_err), bool(inj_short), tree, rerun

        for job, rc, out, to, inj_err, inj_short, tree, rerun in C.pmap(one, jobs):
            si, name, xml, xmlp, sd, k, kind, callname = job
            rep.evaluation()
            if rerun is not None:
                rep.evaluation()
                rep.count("reruns_after_failed_run")
                rc2, tree2, tail2 = rerun
                if rc2 != 0 or tree2 is None or any(tree2.get(p_) != v for p_, v in refs[si].items()):
                    nbad = len([p_ for p_, v in refs[si].items() if (tree2 or {}).get(p_) != v])
                    rep.violation("nondeterministic-output", "rerun-after-failed-run",
                                  "%s: after a run that failed at %s call #%d (kind %s), a fault-free run into the same directory "
                                  "exits %s and %d file(s) differ from a fresh compile" % (name, callname, k, kind, rc2, nbad),
                                  {"schema": name, "schema_xml": xml, "k": k, "kind": kind, "call": callname, "second_run_output": tail2})
            replay = {"schema": name, "schema_xml": xml, "k": k, "kind": kind, "call": callname, "exit": rc,
                      "stdout": out[-1500:],
                      "how": "LD_PRELOAD=<ioshim.so> VERIF_SHIM_DIR=<out> VERIF_SHIM_K=%d VERIF_SHIM_KIND=%s sbeppc --output-dir <out> schema.xml" % (k, kind)}
            if to:
                rep.violation("hang", callname, "%s: sbeppc hung with fault k=%d kind=%s" % (name, k, kind), replay)
                continue
            if inj_err or inj_short:
                rep.nontrivial(name, k, kind)
                rep.count("faults_injected")
            if inj_err:
                if rc == 0:
                    rep.violation("exit0-after-fault", callname,
                                  "%s: %s call #%d failed (kind %s) but sbeppc exited 0" % (name, callname, k, kind), replay)
                elif rc is not None and rc < 0 or rc in (97, 98, 99, 134, 139):
                    rep.violation("crash-after-fault", callname,
                                  "%s: sbeppc died (rc=%s) after %s call #%d failed: %s" % (name, rc, callname, k, out[-300:]), replay)
                elif "Error" not in out:
                    rep.violation("no-diagnostic", callname,
                                  "%s: exit %s without a diagnostic after %s call #%d failed" % (name, rc, callname, k), replay)
            else:
                # nothing failed (pure short write, or the kind does not apply to this call): must succeed
                if rc != 0:
                    rep.violation("spurious-failure", callname,
                                  "%s: sbeppc exit %s although no call failed (k=%d kind=%s): %s" % (name, rc, k, kind, out[-300:]), replay)
            if rc == 0 and tree is not None and tree != refs[si]:
                diff = [p for p in refs[si] if tree.get(p) != refs[si][p]]
                rep.violation("exit0-with-wrong-files", callname,
                              "%s: exit 0 but %d file(s) differ from the fault-free output (first: %s) with k=%d kind=%s" % (
                                  name, len(diff), diff[:1], k, kind), replay)
            if len(rep.cov["samples"]) < 5 and (inj_err or inj_short) and k % 7 == 1:
                rep.sample({"schema": name, "k": k, "call": callname, "kind": kind, "injected": True, "exit": rc,
                            "diagnostic": out.strip().splitlines()[-1][:160] if out.strip() else ""})
    finally:
        shutil.rmtree(work, ignore_errors=True)
    rep.cov["kinds"] = {"28": "ENOSPC", "13": "EACCES", "5": "EIO", "short": "short write (retry succeeds)",
                        "short-then-28": "short write, retry fails with ENOSPC"}
    rep.cov["exhaustive"] = True
    rep.assumptions += ["faults are injected at the libc call boundary (mkdir/fopen/write/writev); close() and fsync are "
                        "not part of the property", "one fault per run", "rename/link calls towards the output directory are intercepted too (none is made by the current sbeppc)"]
    return rep.finish()
