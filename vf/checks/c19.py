"""C19 -- see vf/codec_checks.py (offline checker over the codec driver's event log)."""
from ..codec_checks import dec_main


def main():
    return dec_main("C19")
