"""C10 -- checked builds never touch memory outside the view silently.

Fault enumeration.  For every message of every schema a well-formed image (every group non-empty) is
taken; every operation of vf/gen_ops.py (every accessor kind of every generated view type: field
get/set in all forms, composite members, array and <data> container operations, group header /
size / iteration / resize / fill, cursor forms, visit, size computations) is executed once per buffer
length n = 0..full on a view bound to [p, p+n) placed at the end of the resume-mode guard-page
arena, with sbepp's assertion handler installed.
Oracle 1 (the property): memory at or beyond p+n was touched (hardware fault record) => the
assertion handler was invoked during that operation.  A check that comes after the access ("late")
satisfies the statement and is counted in the evidence.
Oracle 2 (converse): from n = end of the entity the operation addresses (in particular n = full) the
handler must not fire.
"""
import re

from .. import build, codec, common as C, gen_ops as O, refmodel as R, schema as S
from . import c06
from ..findings import Report


def main():
    rep = Report("C10", "fault_enumeration")
    quick = rep.tier == "quick"
    schemas = S.corpus() + S.random_schemas(rep.seed, 2 if quick else 25)
    if quick:
        schemas = [s for s in schemas if s.name in ("prims_le", "hdrs_be", "layout_le")] + schemas[6:]
    # -O0 first: an access whose result is discarded still happens (at -O1 dead loads vanish and with them the fault
    # the monitor waits for -- the lesson of C06's compiled-field-beyond-wire-block finding)
    cfgs = [build.Cfg("g++", "17", "plain", defs=("SBEPP_ENABLE_ASSERTS_WITH_HANDLER", "VRT_STEP_COUNTER"),
                      extra=("-O0", "-fsanitize-coverage=trace-pc"))]
    # views over std::byte (the byte type of the documentation's examples) in a second, optimised configuration
    cfgs.append(build.Cfg("g++", "20", "plain", defs=("SBEPP_ENABLE_ASSERTS_WITH_HANDLER", "VRT_STEP_COUNTER", "VRT_BYTE_KIND=2"),
                          extra=("-O1", "-fsanitize-coverage=trace-pc")))
    if not quick:
        cfgs.append(build.Cfg("g++", "11", "plain", defs=("SBEPP_ENABLE_ASSERTS_WITH_HANDLER", "VRT_STEP_COUNTER"),
                              extra=("-O1", "-fsanitize-coverage=trace-pc")))
        cfgs.append(build.Cfg("g++", "23", "plain", defs=("SBEPP_ENABLE_ASSERTS_WITH_HANDLER", "VRT_STEP_COUNTER"),
                              extra=("-O2", "-fsanitize-coverage=trace-pc")))
    max_full = 700 if quick else 2500
    nsteer = 6 if quick else 40
    rep.rule("per message of the covering corpus and seeded random schemas: one well-formed image (all groups non-empty, "
             "capped at %d bytes); every generated operation (field get/set named, by tag and through cursors with every "
             "wrapper - plain, init, dont_move, init_dont_move, skip - where the cursor is placed via cursor::pointer() "
             "without touching the buffer; setters both with a value read first and 'blind' with a default value, so that "
             "a checked read cannot hide a missing check in the write path; composite members; 8 array operations; "
             "19 <data> operations; 13 group operations incl. plain/dont_move/skip cursor forms; message header/size/"
             "visit/cursor/random-access walks) at entry indices {first, last} of every enclosing group x every buffer length n = "
             "0..full. An evaluation is one (operation, n) execution. distinct_nontrivial = distinct (schema, message, "
             "operation kind, member kind) whose run contained at least one n with an assertion and one without." % max_full)
    preps = [p for p in (codec.prepare(sc) for sc in schemas) if p.ok]
    gens = {}
    jobs = []
    for p in preps:
        g = O.OpsGen(p.schema)
        src = g.generate()
        gens[p.schema.name] = g
        for cfg in cfgs:
            jobs.append((p, g, src, cfg))

    def build_one(job):
        p, g, src, cfg = job
        ok, exe, out = build.compile_driver(src, cfg, inc_dirs=(p.gen["dir"],), dep_key=p.dep, name="c10-" + p.schema.package)
        return job, ok, exe, out

    built = []
    for (p, g, src, cfg), ok, exe, out in C.pmap(build_one, jobs):
        if not ok:
            errs = [l for l in out.splitlines() if "error" in l][:2]
            rep.inconc("C10 driver for %s does not compile under %s: %s" % (p.schema.name, cfg, errs))
            continue
        built.append((p, g, cfg, exe))

    def cases_for(p, g):
        m = p.model
        out = []
        for mi, msg in enumerate(p.schema.messages):
            rng = C.rng_for(rep.seed, "C10", p.schema.name, msg.name)
            vals = R.gen_values(m, msg, rng, max_group=2, max_data=5, force=True)
            image, _ = R.encode_message(m, msg, vals)
            if len(image) > max_full:
                vals = R.gen_values(m, msg, rng, max_group=1, max_data=2, force=True)
                image, _ = R.encode_message(m, msg, vals)
            if len(image) > max_full * 3:
                continue
            full = len(image)
            members = sum(len(lv.fields) + len(lv.groups) + len(lv.data) for _, lv in msg.walk_levels())
            cap = max(2000000, 6000 * (full + members + 16))
            for oi, op in enumerate(g.ops[mi]):
                # entry indices: first and last of every enclosing group
                choices = [[]]
                ok = True
                for depth in range(len(op.path)):
                    nxt = []
                    for pre in choices:
                        loc = O.locate(m, msg, vals, op.path[:depth], pre)
                        if loc is None:
                            continue
                        lv, v, _, _ = loc
                        cnt = len(v.groups[op.path[depth]])
                        for i in sorted({0, cnt - 1}):
                            if i >= 0:
                                nxt.append(pre + [i])
                    choices = nxt
                for idx in choices:
                    loc = O.locate(m, msg, vals, op.path, idx)
                    if loc is None:
                        continue
                    lv, v, start, bl = loc
                    if op.extent_kind == "full" or op.extent_kind == "never-asserts":
                        ext = full
                    elif op.member[0] == "#msg":
                        ext = O.member_extent(m, lv, v, start, bl, op.member, op.extent_kind)
                    else:
                        ext = O.member_extent(m, lv, v, start, bl, op.member, op.extent_kind)
                    cid = "o%d" % len(out)
                    out.append(dict(id=cid, mi=mi, oi=oi, op=op, idx=idx, extent=ext, full=full, msg=msg, image=image, steered=None, ns=full + 1,
                                    cmd="OPS %s %x %x %x%s %x 1 %s" % (cid, mi, oi, len(idx), "".join(" %x" % i for i in idx), cap, image.hex() or "-")))
            # steering images: one length field (message/group blockLength, numInGroup, <data> length) overwritten with a
            # value at or near the maximum of its type (where `prefix + length` or `count * blockLength` wraps in a narrow
            # type), slightly too large, or zero.  Only oracle 1 applies (the extent is no longer what the model says);
            # buffer lengths are sampled (every `step` bytes and the full length).
            _, owner = R.encode_message(m, msg, vals)
            lf = c06.length_fields(m, msg, vals, image, owner)
            combos = []
            for off, size, kind in lf:
                mx = 2 ** (8 * size) - 1
                for v in (mx, mx - 1, mx - size, mx - size + 1, 2 ** (8 * size - 1), 0, len(image)):
                    combos.append((off, size, kind, v & mx))
            rng2 = C.rng_for(rep.seed, "C10-steer", p.schema.name, msg.name)
            rng2.shuffle(combos)
            step = max(1, full // 24)
            for off, size, kind, v in combos[:nsteer]:
                img2 = bytearray(image)
                img2[off:off + size] = v.to_bytes(size, "big" if m.big else "little")
                img2 = bytes(img2)
                for oi, op in enumerate(g.ops[mi]):
                    if op.kind in ("message-size_bytes_checked",) or op.kind in O.SIZE_AS_ARGUMENT or len(op.path) > 1:
                        continue
                    idx = [0] * len(op.path)
                    cid = "o%d" % len(out)
                    out.append(dict(id=cid, mi=mi, oi=oi, op=op, idx=idx, extent=None, full=full, msg=msg, image=img2,
                                    steered="%s@%d=%d" % (kind, off, v), ns=full // step + 2,
                                    cmd="OPS %s %x %x %x%s %x %x %s" % (cid, mi, oi, len(idx), "".join(" %x" % i for i in idx), cap, step, img2.hex())))
        return out

    all_cases = {p.schema.name: cases_for(p, gens[p.schema.name]) for p in preps}

    def run_one(item):
        p, g, cfg, exe = item
        cases = all_cases[p.schema.name]
        res = {}
        # split into chunks so that all cores are used and a crash loses little
        chunks = [cases[i:i + 40] for i in range(0, len(cases), 40)]

        def run_chunk(ch):
            got = {}
            pending = list(ch)
            died = []
            guard = 0
            while pending and guard < 10:
                guard += 1
                inp = "\n".join(c["cmd"] for c in pending) + "\n"
                rc, o, _, to = C.run([exe], input=inp.encode(), timeout=900)
                txt = o.decode(errors="replace")
                for mm in re.finditer(r"^O (\S+) first_ok=(-?\d+) asserts=(\d+) faults=(\d+) silent=(\S+) late=(\S+) runaway=(\S+) before=(\S+) aborted=(\S+) last_assert_in=(\S+)$", txt, re.M):
                    got[mm.group(1)] = mm.groups()
                if rc == 0 and not to:
                    break
                done = [c for c in pending if c["id"] in got]
                nxt = pending[len(done):]
                if nxt:
                    died.append((nxt[0], rc, txt[-300:]))
                pending = nxt[1:]
            return got, died
        deaths = []
        for got, died in C.pmap(run_chunk, chunks, workers=max(2, C.NCPU // max(1, len(built)))):
            res.update(got)
            deaths += died
        return item, res, deaths

    for (p, g, cfg, exe), res, deaths in C.pmap(run_one, built, workers=min(len(built), 8) or 1):
        m = p.model
        name = p.schema.name
        for c, rc, tail in deaths:
            rep.violation("crash", c["op"].kind, "%s/%s: operation driver died rc=%s on %s of %s: %s" % (
                name, cfg, rc, c["op"].kind, c["op"].member, tail), {"schema": name, "schema_xml": p.xml, "command": c["cmd"][:2000]})
        for c in all_cases[name]:
            r = res.get(c["id"])
            if r is None:
                continue
            _, first_ok, asserts, faults, silent, late, runaway, before, aborted, afunc = r
            first_ok, asserts, faults = int(first_ok), int(asserts), int(faults)
            op = c["op"]
            rep.evaluation(c["ns"])
            rep.count("op_n_pairs", c["ns"])
            if c["steered"]:
                rep.count("steered_op_runs")
            rep.count("handler_calls", asserts)
            rep.count("faults", faults)
            mk = codec.member_kind(m, c["msg"], ".".join(op.path + [op.member[0]] + list(op.member[1]))) if op.member[0] != "#msg" else "message"
            if asserts and (first_ok >= 0 or c["steered"]):
                rep.nontrivial(name, c["msg"].name, op.kind, mk, "steered" if c["steered"] else "")
            rep.cov.setdefault("op_kinds", {})
            rep.cov["op_kinds"][op.kind] = rep.cov["op_kinds"].get(op.kind, 0) + 1
            replay = {"schema": name, "schema_xml": p.xml, "config": str(cfg), "message": c["msg"].name, "operation": op.kind, "steered": c["steered"],
                      "member": ".".join(op.path + [op.member[0]] + list(op.member[1])), "entry_indices": c["idx"], "body": op.body,
                      "image_hex": c["image"].hex(), "extent": c["extent"], "observed": {"first_ok": first_ok, "asserts": asserts,
                      "faults": faults, "silent": silent, "late": late[:200], "last_assert_in": afunc}}
            if late != "-":
                rep.count("oob_before_handler", late.count(","))
                lk = rep.cov.setdefault("oob_before_handler_by_operation", {})
                lk[op.kind] = lk.get(op.kind, 0) + late.count(",")
            if runaway != "-":
                rep.count("runaway_cases", runaway.count(","))
            if before != "-":
                rep.count("faults_in_front_of_buffer_not_judged", before.count(","))
            if aborted != "-":
                rep.violation("oob-abandoned", "%s/%s" % (op.kind, mk.split(":")[0]),
                              "%s/%s msg %s: %s on %s kept touching memory at/after the end of an n-byte view (more than 16 MiB of it, or "
                              "outside the 8 GiB window) without the assertion handler having been invoked; abandoned (n:first offset "
                              "list %s)%s" % (name, cfg, c["msg"].name, op.kind, replay["member"], aborted[:120],
                                             "; image steered: " + c["steered"] if c["steered"] else ""), replay)
            if silent != "-":
                first = silent.split(",")[0]
                rep.violation("silent-oob", "%s/%s" % (op.kind, mk.split(":")[0]),
                              "%s/%s msg %s: %s on %s touched memory at/after the end of an n-byte view without the assertion "
                              "handler being invoked (n:offset list %s)%s" % (name, cfg, c["msg"].name, op.kind, replay["member"], silent[:120],
                                                                                 "; image steered: " + c["steered"] if c["steered"] else ""),
                              replay)
            ext = c["extent"]
            if not c["steered"] and op.extent_kind not in ("none",) and ext is not None and ext <= c["full"]:
                if first_ok < 0 or first_ok > ext:
                    rep.violation("spurious-assert", "%s/%s" % (op.kind, mk.split(":")[0]),
                                  "%s/%s msg %s: %s on %s still invokes the handler (in %s) with a buffer of %s bytes although the entity "
                                  "ends at offset %d (first assertion-free n = %d)" % (
                                      name, cfg, c["msg"].name, op.kind, replay["member"], afunc,
                                      "every length up to full=%d" % c["full"] if first_ok < 0 else ">= %d" % ext, ext, first_ok), replay)
                elif len(rep.cov["samples"]) < 6 and asserts and op.kind in ("data-push_back", "group-walk", "set", "array-fill", "message-visit"):
                    rep.sample({"schema": name, "message": c["msg"].name, "operation": op.kind, "member": replay["member"],
                                "entry_indices": c["idx"], "full": c["full"], "entity_end": ext, "first_assertion_free_n": first_ok,
                                "n_with_assertion": asserts, "n_with_fault_then_assertion": late.count(",") if late != "-" else 0})
    rep.cov["configs"] = [str(c) for c in cfgs]
    rep.cov["schemas"] = [p.schema.name for p in preps]
    rep.cov["exhaustive"] = True
    rep.assumptions += ["arguments are otherwise valid (indices inside the group, push_back only below max_size, writes store values that were read)",
                        "an access is observable inside the 8 GiB PROT_NONE reservation behind the buffer and in the 64 KiB guard in front of it",
                        "a check that fires after the access (late) satisfies 'not silently' and is only counted"]
    return rep.finish()
