"""C04 -- cursor access is equivalent to random access and tracks position.

Protocol exploration.  For every level instance (message; first and last entry of every group at
every depth) of well-formed images (exact and with inflated wire block lengths) the set of cursor
positions reachable by legal actions from init_cursor is closed under all actions (breadth-first,
complete), and extended with hostile positions (every member boundary, +-1).  From *every* such
state *every* action (member x {plain, init, dont_move, init_dont_move, skip} x {get, set}) is
executed by the generated interpreter (vf/gen_cur.py) in a checked build with sbepp's assertion
handler as the monitor.  Oracle = protocol model: legal => same value / same view address as random
access, cursor exactly at the documented position, buffer untouched (get) or only the field changed
(set); illegal => handler invoked, cursor and buffer unchanged.  Complete traversals (cursor ends at
the message end, size_bytes(m, c)) are part of C02/C03's cursor modes on the same generator.
"""
import re

from .. import build, codec, common as C, gen_cur as GC, gen_driver as GD, gen_ops as O, refmodel as R, schema as S
from ..findings import Report


FORMS = ["cursor_range", "cursor_subrange(pos)", "cursor_subrange(pos,count)", "cursor_begin/cursor_end"]


def check_range(rep, p, cfg, name, image, c, r):
    _, asserted, count, cur, addrs, wstate, afunc, dump = r
    asserted, count, cur = int(asserted), int(count), int(cur)
    rep.evaluation()
    rep.count("range_iterations")
    rep.count("range_entries_visited", count)
    rep.count("assertions_seen", asserted)
    what = "%s over group `%s` (size %d) at level %s%s with pos=%d count=%d, cursor at %d" % (
        FORMS[c["form"]], c["group"], c["size"], "/".join(c["path"]) or "<message>", c["idx"], c["pos"], c["count"], c["state"])
    replay = {"schema": name, "schema_xml": p.xml, "config": str(cfg), "message": c["msg"].name, "image": image.hex(), "command": c["cmd"],
              "expected": {"legal": c["legal"], "entries_at": c["exp_addrs"], "cursor_end": c["exp_end"], "dump": c["exp_lines"][:40]},
              "observed": {"asserted": asserted, "entries": count, "cursor": cur, "entries_at": addrs, "dump": dump[:2000], "assert_in": afunc}}
    site = "cursor-range/form%d" % c["form"]
    rep.nontrivial(name, c["msg"].name, tuple(c["path"]), "range", c["form"], c["legal"], min(c["size"], 2), min(c["pos"], 2))
    if not c["legal"]:
        if not asserted:
            rep.violation("missing-assert", site, "%s/%s msg %s: precondition violation was not reported (%d entries visited): %s" % (
                name, cfg, c["msg"].name, count, what), replay)
        return
    if asserted:
        rep.violation("spurious-assert", site, "%s/%s msg %s: legal iteration asserted in %s: %s" % (name, cfg, c["msg"].name, afunc, what), replay)
        return
    got_addrs = [int(x) for x in addrs.split(",") if x and x != "-"]
    if count != len(c["exp_addrs"]) or got_addrs != c["exp_addrs"]:
        rep.violation("range-entries", site, "%s/%s msg %s: visited %d entries at %s, random access has %d entries at %s: %s" % (
            name, cfg, c["msg"].name, count, got_addrs[:6], len(c["exp_addrs"]), c["exp_addrs"][:6], what), replay)
        return
    lines = [x for x in dump.split("|") if x]
    if lines != c["exp_lines"]:
        d = codec.first_diff(c["exp_lines"], lines)
        rep.violation("value-mismatch", site, "%s/%s msg %s: entry dump differs at line %s: expected `%s` observed `%s`: %s" % (
            name, cfg, c["msg"].name, d[0], d[1][:120], d[2][:120], what), replay)
    if cur != c["exp_end"]:
        rep.violation("cursor-position", site, "%s/%s msg %s: cursor left at %d, end of the last visited entry is %d: %s" % (
            name, cfg, c["msg"].name, cur, c["exp_end"], what), replay)
    if wstate != "unchanged":
        rep.violation("buffer-state", site, "%s/%s msg %s: iteration modified the buffer: %s" % (name, cfg, c["msg"].name, what), replay)


def main():
    rep = Report("C04", "exploration")
    quick = rep.tier == "quick"
    schemas = S.corpus() + S.random_schemas(rep.seed, 2 if quick else 25)
    if quick:
        schemas = [s for s in schemas if s.name in ("prims_le", "hdrs_le", "layout_be")] + schemas[6:]
    # the last configuration is a build *without* checks (ASan watches it): sbepp.hpp has separate arms for
    # SBEPP_SIZE_CHECKS_ENABLED on and off; only the legal actions are run there (an illegal one is UB without checks)
    UNCHECKED = build.Cfg("g++", "14", "san", defs=("SBEPP_DISABLE_ASSERTS",))
    cfgs = [build.Cfg("g++", "17", "san", defs=("SBEPP_ENABLE_ASSERTS_WITH_HANDLER",)), UNCHECKED]
    if not quick:
        cfgs += [build.Cfg("clang++", "11", "san", defs=("SBEPP_ENABLE_ASSERTS_WITH_HANDLER",)),
                 build.Cfg("g++", "20", "plain", defs=("SBEPP_ENABLE_ASSERTS_WITH_HANDLER",)),
                 build.Cfg("clang++", "23", "plain", defs=("SBEPP_ENABLE_ASSERTS_WITH_HANDLER",))]
    cap = 2500 if quick else 30000
    rep.rule("per message: an exact image and an image with inflated wire block lengths (all groups non-empty); per level "
             "instance (message, first/last entry of every group path): all cursor positions reachable by legal actions from "
             "init_cursor (closed breadth-first, i.e. action sequences of any length) plus every member boundary and +-1; "
             "from every state every (member, wrapper, get/set) action (capped at %d sampled (state, action) pairs per level "
             "instance; reachable states are never dropped). states = distinct (level instance, cursor offset), transitions = "
             "(state, action) pairs executed; distinct_nontrivial = distinct (schema, message, level, member kind, wrapper, "
             "legal?) combinations." % cap)
    preps = [p for p in (codec.prepare(sc) for sc in schemas) if p.ok]
    gens = {}
    jobs = []
    for p in preps:
        g = GC.CurGen(p.schema)
        src = g.generate()
        gens[p.schema.name] = g
        for cfg in cfgs:
            jobs.append((p, g, src, cfg))

    def build_one(job):
        p, g, src, cfg = job
        ok, exe, out = build.compile_driver(src, cfg, inc_dirs=(p.gen["dir"],), dep_key=p.dep, name="c04-" + p.schema.package)
        return job, ok, exe, out

    built = []
    for (p, g, src, cfg), ok, exe, out in C.pmap(build_one, jobs):
        if not ok:
            errs = [l for l in out.splitlines() if "error" in l][:2]
            rep.inconc("C04 interpreter for %s does not compile under %s: %s" % (p.schema.name, cfg, errs))
            continue
        built.append((p, g, cfg, exe))

    def cases_for(p, g):
        m = p.model
        batches = []     # one batch per image: ("IMG hex", [cases])
        for mi, msg in enumerate(p.schema.messages):
            rng = C.rng_for(rep.seed, "C04", p.schema.name, msg.name)
            for inflate, force in ((False, True), (True, True), (True, False)):
                vals = R.gen_values(m, msg, rng, max_group=3 if not force else 2, max_data=4, inflate=inflate, force=force)
                if inflate:
                    pre = bytes(rng.getrandbits(8) for _ in range(R.message_size(m, msg, vals)))
                    (arena, end), _ = R.encode_message(m, msg, vals, prefill=pre)
                    image = arena[:end]
                else:
                    image, _ = R.encode_message(m, msg, vals)
                cases = []
                for path, lv in msg.walk_levels():
                    lid = g.lid(lv)
                    # entry index choices: first and last per enclosing group
                    choices = [[]]
                    for depth in range(len(path)):
                        nxt = []
                        for pre_ in choices:
                            loc = locate(m, msg, vals, path[:depth], pre_)
                            if loc is None:
                                continue
                            cnt = len(loc[1].groups[path[depth]])
                            nxt += [pre_ + [i] for i in sorted({0, cnt - 1}) if i >= 0]
                        choices = nxt
                    for idx in choices:
                        loc = locate(m, msg, vals, path, idx)
                        if loc is None:
                            continue
                        level, v, start, bl = loc
                        li = GC.LevelInstance(m, level, v, start, bl)
                        if not li.members:
                            continue
                        # cursor ranges and subranges of every group of this level instance
                        for gi, grp in enumerate(level.groups):
                            d = [x for x in li.members if x["kind"] == "group" and x["name"] == grp.name][0]
                            entries = v.groups[grp.name]
                            gbl = m.level_layout(grp)[2] + (entries[0].extra if entries else v.groups.get(("extra", grp.name), 0))
                            starts = [d["start"] + d["hdr"]]
                            for ev in entries:
                                starts.append(starts[-1] + R.level_size(m, grp, ev, gbl))
                            n = len(entries)
                            combos = [(0, 0, 0), (3, 0, 0)]
                            for pos in range(n + 2):
                                combos.append((1, pos, 0))
                                for cnt in range(max(0, n - pos) + 2):
                                    combos.append((2, pos, cnt))
                            for form, pos, cnt in combos:
                                if form in (0, 3):
                                    legal, first, num = True, 0, n
                                elif form == 1:
                                    legal, first, num = pos < n, pos, n - pos
                                else:
                                    legal, first, num = (pos < n and cnt <= n - pos), pos, cnt
                                exp_lines = []
                                if legal:
                                    for i in range(num):
                                        GD.expected_level(m, grp, entries[first + i], "e[%d]." % i, False, exp_lines, gbl)
                                cur0 = starts[first] if first <= n else starts[-1]
                                cid = "r%d" % len(cases)
                                cases.append(dict(id=cid, kind="rng", msg=msg, path=path, idx=idx, li=li, group=grp.name, form=form, pos=pos,
                                                  count=cnt, legal=legal, inflate=inflate, size=n, state=cur0,
                                                  exp_addrs=[starts[first + i] for i in range(num)] if legal else [],
                                                  exp_end=(starts[first + num] if legal else cur0), exp_lines=exp_lines,
                                                  cmd="RNG %s %x %x %x%s %d %x %x %x %x" % (
                                                      cid, mi, lid, len(idx), "".join(" %x" % i for i in idx), cur0, gi, form, pos, cnt)))
                        if not force:
                            continue
                        nact = []
                        for mem_i, d in enumerate(li.members):
                            for w in range(5):
                                nact.append((mem_i, w, False))
                            if d["kind"] == "scalar":
                                for w in range(4):
                                    nact.append((mem_i, w, True))
                        # closure of legally reachable states
                        reach = {li.L}
                        frontier = [li.L]
                        while frontier:
                            s = frontier.pop()
                            for mem_i, w, st in nact:
                                legal, _, new, _ = li.predict(s, mem_i, w, st)
                                if legal and new not in reach:
                                    reach.add(new)
                                    frontier.append(new)
                        hostile = set()
                        for o in li.interesting_offsets():
                            hostile |= {o, o + 1, o - 1}
                        hostile = {h for h in hostile if 0 <= h <= len(image) + 8} - reach
                        pairs = [(s, a) for s in sorted(reach) for a in nact]
                        hp = [(s, a) for s in sorted(hostile) for a in nact]
                        room = max(0, cap - len(pairs))
                        if len(hp) > room:
                            hp = rng.sample(hp, room)
                        for s, (mem_i, w, st) in pairs + hp:
                            d = li.members[mem_i]
                            legal, exp_assert, new, text = li.predict(s, mem_i, w, st)
                            cid = "a%d" % (len(cases))
                            cases.append(dict(id=cid, msg=msg, path=path, idx=idx, li=li, state=s, member=mem_i, w=w, set=st, legal=legal,
                                              new=new, text=text, reachable=s in reach, inflate=inflate,
                                              cmd="ACT %s %x %x %x %s %d %x %x %x %x %x" % (
                                                  cid, mi, lid, len(idx), " ".join("%x" % i for i in idx), s, mem_i, w, 1 if st else 0,
                                                  d["start"], d.get("size", 0)) if idx else
                                              "ACT %s %x %x 0 %d %x %x %x %x %x" % (cid, mi, lid, s, mem_i, w, 1 if st else 0, d["start"], d.get("size", 0))))
                batches.append(("IMG " + (image.hex() or "-"), cases, image))
        return batches

    from ..gen_ops import locate
    all_batches = {p.schema.name: cases_for(p, gens[p.schema.name]) for p in preps}

    def run_one(item):
        p, g, cfg, exe = item
        out = []

        def run_batch(b):
            img_cmd, cases, image = b
            res = {}
            pending = [c for c in cases if c["legal"]] if str(cfg) == str(UNCHECKED) else list(cases)
            deaths = []
            guard = 0
            while pending and guard < 20:
                guard += 1
                inp = img_cmd + "\n" + "\n".join(c["cmd"] for c in pending) + "\n"
                rc, o, _, to = C.run([exe], input=inp.encode(), timeout=900, env=build.drv_env())
                txt = o.decode(errors="replace")
                for mm in re.finditer(r"^A (\S+) (\d) (\S+) (-?\d+) (\S+) (\S+)$", txt, re.M):
                    res[mm.group(1)] = mm.groups()
                for mm in re.finditer(r"^G (\S+) (\d) (\d+) (-?\d+) (\S+) (\S+) (\S+) #(.*)$", txt, re.M):
                    res[mm.group(1)] = mm.groups()
                ub = build.ubsan_reports(txt)
                if rc == 0 and not to:
                    return res, deaths, ub
                done = [c for c in pending if c["id"] in res]
                nxt = pending[len(done):]
                if nxt:
                    k = txt.find("ERROR: AddressSanitizer")
                    deaths.append((nxt[0], rc, txt[k:k + 1500] if k >= 0 else txt[-600:]))
                pending = nxt[1:]
            return res, deaths, []
        for b, (res, deaths, ub) in zip(all_batches[p.schema.name], C.pmap(run_batch, all_batches[p.schema.name], workers=max(2, C.NCPU // max(1, len(built))))):
            out.append((b, res, deaths, ub))
        return item, out

    states = set()
    for (p, g, cfg, exe), out in C.pmap(run_one, built, workers=min(8, len(built)) or 1):
        m = p.model
        name = p.schema.name
        for (img_cmd, cases, image), res, deaths, ub in out:
            for msg_, f, line in ub:
                rep.violation("ubsan:" + msg_, f, "%s/%s: %s" % (name, cfg, line), {"schema": name, "schema_xml": p.xml, "report": line})
            for c, rc, tail in deaths:
                if c.get("kind") == "rng":
                    rep.violation("asan" if "AddressSanitizer" in tail else "crash", "cursor-range/form%d/%s" % (c["form"], "legal" if c["legal"] else "illegal"),
                                  "%s/%s msg %s: interpreter died (rc=%s) iterating group %s (form %d pos %d count %d, size %d): %s" % (
                                      name, cfg, c["msg"].name, rc, c["group"], c["form"], c["pos"], c["count"], c["size"], tail[:600]),
                                  {"schema": name, "schema_xml": p.xml, "config": str(cfg), "image": image.hex(), "command": c["cmd"]})
                    continue
                d = c["li"].members[c["member"]]
                klass = "asan" if "AddressSanitizer" in tail else "crash"
                rep.violation(klass, "%s/%s/%s" % (d["kind"], GC.WRAPPERS[c["w"]], "legal" if c["legal"] else "illegal"),
                              "%s/%s msg %s: interpreter died (rc=%s) on %s %s of %s with cursor at %d (%s): %s" % (
                                  name, cfg, c["msg"].name, rc, GC.WRAPPERS[c["w"]], "set" if c["set"] else "get", d["name"], c["state"],
                                  "legal" if c["legal"] else "illegal", tail[:600]),
                              {"schema": name, "schema_xml": p.xml, "config": str(cfg), "image": image.hex(), "command": c["cmd"]})
            for c in cases:
                r = res.get(c["id"])
                if r is None:
                    continue
                if c.get("kind") == "rng":
                    check_range(rep, p, cfg, name, image, c, r)
                    states.add((name, c["msg"].name, tuple(c["path"]), tuple(c["idx"]), c["inflate"], c["state"]))
                    continue
                _, asserted, text, cur, wstate, afunc = r
                asserted, cur = int(asserted), int(cur)
                li = c["li"]
                d = li.members[c["member"]]
                rep.evaluation()
                states.add((name, c["msg"].name, tuple(c["path"]), tuple(c["idx"]), c["inflate"], c["state"]))
                rep.count("transitions")
                rep.count("legal" if c["legal"] else "illegal")
                rep.count("assertions_seen", asserted)
                rep.nontrivial(name, c["msg"].name, tuple(c["path"]), d["kind"], c["w"], c["set"], c["legal"])
                what = "%s %s of `%s` (%s%s) at level %s%s, cursor at %d (%s state), level starts at %d, wire blockLength %d" % (
                    GC.WRAPPERS[c["w"]], "set" if c["set"] else "get", d["name"], d["kind"],
                    ", last field" if d.get("last") else (", first variable-length member" if d.get("first_dynamic") else ""),
                    "/".join(c["path"]) or "<message>", c["idx"], c["state"], "reachable" if c["reachable"] else "hostile", li.L, li.BL)
                replay = {"schema": name, "schema_xml": p.xml, "config": str(cfg), "message": c["msg"].name, "image": image.hex(),
                          "command": c["cmd"], "expected": {"legal": c["legal"], "cursor": c["new"], "text": c["text"]},
                          "observed": {"asserted": asserted, "text": text, "cursor": cur, "buffer": wstate, "assert_in": afunc}}
                site = "%s/%s/%s" % (d["kind"] + ("-last" if d.get("last") else "") + ("-first-dynamic" if d.get("first_dynamic") else ""),
                                     GC.WRAPPERS[c["w"]], "set" if c["set"] else "get")
                if c["legal"]:
                    if asserted:
                        rep.violation("spurious-assert", site, "%s/%s msg %s: legal action asserted in %s: %s" % (name, cfg, c["msg"].name, afunc, what), replay)
                        continue
                    if text != c["text"]:
                        rep.violation("value-mismatch", site, "%s/%s msg %s: returned %s, random access gives %s: %s" % (
                            name, cfg, c["msg"].name, text, c["text"], what), replay)
                    if cur != c["new"]:
                        rep.violation("cursor-position", site, "%s/%s msg %s: cursor left at %d, documented position is %d: %s" % (
                            name, cfg, c["msg"].name, cur, c["new"], what), replay)
                    expw = "field-changed" if c["set"] else "unchanged"
                    if wstate != expw:
                        rep.violation("buffer-state", site, "%s/%s msg %s: buffer is `%s`, expected `%s`: %s" % (
                            name, cfg, c["msg"].name, wstate, expw, what), replay)
                    elif len(rep.cov["samples"]) < 4 and c["w"] in (2, 3, 4) and d["kind"] in ("group", "data") and not c["inflate"]:
                        rep.sample({"schema": name, "message": c["msg"].name, "action": what, "returned": text, "cursor_after": cur})
                else:
                    if not asserted:
                        rep.violation("missing-assert", site, "%s/%s msg %s: misplaced cursor was not reported (returned %s, cursor now %d, "
                                      "buffer %s): %s" % (name, cfg, c["msg"].name, text, cur, wstate, what), replay)
                    elif wstate != "unchanged" or cur != c["state"]:
                        rep.violation("illegal-action-had-effect", site, "%s/%s msg %s: reported, but cursor moved to %d / buffer %s: %s" % (
                            name, cfg, c["msg"].name, cur, wstate, what), replay)
                    elif len(rep.cov["samples"]) < 6 and c["reachable"]:
                        rep.sample({"schema": name, "message": c["msg"].name, "action": what, "reported_by": afunc})
    rep.cov["states"] = len(states)
    rep.cov["configs"] = [str(c) for c in cfgs]
    rep.cov["schemas"] = [p.schema.name for p in preps]
    rep.assumptions += ["legality is decided by actual pointer equality, exactly as the library defines it",
                        "cursor ranges/subranges and complete traversals are exercised by the cursor modes of C02/C03/C19"]
    return rep.finish()
