"""C09 -- sbeppc is total: any input gives exit 0 or a diagnostic, never a crash.

Workload: structure-aware mutations of valid schemas (corpus, random, the repository's test
schemas), byte-level damage, include graphs and an argv grammar.  Monitor: the ASan+UBSan,
assert-enabled, _GLIBCXX_ASSERTIONS build of sbeppc; wait status, sanitizer/assert output, stdout
and the output directory are observed for every run.  Held iff exit 0, or exit != 0 with an
`Error` line and no file left behind.
"""
import os
import re
import shutil
import tempfile

from .. import build, common as C, mutate as M, schema as S, split as SP
from ..findings import Report

TIMEOUT = 25


def base_schemas(seed, nrandom):
    out = [(s.name, s.to_xml()) for s in S.corpus()[::2]] + [("attrs", S.corpus_attrs().to_xml())] + \
          [(s.name, s.to_xml()) for s in S.random_schemas(seed, nrandom)]
    for n in ("test_schema", "test_schema2", "traits_test_schema", "big_endian_schema"):
        out.append(("repo:" + n, C.read_text(os.path.join(C.REPO, "test/schemas/%s.xml" % n))))
    return out


def norm(txt):
    txt = re.sub(r"0x[0-9a-fA-F]+", "P", txt)
    return re.sub(r"\d+", "N", txt)


def top_frame(out):
    """Innermost sbeppc frame of a sanitizer stack, template arguments and line numbers stripped."""
    for mm in re.finditer(r"#\d+ \S+ in (.+?) (?:/|\()", out):
        fn = mm.group(1)
        if "sbepp::sbeppc" in fn or fn.startswith("main") or "(anonymous namespace)" in fn:
            fn = re.sub(r"<.*>", "", fn)
            fn = re.sub(r"\(.*\)", "", fn)
            fn = re.sub(r"\[.*\]", "", fn)
            return fn.strip().replace("sbepp::sbeppc::", "")
    return "?"


def resource_site(data):
    """Which input feature explains a hang / out-of-memory outcome (so that a different cause is a different key)."""
    try:
        txt = data.decode(errors="replace")
    except AttributeError:
        txt = data
    total = 0
    for mm in re.finditer(r"<(?:\w+:)?type\b[^>]*>", txt):
        tag = mm.group(0)
        lm = re.search(r'length\s*=\s*["\'](\d+)["\']', tag)
        if lm and re.search(r'presence\s*=\s*["\']constant["\']', tag):
            # the known defect costs time and memory proportional to the constant's length, so many long constants
            # in one file are the same cause as one huge constant
            total += int(lm.group(1))
    if total >= 10 ** 7:
        return "char-constant-huge-length"
    return "?"


DBG_EVERY = 4


def classify(rc, to, out, outdir, data=b""):
    """Returns None if the run satisfies the property, else (class, site, summary)."""
    if to:
        return ("hang", resource_site(data), "no exit within %ds" % TIMEOUT)
    ub = build.ubsan_reports(out)
    if ub:
        msg, f, line = ub[0]
        return ("ubsan:" + msg, f, line)
    if "AddressSanitizer" in out:
        mm = re.search(r"ERROR: AddressSanitizer: ([\w-]+)", out)
        kind = mm.group(1) if mm else "?"
        if "hard rss limit" in out or "allocation-size-too-big" in out or "out-of-memory" in out or "requested allocation size" in out:
            return ("asan:out-of-memory", resource_site(data), out[out.find("ERROR: AddressSanitizer"):][:600])
        return ("asan:" + kind, top_frame(out), out[out.find("ERROR: AddressSanitizer"):][:600])
    if "hard rss limit exhausted" in out or "hard RSS limit" in out:
        return ("asan:out-of-memory", resource_site(data), out[-400:])
    if "In function:" in out and "/debug/" in out:
        # libstdc++ debug mode (sbeppc-dbg): invalidated / singular iterator, iterators of different containers, ...
        em = re.search(r"\nError: (.+?)[.\n]", out)
        # innermost frame of sbeppc in the backtrace the debug mode prints, else the library function it names
        fr = re.search(r"sbepp::sbeppc::([\w:~]+)\(", out[out.find("Backtrace:"):]) if "Backtrace:" in out else None
        fn = fr.group(1) if fr else "?"
        k = out.find("\nError: ")
        return ("glibcxx-debug:" + norm(em.group(1) if em else "?")[:60].replace(" ", "_"), fn,
                (out[k:k + 500] if k >= 0 else out[out.find("In function:"):][:500]))
    mm = re.search(r"terminate called after throwing an instance of '([^']+)'(?:\s+what\(\):\s*(.*))?", out)
    if mm:
        return ("abort:" + mm.group(1), norm((mm.group(2) or "").strip())[:60].replace(" ", "_"), mm.group(0)[:300])
    mm = re.search(r"(\S+?):\d+: (.+?): Assertion [`'](.+?)' failed", out)
    if mm:
        sig = re.sub(r"<[^<>]*>", "", mm.group(2))
        fm = re.search(r"((?:\w+::)*~?\w+)\s*\(", sig)
        fn = (fm.group(1) if fm else sig).replace("sbepp::sbeppc::", "")
        return ("assert", fn, mm.group(0)[:400])
    if rc is not None and rc < 0:
        return ("signal:%d" % -rc, "?", out[-300:])
    files = []
    for root, _, fs in os.walk(outdir):
        files += [os.path.join(root, f) for f in fs]
    if rc == 0:
        return None
    if "Error" not in out:
        return ("no-diagnostic", "exit%s" % rc, "exit %s without an Error line: %s" % (rc, out[-200:]))
    if files and re.search(r"can't (open|write|read) file|can't create directory", out):
        # an I/O failure while writing (e.g. ENAMETOOLONG for a 300-character type name), not a rejected schema:
        # exit status and diagnostic are what C20 asks for, partially written output is expected
        return None
    if files:
        mm = re.search(r"Error\S*: (?:\S+:\d+:\d+: )?(.*)", out)
        return ("leftover-files", norm(mm.group(1) if mm else "?")[:50].replace(" ", "_"),
                "rejected (%s) but %d generated file(s) were left behind" % (out.strip().splitlines()[-1][:150], len(files)))
    return None


def argv_cases(valid_xml_path, workdir):
    d = os.path.join(workdir, "argv")
    os.makedirs(d, exist_ok=True)
    unread = os.path.join(d, "unreadable.xml")
    C.write_file(unread, "<x/>")
    os.chmod(unread, 0)
    ro = os.path.join(d, "rodir")
    os.makedirs(ro, exist_ok=True)
    os.chmod(ro, 0o555)
    afile = os.path.join(d, "afile")
    C.write_file(afile, "x")
    v = valid_xml_path
    cases = [
        [], ["--help"], ["--version"], ["--"], ["--", v], ["--", "--help"], [v], [v, v], ["--schema-name"], ["--output-dir"],
        ["--inject-include"], ["--schema-name", "abc"], ["--schema-name", "abc", v], ["--schema-name", "class", v],
        ["--schema-name", "", v], ["--schema-name", "a b", v], ["--schema-name", "x", "--schema-name", "y", v],
        ["--output-dir", "OUT", v], ["--output-dir", "OUT", "--output-dir", "OUT/b", v], ["--output-dir", afile, v],
        ["--output-dir", ro, v], ["--output-dir", "", v], ["--output-dir", "/proc/nope", v], ["--output-dir", "OUT/" + "d/" * 40, v],
        ["--inject-include", "x.hpp", "--output-dir", "OUT", v], ["--inject-include", "a\"b", "--output-dir", "OUT", v],
        ["--inject-include", "", "--output-dir", "OUT", v], ["--unknown", v], ["-x"], ["-"], ["--output-dir", "OUT", "--", v],
        ["--output-dir", "OUT", "--", "--schema-name"], ["--output-dir", "OUT", d], ["--output-dir", "OUT", unread],
        ["--output-dir", "OUT", "/nonexistent/file.xml"], ["--output-dir", "OUT", ""], ["--output-dir", "OUT", "/dev/null"],
        ["--output-dir", "OUT", "/dev/zero"] if False else ["--output-dir", "OUT", "/proc/self/cmdline"],
        ["--output-dir", "OUT", v, "--schema-name", "late"], ["--schema-name", "x" * 5000, "--output-dir", "OUT", v],
        ["--output-dir", "OUT", "--schema-name", "std", v], ["--output-dir", "OUT", "--schema-name", "_Reserved", v],
        ["--help", "--version"], ["--version", v], [v, "--help"],
    ]
    return cases


FUZZ_DICT = ['<type ', '<composite ', '<enum ', '<set ', '<ref ', '<field ', '<group ', '<data ', '<validValue ', '<choice ',
             '<types>', '</types>', '<sbe:message ', '<sbe:messageSchema ', '<xi:include ', '<include ', 'name="', 'type="',
             'primitiveType="', 'encodingType="', 'presence="constant"', 'presence="optional"', 'presence="required"',
             'length="', 'offset="', 'blockLength="', 'dimensionType="', 'valueRef="', 'minValue="', 'maxValue="',
             'nullValue="', 'sinceVersion="', 'deprecated="', 'byteOrder="bigEndian"', 'characterEncoding="',
             'semanticType="', 'description="', 'headerType="', 'id="', 'version="', 'package="', 'href="',
             'uint8', 'uint16', 'uint32', 'uint64', 'int8', 'int16', 'int32', 'int64', 'char', 'float', 'double',
             'numInGroup', 'varData', 'messageHeader', 'groupSizeEncoding', 'templateId', 'schemaId', 'NaN',
             '18446744073709551615', '-9223372036854775808', '4294967296', '0', '{}', '&#0;', '<![CDATA[', '<?include '] + \
            ['href="%s"' % n for n in sorted(M.INCLUDE_FILES)]


def fuzz_leg(rep, bases, work, san_exe, san_env, total_runs, workers):
    """Coverage-guided leg: libFuzzer drives the in-process sbeppc (rt/fuzz_main.cpp) from the valid schemas.
    Every artifact is re-run (a) through the ordinary one-process-per-input monitor on the g++ sanitizer build and,
    if that run satisfies the property, (b) in a fresh process of the fuzz binary itself; only a reproduced failure is
    reported, an artifact that does not reproduce in a fresh process is an effect of running many inputs in one
    process (sbeppc's contract is per invocation) and is only counted."""
    fz = build.sbeppc_fuzz()
    root = os.path.join(work, "fuzz")
    seeds = os.path.join(root, "seeds")
    corp = os.path.join(root, "corpus")
    art = os.path.join(root, "art")
    cwd = os.path.join(root, "cwd")
    for d in (seeds, corp, art, cwd, os.path.join(cwd, "incdir")):
        os.makedirs(d)
    for n, t in M.INCLUDE_FILES.items():
        C.write_file(os.path.join(cwd, n), t)
    for i, (n, x) in enumerate(bases):
        C.write_file(os.path.join(seeds, "s%03d.xml" % i), x)
    dic = os.path.join(root, "dict.txt")
    C.write_file(dic, "".join('"%s"\n' % w.replace("\\", "\\\\").replace('"', '\\"') for w in FUZZ_DICT))
    env = dict(san_env)
    env["ASAN_OPTIONS"] = "abort_on_error=1:detect_leaks=0:quarantine_size_mb=8:detect_stack_use_after_return=0"
    env["UBSAN_OPTIONS"] = "print_stacktrace=1:halt_on_error=1"
    shm = "/dev/shm"
    ftmp = os.path.join(shm, "verif-c09-%d" % os.getpid()) if os.access(shm, os.W_OK) else os.path.join(root, "tmp")
    os.makedirs(ftmp)
    env["VRT_FUZZ_TMP"] = ftmp
    per_worker = max(1, total_runs // workers)
    stats = {"execs": 0, "cov": 0, "ft": 0, "restarts": 0, "artifacts": 0, "unreproduced": 0}
    seen_art = set()

    def triage(path):
        data = open(path, "rb").read()
        jd = os.path.join(root, "triage", os.path.basename(path))
        od = os.path.join(jd, "out")
        os.makedirs(od)
        xp = os.path.join(jd, "schema.xml")
        with open(xp, "wb") as f:
            f.write(data)
        v = None
        for t in (TIMEOUT, TIMEOUT * 3):
            rc, o, _, to = C.run([san_exe, "--output-dir", od, xp], timeout=t, env=san_env, cwd=cwd)
            out = o.decode(errors="replace")
            v = classify(rc, to, out, od, data)
            if not (v and v[0] == "hang"):
                break
        how = "sbeppc-san --output-dir out schema.xml"
        if not v:
            e2 = dict(env)
            e2["VRT_FUZZ_TMP"] = jd
            rc, o, _, to = C.run([fz, "-timeout=%d" % (TIMEOUT * 3), "-rss_limit_mb=3500", xp], timeout=TIMEOUT * 6, env=e2, cwd=cwd)
            out = o.decode(errors="replace")
            how = "sbeppc-fuzz (clang, in-process main) schema.xml"
            if "VRT-LEFTOVER" in out:
                v = ("leftover-files", "in-process", out[-400:])
            elif to or "ERROR: libFuzzer: timeout" in out:
                v = ("hang", resource_site(data), "libFuzzer timeout in a fresh process")
            elif "ERROR: libFuzzer: out-of-memory" in out:
                v = ("asan:out-of-memory", resource_site(data), out[-400:])
            elif rc != 0:
                od2 = os.path.join(jd, "none")
                v = classify(-6 if rc in (None, 134) or (rc and rc < 0) else rc, False, out, od2, data) or \
                    ("crash", top_frame(out), out[-600:])
        shutil.rmtree(jd, ignore_errors=True)
        return data, v, how, out

    def worker(w):
        done, restarts, logs = 0, 0, []
        last = (0, 0)
        while done < per_worker and restarts <= 25:
            lp = os.path.join(root, "w%d.%d.log" % (w, restarts))
            seed = (rep.seed * 1000003 + w * 101 + restarts) % (2 ** 31 - 1) + 1
            cmd = [fz, corp, seeds, "-dict=" + dic, "-max_len=20000", "-runs=%d" % (per_worker - done), "-seed=%d" % seed,
                   "-close_fd_mask=1", "-timeout=%d" % (TIMEOUT * 3), "-rss_limit_mb=3500", "-artifact_prefix=" + art + "/",
                   "-print_final_stats=1", "-verbosity=1", "-reload=1"]
            with open(lp, "wb") as lf:
                p = __import__("subprocess").Popen(cmd, stdout=lf, stderr=lf, stdin=__import__("subprocess").DEVNULL,
                                                    env=dict(os.environ, **env), cwd=cwd)
                try:
                    p.wait(timeout=6 * 3600)
                except Exception:
                    p.kill()
                    p.wait()
                    logs.append("watchdog")
            txt = open(lp, "rb").read().decode(errors="replace")
            mm = re.search(r"stat::number_of_executed_units:\s*(\d+)", txt)
            n = int(mm.group(1)) if mm else 0
            if not mm:
                allr = re.findall(r"^#(\d+)\t", txt, re.M)
                n = int(allr[-1]) if allr else 0
            cv = re.findall(r"cov: (\d+) ft: (\d+)", txt)
            if cv:
                last = (max(last[0], int(cv[-1][0])), max(last[1], int(cv[-1][1])))
            if "VRT-HARNESS" in txt:
                raise C.HarnessError("fuzz target could not write its input: " + txt[-300:])
            done += max(n, 1)
            if p.returncode == 0 and mm:
                break
            restarts += 1
        return done, last, restarts

    try:
        res = C.pmap(worker, list(range(workers)), workers=workers)
    finally:
        shutil.rmtree(ftmp, ignore_errors=True)
    for done, last, restarts in res:
        stats["execs"] += done
        stats["cov"] = max(stats["cov"], last[0])
        stats["ft"] = max(stats["ft"], last[1])
        stats["restarts"] += restarts
    arts = sorted(os.listdir(art))
    stats["artifacts"] = len(arts)
    for name, (data, v, how, out) in zip(arts, C.pmap(lambda a: triage(os.path.join(art, a)), arts)):
        if not v:
            stats["unreproduced"] += 1
            C.log("[C09 fuzz] artifact %s did not reproduce in a fresh process (in-process state effect), %d bytes" % (name, len(data)))
            continue
        klass, site, summary = v
        rep.violation(klass, site, "coverage-guided input %s: %s" % (name, summary[:500]),
                      {"input_name": "libfuzzer:" + name, "schema_bytes_hex": data.hex()[:200000],
                       "schema_text": data.decode(errors="replace")[:20000], "output": out[-3000:], "how": how})
    rep.evaluation(stats["execs"])
    rep.nontrivial("fuzz-cov", stats["cov"] // 50)
    rep.cov["fuzz_executions"] = stats["execs"]
    rep.cov["fuzz_edges_covered"] = stats["cov"]
    rep.cov["fuzz_features"] = stats["ft"]
    rep.cov["fuzz_corpus_units"] = len(os.listdir(corp))
    rep.cov["fuzz_artifacts"] = stats["artifacts"]
    rep.cov["fuzz_artifacts_not_reproduced_in_fresh_process"] = stats["unreproduced"]
    rep.cov["fuzz_worker_restarts"] = stats["restarts"]
    if stats["execs"] < total_runs // 2 or stats["cov"] < 3000:
        rep.inconc("coverage-guided leg executed %d of %d planned inputs, %d edges" % (stats["execs"], total_runs, stats["cov"]))


def main():
    rep = Report("C09", "exploration")
    quick = rep.tier == "quick"
    nmut = 6000 if quick else 200000
    exe = build.sbeppc("san")
    work = tempfile.mkdtemp(prefix="c09-", dir=C.ensure_dir(os.path.join(C.CACHE, "tmp")))
    rep.rule("structure-aware mutations (attribute deletion/garbling, extreme numbers, element duplication/removal/move/"
             "swap/retagging, reference retargeting, header-member variants, include insertion incl. missing/self/mutual/"
             "directory/bad files, text garbling; 8%% byte-level: truncation, flips, binary, empty) of valid schemas "
             "(covering corpus, seeded random, the repository's test schemas), 1-3 mutations each, plus a deterministic sweep of "
             "domain values (presence x every element, with/without valueRef or text; primitiveType; encodingType; type and "
             "dimensionType x every public name; numeric attribute forms; byteOrder) over corpus schemas, plus an argv grammar "
             "of ~45 command lines; every run executes the ASan+UBSan+assert build with its own output directory. An "
             "evaluation is one sbeppc run; distinct_nontrivial counts distinct (exit class, first diagnostic with "
             "digits and names normalised) outcomes observed, i.e. distinct behaviours reached. Coverage-guided leg: libFuzzer "
             "(clang, ASan+UBSan, asserts alive) runs sbeppc's real main() in-process from the same valid schemas with an SBE "
             "token dictionary; every artifact (crash, abort, sanitizer report, timeout, oom, leftover files of a rejected "
             "schema) is re-run in fresh processes and reported through the same classification; fuzz_executions, "
             "fuzz_edges_covered and fuzz_features say how far it got.")
    try:
        cwd = os.path.join(work, "cwd")
        os.makedirs(os.path.join(cwd, "incdir"))
        for n, t in M.INCLUDE_FILES.items():
            C.write_file(os.path.join(cwd, n), t)
        bases = base_schemas(rep.seed, 4 if quick else 30)
        C.write_file(os.path.join(cwd, "schema.xml"), bases[0][1])
        env = build.san_env()
        env["ASAN_OPTIONS"] = "abort_on_error=0:detect_leaks=0:exitcode=99:hard_rss_limit_mb=3000:allocator_may_return_null=0:detect_stack_use_after_return=0"

        # the unmutated schemas and the include files themselves must be handled too
        jobs = []
        for i, (n, x) in enumerate(bases):
            jobs.append(("base:" + n, x.encode(), "unmutated"))
        for n, t in M.INCLUDE_FILES.items():
            wrapper = bases[0][1].replace("    <types>", '    <xi:include xmlns:xi="http://www.w3.org/2001/XInclude" href="%s"/>\n    <types>' % n, 1)
            jobs.append(("include:" + n, wrapper.encode(), "include %s at top level" % n))
            jobs.append(("as-main:" + n, t.encode(), "include file given as the schema"))
        for ln in ("100000000", "2147483648"):
            x = re.sub(r'(<type name="C_strpad"[^>]*length=)"8"', r'\1"%s"' % ln, bases[0][1])
            if x != bases[0][1]:
                jobs.append(("huge-constant-length:" + ln, x.encode(), "char constant with length=%s" % ln))
        # deterministic sweep of domain values over every attribute that has a domain (corpus schemas)
        sweep_bases = [b for b in bases if b[0] in ("prims_le",)] if quick else [b for b in bases if not b[0].startswith("rnd")]
        nsweep = 0
        for n, x in sweep_bases:
            for desc, mx in M.typed_attribute_sweep(x, cap_per_kind=(250 if quick else 4000)):
                jobs.append(("sweep:%s" % n, mx, desc))
                nsweep += 1
        rep.cov["typed_attribute_sweep_inputs"] = nsweep
        ninc = 0
        for n, x in bases[:2]:
            for desc, mx in M.include_sweep(x):
                jobs.append(("include-sweep:%s" % n, mx, desc))
                ninc += 1
        rep.cov["include_sweep_inputs"] = ninc
        rng = C.rng_for(rep.seed, "c09")
        for i in range(nmut):
            n, x = bases[rng.randrange(len(bases))]
            mx, desc = M.mutate_xml(x, rng)
            jobs.append(("mut%d:%s" % (i, n), mx, desc))

        dbg_exe = build.sbeppc("dbg")
        dbg_runs = []

        def run_one(job, idx):
            name, data, desc = job
            jd = os.path.join(work, "j%d" % (idx % 64), str(idx))
            od = os.path.join(jd, "out")
            os.makedirs(od)
            xp = os.path.join(jd, "schema.xml")
            extra = []
            if idx % 3 == 0:
                # every third input is spread over several files (XInclude of the <types> block / of each message / both
                # / through an intermediate file) when its text still has the shape that allows it: diagnostics about
                # entities of an included file are produced long after that file's parser is gone
                try:
                    sp = SP.split(data.decode(), ("types", "messages", "both", "nested")[(idx // 3) % 4])
                except UnicodeDecodeError:
                    sp = None
                if sp is not None:
                    main = sp.main
                    for n in sp.files:
                        main = main.replace('href="%s"' % n, 'href="j%d_%s"' % (idx, n))
                    for n, t in sp.files.items():
                        for n2 in sp.files:
                            t = t.replace('href="%s"' % n2, 'href="j%d_%s"' % (idx, n2))
                        fp = os.path.join(cwd, "j%d_%s" % (idx, n))
                        C.write_file(fp, t)
                        extra.append(fp)
                    data = main.encode()
            with open(xp, "wb") as f:
                f.write(data)
            # what explains a resource outcome may sit in an included file
            alltext = data + (b"".join(b"\n<!-- included file -->\n" + t.encode() for t in sp.files.values()) if extra else b"")
            rc, o, _, to = C.run([exe, "--output-dir", od, xp], timeout=TIMEOUT, env=env, cwd=cwd)
            out = o.decode(errors="replace")
            v = classify(rc, to, out, od, alltext)
            if v and v[0] == "hang":
                rc, o, _, to = C.run([exe, "--output-dir", od, xp], timeout=TIMEOUT * 3, env=env, cwd=cwd)
                out = o.decode(errors="replace")
                v = classify(rc, to, out, od, alltext)
            if v is None and idx % DBG_EVERY == 1:
                # every DBG_EVERY-th input once more through the libstdc++ debug-mode build (safe iterators): library-level
                # undefined behaviour that ASan/UBSan cannot see; same oracle
                od2 = os.path.join(jd, "out-dbg")
                os.makedirs(od2)
                rc2, o2, _, to2 = C.run([dbg_exe, "--output-dir", od2, xp], timeout=TIMEOUT * 3, env={}, cwd=cwd)
                if not to2:
                    v2 = classify(rc2, to2, o2.decode(errors="replace"), od2, alltext)
                    if v2 and (v2[0].startswith("glibcxx-debug") or v2[0].startswith("signal") or v2[0].startswith("abort") or v2[0] == "assert"):
                        v = (v2[0], v2[1], "[sbeppc-dbg] " + v2[2])
                        out = o2.decode(errors="replace")
                dbg_runs.append(1)
            for fp in extra:
                try:
                    os.remove(fp)
                except OSError:
                    pass
            if extra:
                job = (name + "+multi-file", alltext, desc)
            first = ""
            mm = re.search(r"Error\S*: (?:\S+?:\d+:\d+: )?(.*)", out)
            if mm:
                first = norm(re.sub(r"`[^`]*`", "`_`", mm.group(1)))[:80]
            shutil.rmtree(jd, ignore_errors=True)
            return job, rc, v, first, out

        results = C.pmap(lambda t: run_one(t[1], t[0]), list(enumerate(jobs)))
        rep.count("debug_mode_runs", len(dbg_runs))
        outcomes = {}
        for (name, data, desc), rc, v, first, out in results:
            rep.evaluation()
            key = ("exit%s" % rc, first)
            outcomes[key] = outcomes.get(key, 0) + 1
            rep.nontrivial(*key)
            if v:
                klass, site, summary = v
                rep.violation(klass, site, "%s [%s]: %s" % (name, desc[:120], summary[:500]),
                              {"input_name": name, "mutation": desc, "schema_bytes_hex": data.hex()[:200000],
                               "schema_text": data.decode(errors="replace")[:20000], "exit": rc, "output": out[-3000:],
                               "how": "cd <dir with rt include files of vf/mutate.py INCLUDE_FILES>; sbeppc-san --output-dir out schema.xml"})
            elif len(rep.cov["samples"]) < 5 and rc == 1 and len(desc) > 8 and desc != "unmutated":
                rep.sample({"input": name, "mutation": desc, "exit": rc, "diagnostic": out.strip().splitlines()[-1][:200] if out.strip() else ""})
        rep.cov["mutants"] = nmut
        rep.cov["multi_file_inputs"] = sum(1 for (name, _, _), _, _, _, _ in results if name.endswith("+multi-file"))
        rep.cov["accepted"] = sum(c for (e, f), c in outcomes.items() if e == "exit0")
        rep.cov["rejected_with_diagnostic"] = sum(c for (e, f), c in outcomes.items() if e == "exit1")
        rep.cov["distinct_diagnostics"] = len(outcomes)
        rep.cov["top_outcomes"] = sorted(((c, e, f) for (e, f), c in outcomes.items()), reverse=True)[:12]

        # ---- argv grammar
        vx = os.path.join(cwd, "schema.xml")
        for ai, argv in enumerate(argv_cases(vx, work)):
            ad = os.path.join(work, "argv-run-%d" % ai)
            os.makedirs(ad)
            for n, t in M.INCLUDE_FILES.items():
                pass
            rc, o, _, to = C.run([exe] + argv, timeout=TIMEOUT, env=env, cwd=ad)
            out = o.decode(errors="replace")
            rep.evaluation()
            rep.count("argv_cases")
            v = classify(rc, to, out, os.path.join(ad, "OUT"))
            if v and v[0] == "leftover-files":
                # leftovers only matter for rejected *schemas*; an argv error happens before any output
                pass
            if v:
                rep.violation(v[0], "argv:" + v[1], "argv %r: %s" % (argv, v[2][:400]), {"argv": argv, "exit": rc, "output": out[-2000:]})
            elif rc not in (0, 1):
                rep.violation("no-diagnostic", "argv:exit%s" % rc, "argv %r: unexpected exit status %s" % (argv, rc), {"argv": argv})
            rep.nontrivial("argv", ai)

        # ---- coverage-guided leg (libFuzzer, in-process sbeppc)
        fuzz_leg(rep, bases, work, exe, env, total_runs=(16 * 15000 if quick else 16 * 1500000), workers=min(16, C.NCPU))
    finally:
        for root, dirs, _ in os.walk(work):
            for d in dirs:
                try:
                    os.chmod(os.path.join(root, d), 0o755)
                except OSError:
                    pass
        shutil.rmtree(work, ignore_errors=True)
    rep.assumptions += ["one sbeppc process per input; wall-clock watchdog %ds with one retry at 3x before a hang is reported" % TIMEOUT,
                        "memory cap 3000 MB RSS (ASan hard_rss_limit_mb)"]
    return rep.finish()
