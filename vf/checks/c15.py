"""C15 -- set choices are independent bits for every encoding width.

A generated schema declares, for each of uint8/16/32/64, a set with *every*
choice index 0..width-1 (declared in a seed-dependent shuffled order so that
schema order and bit order differ).  The driver runs the generated accessors
over all underlying values (exhaustive for 8/16 bit; walking-1, walking-0,
complement and random patterns for 32/64) and compares getter, setter,
by-tag access, equality, raw value access and visiting with plain uint64 bit
arithmetic; a constexpr leg evaluates the same accessors in constant
expressions.  UBSan (shift) watches the same executions.
"""
import os
import re

from .. import build, common as C
from ..findings import Report

WIDTHS = [8, 16, 32, 64]


def make_schema(order):
    sets = ""
    for w in WIDTHS:
        ch = "".join('            <choice name="c%d">%d</choice>\n' % (i, i) for i in order[w])
        sets += '        <set name="s%d" encodingType="uint%d">\n%s        </set>\n' % (w, w, ch)
    return '''<?xml version="1.0" encoding="UTF-8"?>
<sbe:messageSchema xmlns:sbe="http://fixprotocol.io/2016/sbe" package="c15" id="1" version="0" byteOrder="littleEndian">
    <types>
        <composite name="messageHeader">
            <type name="blockLength" primitiveType="uint16"/>
            <type name="templateId" primitiveType="uint16"/>
            <type name="schemaId" primitiveType="uint16"/>
            <type name="version" primitiveType="uint16"/>
        </composite>
%s    </types>
    <sbe:message name="m" id="1">
        <field name="f8" id="1" type="s8"/>
        <field name="f16" id="2" type="s16"/>
        <field name="f32" id="3" type="s32"/>
        <field name="f64" id="4" type="s64"/>
    </sbe:message>
</sbe:messageSchema>
''' % sets


DRIVER_HEAD = r'''
#include <c15/c15.hpp>
#include <cstdio>
#include <cstdint>
#include <cstdlib>
#include <string>
#include <vector>

static unsigned long long g_cells = 0, g_mismatch = 0, g_values = 0, g_visits = 0, g_cx = 0;
static int g_samples = 0;

struct rec_visitor
{
    std::vector<int> idx;
    std::vector<bool> val;
    std::vector<const char*> names;
    template<typename Tag>
    void on_set_choice(bool v, Tag)
    {
        idx.push_back(static_cast<int>(sbepp::set_choice_traits<Tag>::index()));
        val.push_back(v);
        names.push_back(sbepp::set_choice_traits<Tag>::name());
    }
};

static void mismatch(const char* what, int w, int bit, unsigned long long v, unsigned long long got, unsigned long long exp)
{
    g_mismatch++;
    if(g_mismatch < 200)
        std::printf("MISMATCH what=%s width=%d bit=%d value=%016llx got=%016llx expected=%016llx\n", what, w, bit, v, got, exp);
}
'''

PER_WIDTH = r'''
namespace w@W@
{
using S = ::c15::types::s@W@;
using T = ::std::uint@W@_t;
using tags = ::c15::schema::types::s@W@;
static bool (*const getters[@W@])(const S&) = {@GETTERS@};
static void (*const setters[@W@])(S&, bool) = {@SETTERS@};
static bool (*const tgetters[@W@])(const S&) = {@TGETTERS@};
static void (*const tsetters[@W@])(S&, bool) = {@TSETTERS@};
static const int declared_order[@W@] = {@ORDER@};

static void check_value(const unsigned long long v64)
{
    const T v = static_cast<T>(v64);
    g_values++;
    const S s0{v};
    if(*s0 != v)
        mismatch("raw", @W@, -1, v64, *s0, v);
    for(int bit = 0; bit < @W@; bit++)
    {
        const bool exp = ((v64 >> bit) & 1ULL) != 0;
        g_cells += 2;
        if(getters[bit](s0) != exp)
            mismatch("getter", @W@, bit, v64, getters[bit](s0), exp);
        if(tgetters[bit](s0) != exp)
            mismatch("get_by_tag", @W@, bit, v64, tgetters[bit](s0), exp);
        for(int b = 0; b < 2; b++)
        {
            const unsigned long long mask = 1ULL << bit;
            const T expv = static_cast<T>(b ? (v64 | mask) : (v64 & ~mask));
            S s1{v};
            setters[bit](s1, b != 0);
            S s2{v};
            tsetters[bit](s2, b != 0);
            g_cells += 2;
            if(*s1 != expv)
                mismatch("setter", @W@, bit, v64, *s1, expv);
            if(*s2 != expv)
                mismatch("set_by_tag", @W@, bit, v64, *s2, expv);
            // equality is equality of underlying values
            const bool same = (expv == v);
            if((s1 == s0) != same || (s1 != s0) == same)
                mismatch("equality", @W@, bit, v64, (s1 == s0), same);
            if(g_samples < 6 && (g_cells % 100003) == 1)
            {
                g_samples++;
                std::printf("SAMPLE width=@W@ value=%016llx bit=%d set=%d -> %016llx getter=%d\n", v64, bit, b,
                            static_cast<unsigned long long>(*s1), int(exp));
            }
        }
    }
    // visiting: every choice once, in schema (declaration) order, with its bit
    rec_visitor vis;
    sbepp::visit(s0, vis);
    g_visits++;
    bool ok = (vis.idx.size() == @W@);
    for(int k = 0; ok && k < @W@; k++)
    {
        char nm[8];
        std::snprintf(nm, sizeof nm, "c%d", declared_order[k]);
        ok = (vis.idx[k] == declared_order[k]) && (vis.val[k] == (((v64 >> declared_order[k]) & 1ULL) != 0))
             && (std::string(vis.names[k]) == nm);
    }
    if(!ok)
        mismatch("visit", @W@, static_cast<int>(vis.idx.size()), v64, 0, 0);
    // mutable raw access
    S s3{};
    *s3 = v;
    if(*s3 != v || !(s3 == s0))
        mismatch("raw-assign", @W@, -1, v64, *s3, v);
    // through a message field (buffer round trip)
    alignas(8) char buf[64] = {};
    ::c15::messages::m<char> msg{buf, sizeof buf};
    msg.f@W@(s0);
    if(*msg.f@W@() != v)
        mismatch("field-roundtrip", @W@, -1, v64, *msg.f@W@(), v);
}

#if __cplusplus >= 201402L
template<int Bit>
struct cx;
@CXSPECS@
static constexpr T cx_raw(T v)
{
    S s{};
    *s = v;
    return *s;
}
struct cx_visitor
{
    unsigned long long mask = 0, seen = 0;
    int n = 0;
    template<typename Tag>
    constexpr void on_set_choice(bool v, Tag)
    {
        const unsigned long long bit = 1ULL << sbepp::set_choice_traits<Tag>::index();
        seen |= bit;
        if(v)
            mask |= bit;
        n++;
    }
};
static constexpr cx_visitor cx_visit(T v)
{
    cx_visitor vis{};
    sbepp::visit(S{v}, vis);
    return vis;
}
template<unsigned long long V, int Bit, bool B>
static void cx_one()
{
    constexpr S r = cx<Bit>::set(static_cast<T>(V), B);
    constexpr bool g = cx<Bit>::get(static_cast<T>(V));
    constexpr unsigned long long mask = 1ULL << Bit;
    const T expv = static_cast<T>(B ? (V | mask) : (V & ~mask));
    g_cx += 2;
    if(*r != expv)
        mismatch("constexpr-setter", @W@, Bit, V, *r, expv);
    if(g != (((V >> Bit) & 1ULL) != 0))
        mismatch("constexpr-getter", @W@, Bit, V, g, (V >> Bit) & 1ULL);
    // by-tag access, raw access, equality and visiting in constant expressions
    constexpr S rt = cx<Bit>::set_tag(static_cast<T>(V), B);
    constexpr bool gt = cx<Bit>::get_tag(static_cast<T>(V));
    constexpr T raw = cx_raw(static_cast<T>(V));
    constexpr bool eq = (S{static_cast<T>(V)} == r), ne = (S{static_cast<T>(V)} != r);
    constexpr cx_visitor vs = cx_visit(static_cast<T>(V));
    g_cx += 5;
    if(*rt != expv)
        mismatch("constexpr-set_by_tag", @W@, Bit, V, *rt, expv);
    if(gt != (((V >> Bit) & 1ULL) != 0))
        mismatch("constexpr-get_by_tag", @W@, Bit, V, gt, (V >> Bit) & 1ULL);
    if(raw != static_cast<T>(V))
        mismatch("constexpr-raw", @W@, Bit, V, raw, V);
    if(eq != (expv == static_cast<T>(V)) || ne == eq)
        mismatch("constexpr-equality", @W@, Bit, V, eq, expv == static_cast<T>(V));
    if(vs.n != @W@ || vs.mask != static_cast<unsigned long long>(static_cast<T>(V)) || vs.seen != static_cast<unsigned long long>(static_cast<T>(~T{0})))
        mismatch("constexpr-visit", @W@, vs.n, V, vs.mask, vs.seen);
}
static void cx_all()
{
@CXCALLS@
}
#else
static void cx_all() {}
#endif
} // namespace w@W@
'''

DRIVER_MAIN = r'''
#include <string>
int main(int argc, char** argv)
{
    unsigned long long seed = argc > 1 ? std::strtoull(argv[1], nullptr, 10) : 1;
    unsigned long long nrand = argc > 2 ? std::strtoull(argv[2], nullptr, 10) : 10000;
    for(unsigned long long v = 0; v < 256; v++)
        w8::check_value(v);
    for(unsigned long long v = 0; v < 65536; v++)
        w16::check_value(v);
    unsigned long long x = seed * 0x9E3779B97F4A7C15ULL + 12345;
    std::vector<unsigned long long> pats;
    pats.push_back(0);
    pats.push_back(~0ULL);
    pats.push_back(0xAAAAAAAAAAAAAAAAULL);
    pats.push_back(0x5555555555555555ULL);
    pats.push_back(0x8000000080000000ULL);
    pats.push_back(0x7FFFFFFF7FFFFFFFULL);
    for(int i = 0; i < 64; i++)
    {
        pats.push_back(1ULL << i);
        pats.push_back(~(1ULL << i));
    }
    for(unsigned long long i = 0; i < nrand; i++)
    {
        x ^= x << 13;
        x ^= x >> 7;
        x ^= x << 17;
        pats.push_back(x);
    }
    for(auto p : pats)
    {
        w32::check_value(p & 0xFFFFFFFFULL);
        w64::check_value(p);
    }
    w8::cx_all();
    w16::cx_all();
    w32::cx_all();
    w64::cx_all();
    std::printf("TOTAL values=%llu cells=%llu visits=%llu constexpr=%llu mismatches=%llu\n", g_values, g_cells, g_visits,
                g_cx, g_mismatch);
    return 0;
}
'''


def make_driver(order, rng):
    parts = [DRIVER_HEAD]
    for w in WIDTHS:
        g = ", ".join("[](const S& s) { return s.c%d(); }" % i for i in range(w))
        s = ", ".join("[](S& s, bool b) { S& r = s.c%d(b); if(&r != &s) std::abort(); }" % i for i in range(w))
        tg = ", ".join("[](const S& s) { return sbepp::get_by_tag<tags::c%d>(s); }" % i for i in range(w))
        ts = ", ".join("[](S& s, bool b) { sbepp::set_by_tag<tags::c%d>(s, b); }" % i for i in range(w))
        specs = "".join(
            "template<> struct cx<%d> { static constexpr S set(T v, bool b) { S s{v}; s.c%d(b); return s; } "
            "static constexpr bool get(T v) { return S{v}.c%d(); } "
            "static constexpr S set_tag(T v, bool b) { S s{v}; sbepp::set_by_tag<tags::c%d>(s, b); return s; } "
            "static constexpr bool get_tag(T v) { return sbepp::get_by_tag<tags::c%d>(S{v}); } };\n" % (i, i, i, i, i) for i in range(w))
        # constexpr cells: every bit, both bool values, a handful of literal values
        mask = (1 << w) - 1
        vals = sorted({0, mask, 0xAAAAAAAAAAAAAAAA & mask, 0x5555555555555555 & mask,
                       rng.getrandbits(w), rng.getrandbits(w)})
        calls = "".join("    cx_one<%dULL, %d, %s>();\n" % (v, i, b) for v in vals for i in range(w) for b in ("false", "true"))
        txt = PER_WIDTH
        for k, v in (("@GETTERS@", g), ("@SETTERS@", s), ("@TGETTERS@", tg), ("@TSETTERS@", ts),
                     ("@ORDER@", ", ".join(str(i) for i in order[w])), ("@CXSPECS@", specs), ("@CXCALLS@", calls),
                     ("@W@", str(w))):
            txt = txt.replace(k, v)
        parts.append(txt)
    parts.append(DRIVER_MAIN)
    return "".join(parts)


def configs(tier):
    if tier == "quick":
        return [build.Cfg("g++", "17", "ubsan"), build.Cfg("clang++", "14", "ubsan"), build.Cfg("g++", "11", "plain"),
                build.Cfg("clang++", "20", "plain")]
    cfgs = [build.Cfg(cxx, std, "ubsan") for cxx, std in build.all_compiler_std()]
    cfgs += [build.Cfg("g++", "20", "plain"), build.Cfg("clang++", "17", "plain"), build.Cfg("g++", "14", "O0")]
    return cfgs


def main():
    rep = Report("C15", "exploration")
    rng = C.rng_for(rep.seed, "c15")
    order = {}
    for w in WIDTHS:
        o = list(range(w))
        rng.shuffle(o)
        order[w] = o
    nrand = 3000 if rep.tier == "quick" else 2000000
    xml = make_schema(order)
    gen = build.gen_headers(xml, "rel")
    if gen["rc"] != 0:
        raise C.HarnessError("sbeppc rejected the C15 schema: " + gen["out"][-2000:])
    src = make_driver(order, rng)
    dep = C.sha(xml)
    rep.rule("four generated sets (uint8/16/32/64) declaring every choice index in shuffled declaration order; "
             "underlying values: all 256 / all 65536 for 8/16 bit, 0, ~0, alternating, sign-boundary, walking-1, "
             "walking-0 and %d seeded random patterns for 32/64 bit; per value and bit: getter, get_by_tag, setter and "
             "set_by_tag for both bool values, ==/!=, raw value access, visit order/values/tags, buffer round trip via "
             "a message field; constexpr leg (C++14+) over every bit x both values x 4-6 literal values: named getter/setter, get_by_tag/set_by_tag, raw access, equality and a constexpr visitor. A cell is one "
             "accessor result compared with uint64 arithmetic. distinct_nontrivial = distinct (width, bit, operation) "
             "triples executed (a bit index >= 31 or a width > 8 is where promotion arithmetic differs)." % nrand)
    cfgs = configs(rep.tier)

    def one(cfg):
        ok, exe, out = build.compile_driver(src, cfg, inc_dirs=(gen["dir"],), dep_key=dep, name="c15")
        if not ok:
            return cfg, None, out
        rc, o, _, to = C.run([exe, str(rep.seed), str(nrand)], timeout=3000, env=build.drv_env())
        return cfg, (rc, to), o.decode(errors="replace")

    for cfg, st, out in C.pmap(one, cfgs):
        if st is None:
            rep.violation("compile-error", "set/constexpr-accessors", "%s: generated set accessors do not compile:\n%s"
                          % (cfg, out[-3000:]), {"config": str(cfg), "schema_xml": xml, "compiler_output": out[-6000:]})
            continue
        rc, to = st
        if to:
            rep.inconc("driver timeout under %s" % cfg)
            continue
        for mm in re.finditer(r"^MISMATCH what=(\S+) width=(\d+) bit=(-?\d+) (.*)$", out, re.M):
            rep.violation("value-mismatch", "bitset/%s/width%s" % (mm.group(1), mm.group(2)),
                          "%s: %s" % (cfg, mm.group(0)),
                          {"config": str(cfg), "schema_xml": xml, "case": mm.group(0), "seed": rep.seed})
        for msg, f, line in build.ubsan_reports(out):
            rep.violation("ubsan:" + msg, f, "%s: %s" % (cfg, line), {"config": str(cfg), "report": line, "schema_xml": xml})
        m = re.search(r"TOTAL values=(\d+) cells=(\d+) visits=(\d+) constexpr=(\d+) mismatches=(\d+)", out)
        if m is None:
            rep.violation("abort", "c15_driver", "%s: driver died rc=%s: %s" % (cfg, rc, out[-800:]),
                          {"config": str(cfg), "output": out[-4000:]})
            continue
        values, cells = int(m.group(1)), int(m.group(2))
        npat = 6 + 128 + nrand
        exp_values = 256 + 65536 + 2 * npat
        exp_cells = 6 * (8 * 256 + 16 * 65536 + (32 + 64) * npat)
        if values != exp_values or cells != exp_cells:
            rep.inconc("%s: driver observed %d values/%d cells, expected %d/%d" % (cfg, values, cells, exp_values, exp_cells))
        if cfg.std != "11" and int(m.group(4)) == 0:
            rep.inconc("%s: constexpr leg did not run" % cfg)
        rep.evaluation(cells + int(m.group(3)) + int(m.group(4)))
        rep.count("values", values)
        rep.count("bit_ops", cells)
        rep.count("visits", int(m.group(3)))
        rep.count("constexpr_cells", int(m.group(4)))
        for sm in re.finditer(r"^SAMPLE (.*)$", out, re.M):
            rep.sample({"config": str(cfg), "cell": sm.group(1)})
    for w in WIDTHS:
        for b in range(w):
            for opn in ("get", "set", "get_by_tag", "set_by_tag", "visit"):
                rep.nontrivial(w, b, opn)
    rep.cov["configs"] = [str(c) for c in cfgs]
    rep.cov["declared_order_sample"] = {str(w): order[w][:8] for w in WIDTHS}
    rep.cov["exhaustive_widths"] = [8, 16]
    rep.assumptions += ["32/64-bit underlying values are sampled (patterns + random), not enumerated"]
    return rep.finish()
