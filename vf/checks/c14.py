"""C14 -- fixed-length arrays: assignment, padding and string length are exact.

Runtime monitor: an in-process oracle (rt/c14_driver.cpp) compares every call of
static_array_ref's assign_*/fill/strlen* with an independent reference over a
complete small scope; the same binary is built with ASan+UBSan, with plain -O2 and
with sbepp's assertion handler (a valid call that asserts is a violation).
The python side re-derives the size of the scope and refuses a run that
observed fewer cells than the scope contains.
"""
import os
import re

from .. import build, common as C
from ..findings import Report


def expected_cells(maxn):
    cells = strlen_cells = 0
    for n in range(maxn + 1):
        per_content = sum(5 * 2 ** L + 23 * 3 ** L + 3 for L in range(n + 1)) + 3  # 23 = 8 + single-pass iterator, range, string x 3 modes + 4 wider-element sources + 2 wider-element strings x 3 modes
        cells += 3 * (3 ** n) * per_content
        strlen_cells += 3 * 3 ** n
    return cells, strlen_cells


def configs(tier):
    if tier == "quick":
        return [build.Cfg("g++", "17", "san"),
                build.Cfg("clang++", "11", "san", defs=("SBEPP_ENABLE_ASSERTS_WITH_HANDLER",)),
                build.Cfg("g++", "20", "plain"),
                build.Cfg("clang++", "23", "plain", defs=("SBEPP_ENABLE_ASSERTS_WITH_HANDLER",))]
    cfgs = []
    for cxx, std in build.all_compiler_std():
        cfgs.append(build.Cfg(cxx, std, "san"))
        cfgs.append(build.Cfg(cxx, std, "plain", defs=("SBEPP_ENABLE_ASSERTS_WITH_HANDLER",)))
    cfgs.append(build.Cfg("g++", "20", "plain", defs=("SBEPP_HAS_RANGES=0",)))
    cfgs.append(build.Cfg("clang++", "20", "san", defs=("SBEPP_HAS_RANGES=0", "SBEPP_ENABLE_ASSERTS_WITH_HANDLER")))
    return cfgs


def cx_configs(tier):
    lim_g = ("-fconstexpr-ops-limit=4000000000", "-fconstexpr-loop-limit=100000000")
    lim_c = ("-fconstexpr-steps=2000000000",)
    if tier == "quick":
        return [build.Cfg("g++", "20", "O0", extra=lim_g), build.Cfg("clang++", "20", "O0", extra=lim_c)]
    return [build.Cfg("g++", "20", "O0", extra=lim_g), build.Cfg("g++", "23", "plain", extra=lim_g),
            build.Cfg("clang++", "20", "O0", extra=lim_c),
            # clang 14 / c++2b: the build layer normally switches std::is_constant_evaluated() off (DESIGN 2.1), which also
            # switches off what sbepp needs for a constexpr strlen()/assign_string(const char*); this leg is about
            # constant evaluation, so the feature stays on here (both branches guarded by it are valid at run time too)
            build.Cfg("clang++", "23", "plain", defs=("SBEPP_HAS_IS_CONSTANT_EVALUATED=1",), extra=lim_c),
            build.Cfg("g++", "20", "O0", defs=("SBEPP_HAS_RANGES=0",), extra=lim_g)]


def cx_expected_cells(maxn):
    total = 0
    for n in range(maxn + 1):
        per = 4 + 3  # strlen family + fill
        for L in range(n + 1):
            nonul, every = 2 ** L, 3 ** L
            per += 3 * nonul + 3 * every + 2 * nonul + 4 * every + 3
        total += 3 ** n * per
    return total


def cx_leg(rep):
    """constant-evaluation leg (rt/c14_cx_driver.cpp): the same calls in forced constant expressions"""
    maxn = 3 if rep.tier == "quick" else 4
    src = C.read_text(os.path.join(C.RT, "c14_cx_driver.cpp"))
    exp = cx_expected_cells(maxn)

    def one(cfg):
        c = build.Cfg(cfg.cxx, cfg.std, cfg.mode, cfg.defs + ("C14_CXN=%d" % maxn,), cfg.extra)
        ok, exe, out = build.compile_driver(src, c, name="c14cx", timeout=2400)
        if not ok:
            return cfg, None, out
        rc, o, _, to = C.run([exe], timeout=600, env=build.drv_env())
        return cfg, (rc, to), o.decode(errors="replace")

    for cfg, st, out in C.pmap(one, cx_configs(rep.tier)):
        tag = "%s/constexpr" % cfg
        if st is None:
            first = next((l for l in out.splitlines() if "error" in l), out[-300:])
            rep.violation("not-a-constant-expression" if "constant expression" in out or "constexpr" in first else "compile-error",
                          "static_array_ref/constant-evaluation", "%s: the constant-evaluation driver does not compile: %s" % (tag, first[:400]),
                          {"config": str(cfg), "output": out[-4000:]})
            continue
        rc, to = st
        if to:
            rep.inconc("constexpr driver timeout under " + tag)
            continue
        for mm in re.finditer(r"^MISMATCH op=(\S+) (.*)$", out, re.M):
            rep.violation("value-mismatch", "static_array_ref::%s/constant-evaluation" % mm.group(1).split("/")[0], "%s: %s" % (tag, mm.group(0)[:700]),
                          {"config": str(cfg), "case": mm.group(0), "driver": "rt/c14_cx_driver.cpp",
                           "layout": "guard 6e | N array bytes | tail 78 79 00 7a"})
        m = re.search(r"CXTOTAL cells=(\d+) mismatches=(\d+)", out)
        if m is None:
            rep.violation("abort", "c14_cx_driver", "%s: driver died rc=%s: %s" % (tag, rc, out[-800:]), {"config": str(cfg)})
            continue
        exp_here = exp
        if "CXNOTE strlen-not-constant-evaluated" in out:
            # two of the four strlen-family cells per content are outside what the configuration promises
            exp_here = exp - 2 * sum(3 ** n for n in range(maxn + 1))
            rep.count("constexpr_configs_without_is_constant_evaluated")
        if int(m.group(1)) != exp_here:
            rep.inconc("%s: %s constant-evaluated cells observed, the scope has %d" % (tag, m.group(1), exp_here))
        rep.evaluation(int(m.group(1)))
        rep.count("constexpr_cells", int(m.group(1)))
        for om in re.finditer(r"^CXOP (\S+) (\d+)$", out, re.M):
            if int(om.group(2)) > 0:
                rep.nontrivial("constexpr", om.group(1))
    rep.cov["constexpr_configs"] = [str(c) for c in cx_configs(rep.tier)]
    rep.cov["constexpr_max_N"] = maxn
    rep.cov["constexpr_scope_cells_per_config"] = exp


def main():
    rep = Report("C14", "exploration")
    maxn = 3 if rep.tier == "quick" else 6
    src = C.read_text(os.path.join(C.RT, "c14_driver.cpp"))
    exp_cells, exp_strlen = expected_cells(maxn)
    rep.rule("exhaustive: N in 0..%d x every initial content over {NUL,a,b}^N x every input of length 0..N over the "
             "same alphabet x eos modes none/single/all/default x overloads (const char*, string range, vector, list, "
             "iterator pair, initializer_list, assign(n,v), fill, raw(), single-pass iterators and ranges, sources of wider element types: vector<int>, vector<unsigned short>, deque<short>, const long*, u16string) x element types char/uint8/int8; strlen and "
             "strlen_r over every content through mutable and const views. A cell is one call compared with the "
             "reference (bytes incl. one guard element each side + returned iterator); distinct_nontrivial counts "
             "distinct (overload, N) pairs with at least one cell whose input is non-empty, per configuration "
             "set -- the scope itself is enumerated completely (exhaustive=true)." % maxn)
    cfgs = configs(rep.tier)

    def one(cfg):
        c = build.Cfg(cfg.cxx, cfg.std, cfg.mode, cfg.defs + ("C14_MAXN=%d" % maxn,), cfg.extra)
        ok, exe, out = build.compile_driver(src, c, name="c14")
        if not ok:
            return cfg, None, out
        rc, o, _, to = C.run([exe], timeout=1200, env=build.drv_env())
        return cfg, (rc, to), o.decode(errors="replace")

    big_src = C.read_text(os.path.join(C.RT, "c14_big_driver.cpp"))
    big_rounds = 6 if rep.tier == "quick" else 60

    def one_big(cfg):
        c = build.Cfg(cfg.cxx, cfg.std, cfg.mode, cfg.defs + ("C14_SEED=%d" % rep.seed, "C14_ROUNDS=%d" % big_rounds), cfg.extra)
        ok, exe, out = build.compile_driver(big_src, c, name="c14big")
        if not ok:
            return cfg, None, out
        rc, o, _, to = C.run([exe], timeout=1200, env=build.drv_env())
        return cfg, (rc, to), o.decode(errors="replace")

    both = C.pmap(lambda job: (job[0], job[0] == "big" and one_big(job[1]) or one(job[1])),
                  [("small", c) for c in cfgs] + [("big", c) for c in cfgs])
    results = [r for k, r in both if k == "small"]
    big_results = [r for k, r in both if k == "big"]
    ops_seen = set()
    for cfg, st, out in results:
        if st is None:
            raise C.HarnessError("C14 driver does not compile under %s:\n%s" % (cfg, out[-3000:]))
        rc, to = st
        if to:
            rep.inconc("driver timeout under %s" % cfg)
            continue
        m = re.search(r"TOTAL cells=(\d+) strlen_cells=(\d+) mismatches=(\d+) asserts=(\d+)", out)
        for mm in re.finditer(r"^MISMATCH op=(\S+) (.*)$", out, re.M):
            klass = "spurious-assert" if "asserted=1" in mm.group(2) else "value-mismatch"
            rep.violation(klass, "static_array_ref::" + mm.group(1), "%s: %s" % (cfg, mm.group(0)),
                          {"config": str(cfg), "case": mm.group(0), "driver": "rt/c14_driver.cpp", "maxn": maxn})
        for msg, f, line in build.ubsan_reports(out):
            rep.violation("ubsan:" + msg, f, "%s: %s" % (cfg, line), {"config": str(cfg), "report": line})
        if "AddressSanitizer" in out:
            first = re.search(r"ERROR: AddressSanitizer: (\S+)", out)
            rep.violation("asan:" + (first.group(1) if first else "?"), "static_array_ref",
                          "%s: %s" % (cfg, out[-1500:]), {"config": str(cfg), "output": out[-4000:]})
        elif m is None or rc != 0:
            if rc != 0 and m is None:
                rep.violation("abort", "c14_driver", "%s: driver died rc=%s: %s" % (cfg, rc, out[-800:]),
                              {"config": str(cfg), "output": out[-4000:]})
        if m:
            cells, sl = int(m.group(1)), int(m.group(2))
            if cells != exp_cells or sl != exp_strlen:
                rep.inconc("%s: driver observed %d/%d cells, scope has %d/%d" % (cfg, cells, sl, exp_cells, exp_strlen))
            rep.evaluation(cells + sl)
            rep.count("cells_compared", cells)
            rep.count("strlen_cells", sl)
            rep.count("asserts_seen", int(m.group(4)))
            for om in re.finditer(r"^OP (\S+) (\d+)$", out, re.M):
                if int(om.group(2)) > 0:
                    ops_seen.add(om.group(1))
                    for n in range(1, maxn + 1):
                        rep.nontrivial(om.group(1), n)
            for sm in re.finditer(r"^SAMPLE (.*)$", out, re.M):
                rep.sample({"config": str(cfg), "cell": sm.group(1)})
    # second leg: lengths and byte values beyond the exhaustive scope (sampled, seeded)
    big_ops = set()
    for cfg, st, out in big_results:
        if st is None:
            raise C.HarnessError("C14 big-N driver does not compile under %s:\n%s" % (cfg, out[-3000:]))
        rc, to = st
        if to:
            rep.inconc("big-N driver timeout under %s" % cfg)
            continue
        m = re.search(r"TOTAL cells=(\d+) strlen_cells=(\d+) mismatches=(\d+) asserts=(\d+)", out)
        for mm in re.finditer(r"^MISMATCH op=(\S+) (.*)$", out, re.M):
            klass = "spurious-assert" if "asserted=1" in mm.group(2) else "value-mismatch"
            rep.violation(klass, "static_array_ref::" + mm.group(1), "%s: %s" % (cfg, mm.group(0)[:600]),
                          {"config": str(cfg), "case": mm.group(0)[:2000], "driver": "rt/c14_big_driver.cpp", "seed": rep.seed})
        for msg, f, line in build.ubsan_reports(out):
            rep.violation("ubsan:" + msg, f, "%s: %s" % (cfg, line), {"config": str(cfg), "report": line})
        if "AddressSanitizer" in out:
            first = re.search(r"ERROR: AddressSanitizer: (\S+)", out)
            rep.violation("asan:" + (first.group(1) if first else "?"), "static_array_ref",
                          "%s: %s" % (cfg, out[-1500:]), {"config": str(cfg), "output": out[-4000:]})
        elif m is None:
            if rc != 0:
                rep.violation("abort", "c14_big_driver", "%s: driver died rc=%s: %s" % (cfg, rc, out[-800:]),
                              {"config": str(cfg), "output": out[-4000:]})
            else:
                rep.inconc("%s: big-N driver printed no total" % cfg)
        if m:
            if len(re.findall(r"^DONE ", out, re.M)) != 19 * 3 + 6:
                rep.inconc("%s: big-N driver finished %d of %d instantiations" % (cfg, len(re.findall(r"^DONE ", out, re.M)), 63))
            rep.evaluation(int(m.group(1)) + int(m.group(2)))
            rep.count("bigN_cells_compared", int(m.group(1)))
            rep.count("bigN_strlen_cells", int(m.group(2)))
            for om in re.finditer(r"^OP (\S+) (\d+)$", out, re.M):
                if int(om.group(2)) > 0:
                    big_ops.add(om.group(1))
                    rep.nontrivial("bigN", om.group(1))
            for sm in list(re.finditer(r"^SAMPLE (.*)$", out, re.M))[:2]:
                rep.sample({"config": str(cfg), "bigN_cell": sm.group(1)})
    cx_leg(rep)
    rep.cov["bigN_lengths"] = [7, 8, 9, 15, 16, 17, 31, 32, 33, 63, 64, 65, 127, 128, 129, 255, 256, 257, 1000]
    rep.cov["bigN_overloads_seen"] = sorted(big_ops)
    rep.cov["byte_value_leg"] = "N=1: all 256 values; N=2: all 65536 contents for strlen/strlen_r, every fifth as assignment input"
    rep.cov["configs"] = [str(c) for c in cfgs]
    rep.cov["overloads_seen"] = sorted(ops_seen)
    rep.cov["max_N"] = maxn
    rep.cov["exhaustive"] = True
    rep.cov["scope_cells_per_config"] = exp_cells + exp_strlen
    rep.assumptions += ["inputs satisfy the documented preconditions (length <= N, non-null pointer)",
                        "the alphabet {NUL,a,b} is representative of all byte values for copy/pad logic inside the exhaustive scope; "
                        "the sampled second leg uses all byte values and lengths up to 1000 but is not exhaustive"]
    return rep.finish()
