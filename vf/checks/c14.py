"""C14 -- fixed-length arrays: assignment, padding and string length are exact.

Runtime monitor: an in-process oracle (rt/c14_driver.cpp) compares every call of
static_array_ref's assign_*/fill/strlen* with an independent reference over a
complete small scope; the same binary is built with ASan+UBSan, with plain -O2 and
with sbepp's assertion handler (a valid call that asserts is a violation).
The python side re-derives the size of the scope and refuses a run that
observed fewer cells than the scope contains.
"""
import os
import re

from .. import build, common as C
from ..findings import Report


def expected_cells(maxn):
    cells = strlen_cells = 0
    for n in range(maxn + 1):
        per_content = sum(5 * 2 ** L + 23 * 3 ** L + 3 for L in range(n + 1)) + 3  # 23 = 8 + single-pass iterator, range, string x 3 modes + 4 wider-element sources + 2 wider-element strings x 3 modes
        cells += 3 * (3 ** n) * per_content
        strlen_cells += 3 * 3 ** n
    return cells, strlen_cells


def configs(tier):
    if tier == "quick":
        return [build.Cfg("g++", "17", "san"),
                build.Cfg("clang++", "11", "san", defs=("SBEPP_ENABLE_ASSERTS_WITH_HANDLER",)),
                build.Cfg("g++", "20", "plain"),
                build.Cfg("clang++", "23", "plain", defs=("SBEPP_ENABLE_ASSERTS_WITH_HANDLER",))]
    cfgs = []
    for cxx, std in build.all_compiler_std():
        cfgs.append(build.Cfg(cxx, std, "san"))
        cfgs.append(build.Cfg(cxx, std, "plain", defs=("SBEPP_ENABLE_ASSERTS_WITH_HANDLER",)))
    cfgs.append(build.Cfg("g++", "20", "plain", defs=("SBEPP_HAS_RANGES=0",)))
    cfgs.append(build.Cfg("clang++", "20", "san", defs=("SBEPP_HAS_RANGES=0", "SBEPP_ENABLE_ASSERTS_WITH_HANDLER")))
    return cfgs


def main():
    rep = Report("C14", "exploration")
    maxn = 3 if rep.tier == "quick" else 6
    src = C.read_text(os.path.join(C.RT, "c14_driver.cpp"))
    exp_cells, exp_strlen = expected_cells(maxn)
    rep.rule("exhaustive: N in 0..%d x every initial content over {NUL,a,b}^N x every input of length 0..N over the "
             "same alphabet x eos modes none/single/all/default x overloads (const char*, string range, vector, list, "
             "iterator pair, initializer_list, assign(n,v), fill, raw(), single-pass iterators and ranges, sources of wider element types: vector<int>, vector<unsigned short>, deque<short>, const long*, u16string) x element types char/uint8/int8; strlen and "
             "strlen_r over every content through mutable and const views. A cell is one call compared with the "
             "reference (bytes incl. one guard element each side + returned iterator); distinct_nontrivial counts "
             "distinct (overload, N) pairs with at least one cell whose input is non-empty, per configuration "
             "set -- the scope itself is enumerated completely (exhaustive=true)." % maxn)
    cfgs = configs(rep.tier)

    def one(cfg):
        c = build.Cfg(cfg.cxx, cfg.std, cfg.mode, cfg.defs + ("C14_MAXN=%d" % maxn,), cfg.extra)
        ok, exe, out = build.compile_driver(src, c, name="c14")
        if not ok:
            return cfg, None, out
        rc, o, _, to = C.run([exe], timeout=1200, env=build.drv_env())
        return cfg, (rc, to), o.decode(errors="replace")

    results = C.pmap(one, cfgs)
    ops_seen = set()
    for cfg, st, out in results:
        if st is None:
            raise C.HarnessError("C14 driver does not compile under %s:\n%s" % (cfg, out[-3000:]))
        rc, to = st
        if to:
            rep.inconc("driver timeout under %s" % cfg)
            continue
        m = re.search(r"TOTAL cells=(\d+) strlen_cells=(\d+) mismatches=(\d+) asserts=(\d+)", out)
        for mm in re.finditer(r"^MISMATCH op=(\S+) (.*)$", out, re.M):
            klass = "spurious-assert" if "asserted=1" in mm.group(2) else "value-mismatch"
            rep.violation(klass, "static_array_ref::" + mm.group(1), "%s: %s" % (cfg, mm.group(0)),
                          {"config": str(cfg), "case": mm.group(0), "driver": "rt/c14_driver.cpp", "maxn": maxn})
        for msg, f, line in build.ubsan_reports(out):
            rep.violation("ubsan:" + msg, f, "%s: %s" % (cfg, line), {"config": str(cfg), "report": line})
        if "AddressSanitizer" in out:
            first = re.search(r"ERROR: AddressSanitizer: (\S+)", out)
            rep.violation("asan:" + (first.group(1) if first else "?"), "static_array_ref",
                          "%s: %s" % (cfg, out[-1500:]), {"config": str(cfg), "output": out[-4000:]})
        elif m is None or rc != 0:
            if rc != 0 and m is None:
                rep.violation("abort", "c14_driver", "%s: driver died rc=%s: %s" % (cfg, rc, out[-800:]),
                              {"config": str(cfg), "output": out[-4000:]})
        if m:
            cells, sl = int(m.group(1)), int(m.group(2))
            if cells != exp_cells or sl != exp_strlen:
                rep.inconc("%s: driver observed %d/%d cells, scope has %d/%d" % (cfg, cells, sl, exp_cells, exp_strlen))
            rep.evaluation(cells + sl)
            rep.count("cells_compared", cells)
            rep.count("strlen_cells", sl)
            rep.count("asserts_seen", int(m.group(4)))
            for om in re.finditer(r"^OP (\S+) (\d+)$", out, re.M):
                if int(om.group(2)) > 0:
                    ops_seen.add(om.group(1))
                    for n in range(1, maxn + 1):
                        rep.nontrivial(om.group(1), n)
            for sm in re.finditer(r"^SAMPLE (.*)$", out, re.M):
                rep.sample({"config": str(cfg), "cell": sm.group(1)})
    rep.cov["configs"] = [str(c) for c in cfgs]
    rep.cov["overloads_seen"] = sorted(ops_seen)
    rep.cov["max_N"] = maxn
    rep.cov["exhaustive"] = True
    rep.cov["scope_cells_per_config"] = exp_cells + exp_strlen
    rep.assumptions += ["inputs satisfy the documented preconditions (length <= N, non-null pointer)",
                        "the alphabet {NUL,a,b} is representative of all byte values for copy/pad logic"]
    return rep.finish()
