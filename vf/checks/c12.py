"""C12 -- group views obey iterator/container laws for every dimension type.

One generated schema holds a flat and a nested group for each of the 16
(numInGroup type, blockLength type) pairs over uint8/16/32/64.  The driver lays
out images by hand (independent of sbepp), and for sizes 0..S and wire block
lengths {0, compiled, compiled+3} evaluates *every* iterator expression up to
depth D over {++, --, +=n, -=n, it+n, n+it, it-n} (n in -4..4, staying inside
[0,size]) plus it[n], it-it, all six comparisons, begin/end/front/back/[] and
resize/clear, comparing addresses and indices with plain index arithmetic.
ASan+UBSan (pointer-overflow, signed-overflow) watch the same executions; a
checked build must not assert on any of these in-bounds expressions.
"""
import re

from .. import build, common as C
from ..findings import Report

TY = [8, 16, 32, 64]


LAYOUT_PAIRS = [(16, 16), (8, 32), (64, 8), (32, 64)]
LAYOUTS = ["rev", "gap", "ext", "xtra"]


def layout_members(lay, n, b):
    """XML members of the dimension composite and (blockLength offset, numInGroup offset, total size) in bytes"""
    nb, bb = n // 8, b // 8
    BL = '            <type name="blockLength" primitiveType="uint%d"%%s/>\n' % b
    NG = '            <type name="numInGroup" primitiveType="uint%d"%%s/>\n' % n
    if lay == "rev":
        return NG % "" + BL % "", (nb, 0, nb + bb)
    if lay == "gap":
        boff, noff = 3, 3 + bb + 2
        return BL % (' offset="%d"' % boff) + NG % (' offset="%d"' % noff), (boff, noff, noff + nb)
    if lay == "ext":
        return (BL % "" + NG % "" + '            <type name="numGroups" primitiveType="uint16"/>\n'
                '            <type name="numVarDataFields" primitiveType="uint16"/>\n'), (0, bb, bb + nb + 4)
    if lay == "xtra":
        return ('            <type name="lead" primitiveType="uint32"/>\n' + BL % "" + NG % ""
                + '            <type name="trail" primitiveType="uint8"/>\n'), (4, 4 + bb, 4 + bb + nb + 1)
    raise ValueError(lay)


def make_schema():
    comps = ""
    msgs = ""
    mid = 1
    for n in TY:
        for b in TY:
            comps += ('        <composite name="d_%d_%d">\n'
                      '            <type name="blockLength" primitiveType="uint%d"/>\n'
                      '            <type name="numInGroup" primitiveType="uint%d"/>\n'
                      '        </composite>\n') % (n, b, b, n)
            msgs += ('    <sbe:message name="mf_%d_%d" id="%d">\n'
                     '        <group name="g" id="1" dimensionType="d_%d_%d">\n'
                     '            <field name="x" id="1" type="uint8"/>\n'
                     '        </group>\n'
                     '    </sbe:message>\n') % (n, b, mid, n, b)
            mid += 1
            msgs += ('    <sbe:message name="mn_%d_%d" id="%d">\n'
                     '        <group name="g" id="1" dimensionType="d_%d_%d">\n'
                     '            <field name="x" id="1" type="uint8"/>\n'
                     '            <data name="d" id="2" type="vd"/>\n'
                     '        </group>\n'
                     '    </sbe:message>\n') % (n, b, mid, n, b)
            mid += 1
    # dimension composites that are not "blockLength immediately followed by numInGroup": reversed member order, custom
    # offsets with gaps, the SBE 2.0 style header with numGroups/numVarDataFields, extra members in front and behind
    for n, b in LAYOUT_PAIRS:
        for lay in LAYOUTS:
            comps += '        <composite name="d_%s_%d_%d">\n%s        </composite>\n' % (lay, n, b, layout_members(lay, n, b)[0])
            for kind, extra in (("mf", ""), ("mn", '            <data name="d" id="2" type="vd"/>\n')):
                msgs += ('    <sbe:message name="%s_%s_%d_%d" id="%d">\n'
                         '        <group name="g" id="1" dimensionType="d_%s_%d_%d">\n'
                         '            <field name="x" id="1" type="uint8"/>\n%s'
                         '        </group>\n'
                         '    </sbe:message>\n') % (kind, lay, n, b, mid, lay, n, b, extra)
                mid += 1
    # trait-level size formulas with a block length > 1 (C05 big products): one flat and one data-carrying group per
    # numInGroup width, explicit blockLength 64
    for n in TY:
        msgs += ('    <sbe:message name="mt_%d" id="%d">\n'
                 '        <group name="g" id="1" dimensionType="d_%d_16" blockLength="64">\n'
                 '            <field name="x" id="1" type="uint8"/>\n'
                 '        </group>\n'
                 '    </sbe:message>\n') % (n, mid, n)
        mid += 1
        msgs += ('    <sbe:message name="mtd_%d" id="%d">\n'
                 '        <group name="g" id="1" dimensionType="d_%d_16" blockLength="64">\n'
                 '            <field name="x" id="1" type="uint8"/>\n'
                 '            <data name="d" id="2" type="vd"/>\n'
                 '        </group>\n'
                 '    </sbe:message>\n') % (n, mid, n)
        mid += 1
    return '''<?xml version="1.0" encoding="UTF-8"?>
<sbe:messageSchema xmlns:sbe="http://fixprotocol.io/2016/sbe" package="c12" id="1" version="0" byteOrder="littleEndian">
    <types>
        <composite name="messageHeader">
            <type name="blockLength" primitiveType="uint16"/>
            <type name="templateId" primitiveType="uint16"/>
            <type name="schemaId" primitiveType="uint16"/>
            <type name="version" primitiveType="uint16"/>
        </composite>
        <composite name="vd">
            <type name="length" primitiveType="uint8"/>
            <type name="varData" primitiveType="uint8" length="0"/>
        </composite>
%s    </types>
%s</sbe:messageSchema>
''' % (comps, msgs)


DRIVER = r'''
#include "vrt_assert.hpp"
#include <c12/c12.hpp>
#include <cstdio>
#include <cstdint>
#include <cstring>
#include <vector>
#include <iterator>
#include <type_traits>

#ifndef C12_MAXSIZE
#define C12_MAXSIZE 3
#endif
#ifndef C12_DEPTH
#define C12_DEPTH 2
#endif

static unsigned long long g_expr = 0, g_cmp = 0, g_mismatch = 0, g_container = 0, g_nested_steps = 0, g_asserts = 0;
static unsigned long long g_per_pair[64][2];
static int g_samples = 0;
static const char* g_pair = "";
static int g_pair_idx = 0;

static void put_le(unsigned char* p, std::size_t n, unsigned long long v)
{
    for(std::size_t i = 0; i < n; i++)
        p[i] = static_cast<unsigned char>((v >> (8 * i)) & 0xFF);
}
static unsigned long long get_le(const unsigned char* p, std::size_t n)
{
    unsigned long long v = 0;
    for(std::size_t i = 0; i < n; i++)
        v |= static_cast<unsigned long long>(p[i]) << (8 * i);
    return v;
}

static void bad(const char* what, long a, long b, long c)
{
    g_mismatch++;
    if(g_mismatch < 100)
        std::printf("MISMATCH pair=%s what=%s a=%ld b=%ld c=%ld\n", g_pair, what, a, b, c);
}

// laws that cannot hold by construction of difference_type (see flat_upper): one line per (pair, law), not counted
// against the print cap of the other mismatches
static void beyond(const char* what)
{
    static std::vector<std::string> seen;
    const std::string k = std::string(g_pair) + "|" + what;
    for(const auto& s : seen)
        if(s == k)
            return;
    seen.push_back(k);
    std::printf("MISMATCH pair=%s what=%s a=0 b=0 c=0\n", g_pair, what);
}

enum { OP_INC, OP_DEC, OP_PLUS_EQ, OP_MINUS_EQ, OP_IT_PLUS, OP_N_PLUS_IT, OP_IT_MINUS, OP_POSTINC, OP_POSTDEC, OPS };

template<typename It>
static bool apply(It& it, long& idx, int op, long n, long size)
{
    using D = typename std::iterator_traits<It>::difference_type;
    long ni = idx;
    switch(op)
    {
    case OP_INC: case OP_POSTINC: ni = idx + 1; break;
    case OP_DEC: case OP_POSTDEC: ni = idx - 1; break;
    case OP_PLUS_EQ: case OP_IT_PLUS: case OP_N_PLUS_IT: ni = idx + n; break;
    case OP_MINUS_EQ: case OP_IT_MINUS: ni = idx - n; break;
    }
    if(ni < 0 || ni > size)
        return false;
    switch(op)
    {
    case OP_INC: ++it; break;
    case OP_DEC: --it; break;
    case OP_POSTINC: { It old = it++; if(!(old + 1 == it) && size) bad("post-increment", idx, ni, 0); } break;
    case OP_POSTDEC: { It old = it--; if(!(old - 1 == it)) bad("post-decrement", idx, ni, 0); } break;
    case OP_PLUS_EQ: it += static_cast<D>(n); break;
    case OP_MINUS_EQ: it -= static_cast<D>(n); break;
    case OP_IT_PLUS: it = it + static_cast<D>(n); break;
    case OP_N_PLUS_IT: it = static_cast<D>(n) + it; break;
    case OP_IT_MINUS: it = it - static_cast<D>(n); break;
    }
    idx = ni;
    return true;
}

template<typename G, typename It>
static void check_pos(const G& g, const It& it, long idx, long size, const unsigned char* data, unsigned long long bl, const char* how)
{
    g_expr++;
    g_per_pair[g_pair_idx][0]++;
    const It b = g.begin();
    const It e = g.end();
    if(static_cast<long>(it - b) != idx)
        bad("index(it-begin)", idx, static_cast<long>(it - b), 0);
    if(static_cast<long>(e - it) != size - idx)
        bad("index(end-it)", idx, static_cast<long>(e - it), size);
    if((it == e) != (idx == size) || (it != e) == (idx == size))
        bad("==end", idx, size, 0);
    if((it == b) != (idx == 0))
        bad("==begin", idx, size, 0);
    if(idx < size)
    {
        const unsigned char* expect = data + static_cast<unsigned long long>(idx) * bl;
        const unsigned char* got = reinterpret_cast<const unsigned char*>(sbepp::addressof(*it));
        if(got != expect)
            bad(how, idx, static_cast<long>(got - data), static_cast<long>(expect - data));
        const unsigned char* got2 = reinterpret_cast<const unsigned char*>(sbepp::addressof(*it.operator->().operator->()));
        if(got2 != expect)
            bad("operator->", idx, static_cast<long>(got2 - data), static_cast<long>(expect - data));
        if(bl >= 1 && *it->x() != *expect)
            bad("entry-field", idx, *it->x(), *expect);
    }
}

template<typename G, typename It>
static void explore(const G& g, It it, long idx, long size, const unsigned char* data, unsigned long long bl, int depth)
{
    if(depth == 0)
        return;
    for(int op = 0; op < OPS; op++)
    {
        const bool needs_n = (op == OP_PLUS_EQ || op == OP_MINUS_EQ || op == OP_IT_PLUS || op == OP_N_PLUS_IT || op == OP_IT_MINUS);
        for(long n = (needs_n ? -4 : 0); n <= (needs_n ? 4 : 0); n++)
        {
            It cur = it;
            long ci = idx;
            if(!apply(cur, ci, op, n, size))
                continue;
            check_pos(g, cur, ci, size, data, bl, "address-after-expression");
            explore(g, cur, ci, size, data, bl, depth - 1);
        }
    }
}

template<typename Msg, int NB, int BB, int BOFF, int NOFF, int DIM>
static void flat_one(long size, unsigned long long bl, bool checked)
{
    // [msg header 8][block 0][dimension: blockLength BB bytes, numInGroup NB bytes][size * bl]
    const std::size_t hdr = 8, dim = DIM;
    const std::size_t total = hdr + dim + static_cast<std::size_t>(size) * bl;
    std::vector<unsigned char> buf(total + 1);
    for(std::size_t i = 0; i < buf.size(); i++)
        buf[i] = static_cast<unsigned char>(17 + i * 29);
    put_le(&buf[0], 2, 0);
    put_le(&buf[hdr + BOFF], BB, bl);
    put_le(&buf[hdr + NOFF], NB, static_cast<unsigned long long>(size));
    unsigned char* data = &buf[hdr + dim];
    Msg m{reinterpret_cast<char*>(buf.data()), total};
    auto g = m.g();
    using G = decltype(g);
    using It = typename G::iterator;
    static_assert(std::is_same<typename std::iterator_traits<It>::iterator_category, std::random_access_iterator_tag>::value, "flat group iterator must be random access");
    (void)checked;

    bool as = VRT_TRAPPED(({
        g_container++;
        if(static_cast<long>(g.size()) != size || g.empty() != (size == 0))
            bad("size", size, static_cast<long>(g.size()), 0);
        if(sbepp::size_bytes(g) != dim + static_cast<std::size_t>(size) * bl)
            bad("size_bytes", size, static_cast<long>(sbepp::size_bytes(g)), static_cast<long>(dim + size * bl));
        if(!(g.begin() + static_cast<typename G::difference_type>(size) == g.end()))
            bad("begin+size==end", size, 0, 0);
        if(static_cast<long>(std::distance(g.begin(), g.end())) != size)
            bad("distance", size, 0, 0);
        if(reinterpret_cast<unsigned char*>(sbepp::addressof(g)) != &buf[hdr])
            bad("group-address", 0, 0, 0);
        for(long i = 0; i < size; i++)
        {
            const unsigned char* expect = data + static_cast<unsigned long long>(i) * bl;
            if(reinterpret_cast<unsigned char*>(sbepp::addressof(g[static_cast<typename G::size_type>(i)])) != expect)
                bad("operator[]", i, 0, 0);
            for(long n = -i; n < size - i; n++)
            {
                // it[n] is *(it+n)
                It it = g.begin() + static_cast<typename G::difference_type>(i);
                g_expr++;
                if(reinterpret_cast<unsigned char*>(sbepp::addressof(it[static_cast<typename G::difference_type>(n)]))
                   != data + static_cast<unsigned long long>(i + n) * bl)
                    bad("it[n]", i, n, 0);
                // (it+n)-n is it, by address and index
                It back = (it + static_cast<typename G::difference_type>(n)) - static_cast<typename G::difference_type>(n);
                if(!(back == it) || reinterpret_cast<unsigned char*>(sbepp::addressof(*back)) != expect)
                    bad("(it+n)-n", i, n, static_cast<long>(reinterpret_cast<unsigned char*>(sbepp::addressof(*back)) - data));
            }
        }
        if(size)
        {
            if(reinterpret_cast<unsigned char*>(sbepp::addressof(g.front())) != data)
                bad("front", 0, 0, 0);
            if(reinterpret_cast<unsigned char*>(sbepp::addressof(g.back())) != data + static_cast<unsigned long long>(size - 1) * bl)
                bad("back", 0, 0, 0);
        }
        // range-for visits size() entries at the right addresses
        long k = 0;
        for(const auto e : g)
        {
            if(reinterpret_cast<unsigned char*>(sbepp::addressof(e)) != data + static_cast<unsigned long long>(k) * bl)
                bad("range-for", k, 0, 0);
            k++;
        }
        if(k != size)
            bad("range-for-count", k, size, 0);
        // comparisons and distances for all index pairs
        for(long i = 0; i <= size; i++)
            for(long j = 0; j <= size; j++)
            {
                It a = g.begin() + static_cast<typename G::difference_type>(i);
                It b = g.begin() + static_cast<typename G::difference_type>(j);
                g_cmp++;
                if((a == b) != (i == j) || (a != b) != (i != j) || (a < b) != (i < j) || (a <= b) != (i <= j)
                   || (a > b) != (i > j) || (a >= b) != (i >= j) || static_cast<long>(a - b) != i - j)
                    bad("comparison", i, j, static_cast<long>(a - b));
            }
        // every iterator expression up to the depth bound from every start index
        for(long i = 0; i <= size; i++)
        {
            It it = g.begin() + static_cast<typename G::difference_type>(i);
            check_pos(g, it, i, size, data, bl, "address(begin+i)");
            explore(g, it, i, size, data, bl, C12_DEPTH);
        }
        // resize / clear change only numInGroup
        std::vector<unsigned char> before = buf;
        g.resize(static_cast<typename G::size_type>(size ? size - 1 : 1));
        g_container++;
        for(std::size_t i = 0; i < buf.size(); i++)
        {
            const bool in_num = (i >= hdr + NOFF && i < hdr + NOFF + NB);
            if(!in_num && buf[i] != before[i])
                bad("resize-touched-other-byte", static_cast<long>(i), 0, 0);
        }
        if(get_le(&buf[hdr + NOFF], NB) != static_cast<unsigned long long>(size ? size - 1 : 1))
            bad("resize-value", size, 0, 0);
        g.clear();
        for(std::size_t i = 0; i < buf.size(); i++)
        {
            const bool in_num = (i >= hdr + NOFF && i < hdr + NOFF + NB);
            if(!in_num && buf[i] != before[i])
                bad("clear-touched-other-byte", static_cast<long>(i), 0, 0);
        }
        if(get_le(&buf[hdr + NOFF], NB) != 0 || g.size() != 0 || !g.empty() || !(g.begin() == g.end()))
            bad("clear-value", size, 0, 0);
    }));
    if(as)
    {
        g_asserts++;
        g_mismatch++;
        std::printf("MISMATCH pair=%s what=spurious-assert size=%ld bl=%llu expr=%s\n", g_pair, size, bl, vrt::astate().expr);
    }
    if(g_samples < 6 && size == 2 && bl == 4 && (g_pair_idx % 5) == 0)
    {
        g_samples++;
        std::printf("SAMPLE pair=%s flat size=%ld wire_block_length=%llu expressions_so_far=%llu\n", g_pair, size, bl, g_expr);
    }
}

template<typename Msg, int NB, int BB, int BOFF, int NOFF, int DIM>
static void nested_one(long size, unsigned long long bl, unsigned variant)
{
    // entries: [block bl bytes][data: length u8 + payload]; payload lengths vary per entry
    const std::size_t hdr = 8, dim = DIM;
    std::vector<std::size_t> lens;
    std::size_t total = hdr + dim;
    for(long i = 0; i < size; i++)
    {
        lens.push_back((variant * 3 + static_cast<unsigned>(i) * 2) % 5);
        total += bl + 1 + lens.back();
    }
    std::vector<unsigned char> buf(total + 1);
    for(std::size_t i = 0; i < buf.size(); i++)
        buf[i] = static_cast<unsigned char>(201 + i * 13);
    put_le(&buf[0], 2, 0);
    put_le(&buf[hdr + BOFF], BB, bl);
    put_le(&buf[hdr + NOFF], NB, static_cast<unsigned long long>(size));
    std::vector<std::size_t> starts;
    std::size_t off = hdr + dim;
    for(long i = 0; i < size; i++)
    {
        starts.push_back(off);
        buf[off + bl] = static_cast<unsigned char>(lens[i]);
        off += bl + 1 + lens[i];
    }
    Msg m{reinterpret_cast<char*>(buf.data()), total};
    auto g = m.g();
    using G = decltype(g);
    using It = typename G::iterator;
    static_assert(std::is_same<typename std::iterator_traits<It>::iterator_category, std::forward_iterator_tag>::value, "nested group iterator must be forward");
    bool as = VRT_TRAPPED(({
        g_container++;
        if(static_cast<long>(g.size()) != size || g.empty() != (size == 0))
            bad("nested-size", size, static_cast<long>(g.size()), 0);
        if(sbepp::size_bytes(g) != total - hdr)
            bad("nested-size_bytes", static_cast<long>(sbepp::size_bytes(g)), static_cast<long>(total - hdr), 0);
        if(sbepp::size_bytes(m) != total)
            bad("nested-message-size_bytes", static_cast<long>(sbepp::size_bytes(m)), static_cast<long>(total), 0);
        long k = 0;
        It it = g.begin();
        for(; it != g.end(); ++it, ++k)
        {
            g_nested_steps++;
            g_per_pair[g_pair_idx][1]++;
            if(k >= size)
            {
                bad("nested-too-many-steps", k, size, 0);
                break;
            }
            if(reinterpret_cast<unsigned char*>(sbepp::addressof(*it)) != &buf[starts[k]])
                bad("nested-entry-address", k, static_cast<long>(reinterpret_cast<unsigned char*>(sbepp::addressof(*it)) - buf.data()), static_cast<long>(starts[k]));
            if(sbepp::size_bytes(*it) != bl + 1 + lens[k])
                bad("nested-entry-size", k, static_cast<long>(sbepp::size_bytes(*it)), static_cast<long>(bl + 1 + lens[k]));
            if(it->d().size() != lens[k])
                bad("nested-entry-data", k, 0, 0);
            It copy = it;
            It old = copy++;
            if(!(old == it) || (k + 1 < size && reinterpret_cast<unsigned char*>(sbepp::addressof(*copy)) != &buf[starts[k + 1]]))
                bad("nested-post-increment", k, 0, 0);
            // multi-pass: a copy made earlier still designates the same entry
            if(reinterpret_cast<unsigned char*>(sbepp::addressof(*old)) != &buf[starts[k]])
                bad("nested-multipass", k, 0, 0);
        }
        if(k != size)
            bad("nested-steps", k, size, 0);
        if(size && reinterpret_cast<unsigned char*>(sbepp::addressof(g.front())) != &buf[starts[0]])
            bad("nested-front", 0, 0, 0);
        std::vector<unsigned char> before = buf;
        g.resize(static_cast<typename G::size_type>(size ? size - 1 : 1));
        for(std::size_t i = 0; i < buf.size(); i++)
            if(!(i >= hdr + NOFF && i < hdr + NOFF + NB) && buf[i] != before[i])
                bad("nested-resize-touched-other-byte", static_cast<long>(i), 0, 0);
        if(get_le(&buf[hdr + NOFF], NB) != static_cast<unsigned long long>(size ? size - 1 : 1))
            bad("nested-resize-value", size, 0, 0);
        g.clear();
        for(std::size_t i = 0; i < buf.size(); i++)
            if(!(i >= hdr + NOFF && i < hdr + NOFF + NB) && buf[i] != before[i])
                bad("nested-clear-touched-other-byte", static_cast<long>(i), 0, 0);
        if(get_le(&buf[hdr + NOFF], NB) != 0 || !g.empty() || !(g.begin() == g.end()))
            bad("nested-clear-value", size, 0, 0);
    }));
    if(as)
    {
        g_asserts++;
        g_mismatch++;
        std::printf("MISMATCH pair=%s what=spurious-assert-nested size=%ld bl=%llu expr=%s\n", g_pair, size, bl, vrt::astate().expr);
    }
}

// Large counts ("any header contents" inside the signed range of the dimension type): with a zero (or one byte)
// wire block length a group of 127 / 32767 / 2^31-1 / 2^63-1 entries needs no (little) memory; the laws are checked
// at sampled positions instead of by full loops.
static unsigned long long g_large;
template<typename Msg, int NB, int BB, int BOFF, int NOFF, int DIM>
static void flat_large(unsigned long long size, unsigned long long bl)
{
    const std::size_t hdr = 8, dim = DIM;
    const std::size_t total = hdr + dim + static_cast<std::size_t>(size * bl);
    std::vector<unsigned char> buf(total + 1);
    put_le(&buf[0], 2, 0);
    put_le(&buf[hdr + BOFF], BB, bl);
    put_le(&buf[hdr + NOFF], NB, size);
    unsigned char* data = &buf[hdr + dim];
    Msg m{reinterpret_cast<char*>(buf.data()), total};
    auto g = m.g();
    using G = decltype(g);
    using It = typename G::iterator;
    using D = typename G::difference_type;
    using S = typename G::size_type;
    bool as = VRT_TRAPPED(({
        g_large++;
        if(static_cast<unsigned long long>(g.size()) != size || g.empty())
            bad("large-size", 0, 0, 0);
        if(sbepp::size_bytes(g) != dim + size * bl)
            bad("large-size_bytes", 0, 0, 0);
        if(!(g.begin() + static_cast<D>(size) == g.end()) || !(g.end() - static_cast<D>(size) == g.begin()))
            bad("large-begin+size==end", 0, 0, 0);
        if(static_cast<unsigned long long>(g.end() - g.begin()) != size || static_cast<unsigned long long>(std::distance(g.begin(), g.end())) != size)
            bad("large-distance", 0, 0, 0);
        const unsigned long long samples[6] = {0, 1, size / 2, size - 2, size - 1, size};
        for(int a = 0; a < 6; a++)
        {
            const unsigned long long i = samples[a];
            if(i > size)
                continue;
            It it = g.begin() + static_cast<D>(i);
            g_expr++;
            if(i < size)
            {
                if(reinterpret_cast<unsigned char*>(sbepp::addressof(*it)) != data + i * bl
                   || reinterpret_cast<unsigned char*>(sbepp::addressof(g[static_cast<S>(i)])) != data + i * bl
                   || reinterpret_cast<unsigned char*>(sbepp::addressof(g.begin()[static_cast<D>(i)])) != data + i * bl)
                    bad("large-entry-address", static_cast<long>(a), 0, 0);
                // from the end backwards
                if(reinterpret_cast<unsigned char*>(sbepp::addressof(g.end()[-static_cast<D>(size - i)])) != data + i * bl)
                    bad("large-end[-k]", static_cast<long>(a), 0, 0);
            }
            It back = it;
            back -= static_cast<D>(i);
            if(!(back == g.begin()) || static_cast<unsigned long long>(it - g.begin()) != i || static_cast<unsigned long long>(g.end() - it) != size - i)
                bad("large-difference", static_cast<long>(a), 0, 0);
            for(int b = 0; b < 6; b++)
            {
                const unsigned long long j = samples[b];
                if(j > size)
                    continue;
                It other = g.end() - static_cast<D>(size - j);
                g_cmp++;
                if((it == other) != (i == j) || (it != other) != (i != j) || (it < other) != (i < j) || (it <= other) != (i <= j)
                   || (it > other) != (i > j) || (it >= other) != (i >= j)
                   || static_cast<long long>(it - other) != static_cast<long long>(i) - static_cast<long long>(j))
                    bad("large-comparison", static_cast<long>(a), static_cast<long>(b), 0);
            }
        }
        if(reinterpret_cast<unsigned char*>(sbepp::addressof(g.front())) != data
           || reinterpret_cast<unsigned char*>(sbepp::addressof(g.back())) != data + (size - 1) * bl)
            bad("large-front-back", 0, 0, 0);
    }));
    if(as)
    {
        g_asserts++;
        g_mismatch++;
        std::printf("MISMATCH pair=%s what=spurious-assert-large size=%llu bl=%llu expr=%s\n", g_pair, size, bl, vrt::astate().expr);
    }
}

// Counts in the upper half of the unsigned count type (still "any header contents").  Everything that does not have to
// pass a position through difference_type must work: size, size_bytes, operator[], front, back, stepping with ++/--
// from either end, begin()/end() inequality.  Iterator arithmetic that *needs* a distance of more than the signed
// maximum (begin()+size(), end()-begin()) is reported under its own site, see known_findings.txt.
template<typename Msg, int NB, int BB, int BOFF, int NOFF, int DIM>
static void flat_upper(unsigned long long size, unsigned long long bl, bool walk)
{
    const std::size_t hdr = 8, dim = DIM;
    const std::size_t total = hdr + dim + static_cast<std::size_t>(size * bl);
    std::vector<unsigned char> buf(total + 1);
    put_le(&buf[0], 2, 0);
    put_le(&buf[hdr + BOFF], BB, bl);
    put_le(&buf[hdr + NOFF], NB, size);
    unsigned char* data = &buf[hdr + dim];
    Msg m{reinterpret_cast<char*>(buf.data()), total};
    auto g = m.g();
    using G = decltype(g);
    using It = typename G::iterator;
    using D = typename G::difference_type;
    using S = typename G::size_type;
    bool as = VRT_TRAPPED(({
        g_large++;
        if(static_cast<unsigned long long>(g.size()) != size || g.empty())
            bad("upper-size", 0, 0, 0);
        if(sbepp::size_bytes(g) != dim + size * bl)
            bad("upper-size_bytes", 0, 0, 0);
        const unsigned long long smax = (NB == 8) ? 0x7FFFFFFFFFFFFFFFULL : ((1ULL << (8 * NB - 1)) - 1);
        const unsigned long long samples[7] = {0, 1, smax - 1, smax, smax + 1, size - 2, size - 1};
        for(int a = 0; a < 7; a++)
        {
            const unsigned long long i = samples[a];
            if(i >= size)
                continue;
            g_expr++;
            if(reinterpret_cast<unsigned char*>(sbepp::addressof(g[static_cast<S>(i)])) != data + i * bl)
                bad("upper-operator[]", static_cast<long>(a), 0, 0);
        }
        if(reinterpret_cast<unsigned char*>(sbepp::addressof(g.front())) != data
           || reinterpret_cast<unsigned char*>(sbepp::addressof(g.back())) != data + (size - 1) * bl)
            bad("upper-front-back", 0, 0, 0);
        if(g.begin() == g.end() || !(g.begin() != g.end()))
            bad("upper-begin!=end", 0, 0, 0);
        {
            It it = g.end();
            --it;
            if(reinterpret_cast<unsigned char*>(sbepp::addressof(*it)) != data + (size - 1) * bl)
                bad("upper---end", 0, 0, 0);
            ++it;
            if(!(it == g.end()))
                bad("upper-++(--end)", 0, 0, 0);
        }
        if(walk)
        {
            unsigned long long k = 0;
            for(const auto e : g)
            {
                if(reinterpret_cast<unsigned char*>(sbepp::addressof(e)) != data + k * bl)
                {
                    bad("upper-range-for", static_cast<long>(k), 0, 0);
                    break;
                }
                k++;
                if(k > size)
                    break;
            }
            if(k != size)
                bad("upper-range-for-count", static_cast<long>(k), static_cast<long>(size), 0);
        }
        // distances beyond the signed maximum cannot be passed through difference_type
        if(!(g.begin() + static_cast<D>(size) == g.end()))
            beyond("count-beyond-difference_type:begin+size==end");
        if(static_cast<unsigned long long>(static_cast<S>(g.end() - g.begin())) != size || (g.end() - g.begin()) < 0)
            beyond("count-beyond-difference_type:end-begin");
        if(!(g.begin() < g.end()))
            beyond("count-beyond-difference_type:begin<end");
    }));
    if(as)
    {
        g_asserts++;
        g_mismatch++;
        std::printf("MISMATCH pair=%s what=spurious-assert-upper size=%llu bl=%llu expr=%s\n", g_pair, size, bl, vrt::astate().expr);
    }
}

template<typename MF, typename MN, int NB, int BB, int BOFF = 0, int NOFF = BB, int DIM = NB + BB>
static void run_pair(const char* name, int idx)
{
    g_pair = name;
    g_pair_idx = idx;
    const unsigned long long bls[3] = {0, 1, 4};
    for(long size = 0; size <= C12_MAXSIZE; size++)
        for(int b = 0; b < 3; b++)
        {
            flat_one<MF, NB, BB, BOFF, NOFF, DIM>(size, bls[b], true);
            for(unsigned v = 0; v < 3; v++)
                nested_one<MN, NB, BB, BOFF, NOFF, DIM>(size, bls[b] ? bls[b] : 1, v); // nested entries hold field x: wire block >= 1... and 0 below
            nested_one<MN, NB, BB, BOFF, NOFF, DIM>(size, 0, 1);
        }
    {
        const unsigned long long dmax = (NB == 8) ? 0x7FFFFFFFFFFFFFFFULL : ((1ULL << (8 * NB - 1)) - 1);
        const unsigned long long blmax = (BB == 8) ? 0xFFFFFFFFFFFFFFFFULL : ((1ULL << (8 * BB)) - 1);
        flat_large<MF, NB, BB, BOFF, NOFF, DIM>(dmax, 0);
        flat_large<MF, NB, BB, BOFF, NOFF, DIM>(dmax - 1, 0);
        if(NB <= 2)
        {
            flat_large<MF, NB, BB, BOFF, NOFF, DIM>(dmax, 1);
            flat_large<MF, NB, BB, BOFF, NOFF, DIM>(dmax, 2);
        }
        (void)blmax;
        const unsigned long long umax = (NB == 8) ? 0xFFFFFFFFFFFFFFFFULL : ((1ULL << (8 * NB)) - 1);
        flat_upper<MF, NB, BB, BOFF, NOFF, DIM>(umax, 0, NB <= 2);
        flat_upper<MF, NB, BB, BOFF, NOFF, DIM>(dmax + 1, 0, NB <= 2);
        if(NB <= 2)
            flat_upper<MF, NB, BB, BOFF, NOFF, DIM>(umax, 1, true);
    }
    std::printf("DONE pair=%s expr=%llu\n", name, g_expr);
}

int main()
{
@RUNS@
    for(int i = 0; i < C12_NPAIRS; i++)
        std::printf("PAIR %d flat_expr=%llu nested_steps=%llu\n", i, g_per_pair[i][0], g_per_pair[i][1]);
    std::printf("TOTAL expressions=%llu comparisons=%llu container_checks=%llu nested_steps=%llu mismatches=%llu asserts=%llu\n",
                g_expr, g_cmp, g_container, g_nested_steps, g_mismatch, g_asserts);
    std::printf("LARGE containers=%llu\n", g_large);
    return 0;
}
'''


def make_driver():
    runs = ""
    k = 0
    for n in TY:
        for b in TY:
            runs += '    run_pair<c12::messages::mf_%d_%d<char>, c12::messages::mn_%d_%d<char>, %d, %d>("num=uint%d/bl=uint%d", %d);\n' % (
                n, b, n, b, n // 8, b // 8, n, b, k)
            k += 1
    for n, b in LAYOUT_PAIRS:
        for lay in LAYOUTS:
            boff, noff, dim = layout_members(lay, n, b)[1]
            runs += ('    run_pair<c12::messages::mf_%s_%d_%d<char>, c12::messages::mn_%s_%d_%d<char>, %d, %d, %d, %d, %d>'
                     '("num=uint%d/bl=uint%d/header=%s", %d);\n') % (lay, n, b, lay, n, b, n // 8, b // 8, boff, noff, dim, n, b, lay, k)
            k += 1
    return DRIVER.replace("@RUNS@", runs).replace("C12_NPAIRS", str(k))


def configs(tier):
    H = ("SBEPP_ENABLE_ASSERTS_WITH_HANDLER",)
    if tier == "quick":
        return [build.Cfg("g++", "17", "san", defs=H), build.Cfg("clang++", "14", "plain", defs=("SBEPP_DISABLE_ASSERTS",)),
                build.Cfg("clang++", "20", "ubsan", defs=("SBEPP_DISABLE_ASSERTS",))]
    cfgs = [build.Cfg(cxx, std, "san", defs=H) for cxx, std in build.all_compiler_std()]
    cfgs += [build.Cfg("g++", "11", "plain", defs=("SBEPP_DISABLE_ASSERTS",)),
             build.Cfg("clang++", "23", "plain", defs=("SBEPP_DISABLE_ASSERTS",)),
             build.Cfg("g++", "20", "ubsan", defs=("SBEPP_DISABLE_ASSERTS",))]
    return cfgs


def main():
    rep = Report("C12", "exploration")
    quick = rep.tier == "quick"
    maxsize, depth = (3, 2) if quick else (5, 3)
    xml = make_schema()
    gen = build.gen_headers(xml, "rel")
    if gen["rc"] != 0:
        raise C.HarnessError("sbeppc rejected the C12 schema: " + gen["out"][-2000:])
    src = make_driver()
    rep.rule("16 (numInGroup, blockLength) type pairs over uint8/16/32/64 with the canonical two-member dimension, plus 4 type pairs x 4 other dimension layouts (reversed member order, custom offsets with gaps, numGroups/numVarDataFields behind, extra members in front and behind), flat and nested group each; sizes 0..%d; wire "
             "block length in {0, compiled=1, 4}; flat: every iterator expression of depth <= %d over ++, --, it++, "
             "it--, +=n, -=n, it+n, n+it, it-n (n in -4..4, inside [0,size]) checked by address and by index, it[n], "
             "(it+n)-n, it-it and all six comparisons for all index pairs, begin/end/front/back/[]/range-for, "
             "resize/clear byte diff; nested: begin->end walk, entry start/size, multipass copies, front, resize/clear; "
             "large counts: numInGroup = the dimension type's signed maximum (127 / 32767 / 2^31-1 / 2^63-1) and one less "
             "with wire block length 0 (and 1, 2 for 8/16-bit counts): size, size_bytes, begin+size==end, distances, "
             "entry addresses via *, [] and end()[-k], comparisons at sampled positions. "
             "Exhaustive inside this scope. distinct_nontrivial = distinct (pair, group kind) with at least one "
             "expression evaluated on a non-empty group." % (maxsize, depth))
    cfgs = configs(rep.tier)

    def one(cfg):
        c = build.Cfg(cfg.cxx, cfg.std, cfg.mode, cfg.defs + ("C12_MAXSIZE=%d" % maxsize, "C12_DEPTH=%d" % depth), cfg.extra)
        ok, exe, out = build.compile_driver(src, c, inc_dirs=(gen["dir"],), dep_key=C.sha(xml), name="c12")
        if not ok:
            return cfg, None, out
        rc, o, _, to = C.run([exe], timeout=3000, env=build.drv_env())
        return cfg, (rc, to), o.decode(errors="replace")

    totals = set()
    for cfg, st, out in C.pmap(one, cfgs):
        if st is None:
            raise C.HarnessError("C12 driver does not compile under %s:\n%s" % (cfg, out[-3000:]))
        rc, to = st
        if to:
            rep.inconc("driver timeout under %s" % cfg)
            continue
        for mm in re.finditer(r"^MISMATCH pair=(\S+) what=(\S+) (.*)$", out, re.M):
            klass = "spurious-assert" if mm.group(2).startswith("spurious-assert") else "law-violated"
            rep.violation(klass, "group-iterator/%s" % mm.group(2), "%s: %s" % (cfg, mm.group(0)),
                          {"config": str(cfg), "schema_xml": xml, "case": mm.group(0), "maxsize": maxsize, "depth": depth})
        for msg, f, line in build.ubsan_reports(out):
            rep.violation("ubsan:" + msg, f, "%s: %s" % (cfg, line), {"config": str(cfg), "report": line})
        m = re.search(r"TOTAL expressions=(\d+) comparisons=(\d+) container_checks=(\d+) nested_steps=(\d+) mismatches=(\d+) asserts=(\d+)", out)
        if "AddressSanitizer" in out:
            first = re.search(r"ERROR: AddressSanitizer: (\S+)", out)
            rep.violation("asan:" + (first.group(1) if first else "?"), "group-iterator", "%s: %s" % (cfg, out[-1500:]),
                          {"config": str(cfg), "output": out[-4000:]})
        elif m is None:
            rep.violation("abort", "c12_driver", "%s: driver died rc=%s: %s" % (cfg, rc, out[-800:]),
                          {"config": str(cfg), "output": out[-4000:]})
        if m:
            if int(m.group(5)) == 0:
                totals.add((int(m.group(1)), int(m.group(2)), int(m.group(4))))
            rep.evaluation(int(m.group(1)) + int(m.group(2)) + int(m.group(3)) + int(m.group(4)))
            rep.count("expressions", int(m.group(1)))
            rep.count("comparisons", int(m.group(2)))
            rep.count("nested_steps", int(m.group(4)))
            lm = re.search(r"^LARGE containers=(\d+)", out, re.M)
            rep.count("large_count_groups", int(lm.group(1)) if lm else 0)
            for pm in re.finditer(r"^PAIR (\d+) flat_expr=(\d+) nested_steps=(\d+)$", out, re.M):
                if int(pm.group(2)):
                    rep.nontrivial(pm.group(1), "flat")
                if int(pm.group(3)):
                    rep.nontrivial(pm.group(1), "nested")
            for sm in re.finditer(r"^SAMPLE (.*)$", out, re.M):
                rep.sample({"config": str(cfg), "case": sm.group(1)})
    if len(totals) > 1:
        rep.inconc("configurations disagree on the size of the explored scope: %s" % sorted(totals))
    rep.cov["configs"] = [str(c) for c in cfgs]
    rep.cov["pairs"] = 16 + len(LAYOUT_PAIRS) * len(LAYOUTS)
    rep.cov["header_layouts"] = ["blockLength,numInGroup (all 16 type pairs)"] + [
        "%s: %s" % (l, {"rev": "numInGroup before blockLength", "gap": "custom offsets with gaps (blockLength at 3, two bytes between the members)",
                         "ext": "blockLength,numInGroup,numGroups,numVarDataFields", "xtra": "uint32 in front, uint8 behind"}[l]) for l in LAYOUTS]
    rep.cov["max_size"] = maxsize
    rep.cov["depth"] = depth
    rep.cov["exhaustive"] = True
    rep.assumptions += ["iterator expressions stay inside [begin, end] (the standard's precondition)",
                        "group sizes stay far below difference_type's maximum"]
    return rep.finish()
