"""C01 -- encoding writes exactly the SBE wire image of the schema (see vf/codec_checks.py)."""
from ..codec_checks import c01_main


def main():
    return c01_main("C01")
