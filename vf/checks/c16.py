"""C16 -- optional/required scalars: null, range, ordering and SBE defaults.

A generated schema declares, for each of the 11 primitive types, required and
optional types without attributes and with explicit minValue/maxValue/
nullValue (type extremes, int64 minimum, uint64 maximum, INF/NaN/decimal float
literals).  The driver evaluates, for the generated types *and* the built-in
sbepp wrappers, every predicate and comparison operator on all ordered pairs
of a boundary value set and compares them with a reference definition of the
documented rule; static min/max/null are compared bit-exactly with values
computed in python from the XML text / the SBE default table.
"""
import re
import struct

from .. import build, common as C
from ..findings import Report

PRIMS = ["char", "int8", "uint8", "int16", "uint16", "int32", "uint32", "int64", "uint64", "float", "double"]
CPP = {"char": "char", "int8": "std::int8_t", "uint8": "std::uint8_t", "int16": "std::int16_t", "uint16": "std::uint16_t",
       "int32": "std::int32_t", "uint32": "std::uint32_t", "int64": "std::int64_t", "uint64": "std::uint64_t",
       "float": "float", "double": "double"}
BITS = {"char": 8, "int8": 8, "uint8": 8, "int16": 16, "uint16": 16, "int32": 32, "uint32": 32, "int64": 64, "uint64": 64,
        "float": 32, "double": 64}


def is_fp(p):
    return p in ("float", "double")


def is_signed(p):
    return p.startswith("int") or p == "char"


def to_bits(p, text):
    """Bit pattern (as unsigned int) of the value an XML literal denotes for primitive p."""
    if is_fp(p):
        t = {"NaN": "nan", "INF": "inf", "+INF": "inf", "-INF": "-inf"}.get(text, text)
        v = float(t)
        if p == "float":
            return struct.unpack("<I", struct.pack("<f", v))[0]
        return struct.unpack("<Q", struct.pack("<d", v))[0]
    return int(text) & ((1 << BITS[p]) - 1)


def sbe_defaults(p):
    """SBE 1.0 default min/max/null per primitive type (integers); floats follow sbepp's built-ins."""
    n = BITS[p]
    if p == "char":
        return "32", "126", "0"
    if p.startswith("uint"):
        return "0", str(2 ** n - 2), str(2 ** n - 1)
    if p.startswith("int"):
        return str(-(2 ** (n - 1)) + 1), str(2 ** (n - 1) - 1), str(-(2 ** (n - 1)))
    return None


FP_DEFAULT_BITS = {  # numeric_limits<T>::min(), max(), quiet_NaN()
    "float": (0x00800000, 0x7F7FFFFF, 0x7FC00000),
    "double": (0x0010000000000000, 0x7FEFFFFFFFFFFFFF, 0x7FF8000000000000),
}


def explicit_values(p):
    """(min, max, null) literals for the explicit flavours: list of (suffix, min, max, null)."""
    n = BITS[p]
    # flavour "w": decimal numbers written with leading zeros (a schema number is decimal; pasted into C++ unchanged it
    # would be an octal literal: 010 -> 8, 0099 -> ill-formed)
    if p == "char":
        return [("x", "-128", "127", "-1"), ("y", "65", "90", "127"), ("w", "033", "0099", "000")]
    if p.startswith("uint"):
        return [("x", "0", str(2 ** n - 1), "0"), ("y", "1", str(2 ** n - 2), str(2 ** n - 1)), ("w", "007", "0099", "0010")]
    if p.startswith("int"):
        return [("x", str(-(2 ** (n - 1))), str(2 ** (n - 1) - 1), "0"),
                ("y", str(-(2 ** (n - 1)) + 1), str(2 ** (n - 1) - 2), str(2 ** (n - 1) - 1)), ("w", "-010", "0099", "-000")]
    if p == "float":
        return [("x", "-INF", "INF", "NaN"), ("y", "-1.5", "3.4028235e38", "-1.0"), ("z", "1e-3", "16777216.0", "-0.0"),
                ("w", "-010", "0099", "010.5"),
                # flavour "v": written as integers whose magnitude is beyond the 64-bit integer literals of C++ (every value
                # here is exactly representable as float, so there is one correct bit pattern)
                ("v", "-9223372036854775808", "100000000000000000000", "18446744073709551616")]
    return [("x", "-INF", "+INF", "NaN"), ("y", "-1.5", "1.7976931348623157e308", "-1.0"), ("z", "1e-3", "9007199254740993.0", "-0.0"),
            ("w", "-010", "0099", "0010"),
            ("v", "-9223372036854775808", "18446744073709551616", "-100000000000000000000")]


def build_cases():
    """List of dicts: name (schema type or None for built-in), cpp type, prim, opt?, min/max/null bits."""
    cases = []
    xml_types = ""
    fields = ""
    fid = 1
    for p in PRIMS:
        d = sbe_defaults(p)
        if d:
            dmin, dmax, dnull = (to_bits(p, t) for t in d)
        else:
            dmin, dmax, dnull = FP_DEFAULT_BITS[p]
        # built-ins
        cases.append(dict(name="builtin:%s_t" % p, cpp="sbepp::%s_t" % p, prim=p, opt=False, min=dmin, max=dmax, null=None))
        cases.append(dict(name="builtin:%s_opt_t" % p, cpp="sbepp::%s_opt_t" % p, prim=p, opt=True, min=dmin, max=dmax, null=dnull))
        # schema types without attributes
        xml_types += '        <type name="r_%s" primitiveType="%s"/>\n' % (p, p)
        xml_types += '        <type name="o_%s" primitiveType="%s" presence="optional"/>\n' % (p, p)
        cases.append(dict(name="r_%s" % p, cpp="c16::types::r_%s" % p, prim=p, opt=False, min=dmin, max=dmax, null=None))
        cases.append(dict(name="o_%s" % p, cpp="c16::types::o_%s" % p, prim=p, opt=True, min=dmin, max=dmax, null=dnull))
        for suf, mn, mx, nl in explicit_values(p):
            xml_types += '        <type name="r%s_%s" primitiveType="%s" minValue="%s" maxValue="%s"/>\n' % (suf, p, p, mn, mx)
            xml_types += ('        <type name="o%s_%s" primitiveType="%s" presence="optional" minValue="%s" maxValue="%s" '
                          'nullValue="%s"/>\n') % (suf, p, p, mn, mx, nl)
            cases.append(dict(name="r%s_%s" % (suf, p), cpp="c16::types::r%s_%s" % (suf, p), prim=p, opt=False,
                              min=to_bits(p, mn), max=to_bits(p, mx), null=None))
            cases.append(dict(name="o%s_%s" % (suf, p), cpp="c16::types::o%s_%s" % (suf, p), prim=p, opt=True,
                              min=to_bits(p, mn), max=to_bits(p, mx), null=to_bits(p, nl)))
        # partially explicit: only one attribute given, the others default
        xml_types += '        <type name="op_%s" primitiveType="%s" presence="optional" maxValue="%s"/>\n' % (
            p, p, explicit_values(p)[1][2])
        cases.append(dict(name="op_%s" % p, cpp="c16::types::op_%s" % p, prim=p, opt=True, min=dmin,
                          max=to_bits(p, explicit_values(p)[1][2]), null=dnull))
        fields += '        <field name="fr_%s" id="%d" type="%s"/>\n' % (p, fid, p)
        fields += '        <field name="fo_%s" id="%d" type="%s" presence="optional"/>\n' % (p, fid + 1, p)
        fid += 2
    xml = '''<?xml version="1.0" encoding="UTF-8"?>
<sbe:messageSchema xmlns:sbe="http://fixprotocol.io/2016/sbe" package="c16" id="1" version="0" byteOrder="littleEndian">
    <types>
        <composite name="messageHeader">
            <type name="blockLength" primitiveType="uint16"/>
            <type name="templateId" primitiveType="uint16"/>
            <type name="schemaId" primitiveType="uint16"/>
            <type name="version" primitiveType="uint16"/>
        </composite>
%s    </types>
    <sbe:message name="m" id="1">
%s    </sbe:message>
</sbe:messageSchema>
''' % (xml_types, fields)
    return xml, cases


DRIVER_HEAD = r'''
#include <c16/c16.hpp>
#include <cstdio>
#include <cstdint>
#include <cstring>
#include <cmath>
#include <limits>
#include <type_traits>
#include <vector>

static unsigned long long g_pairs = 0, g_preds = 0, g_mismatch = 0, g_statics = 0, g_threeway = 0;
static int g_samples = 0;

template<typename T>
static unsigned long long bits_of(T v)
{
    typename std::conditional<sizeof(T) == 8, std::uint64_t,
        typename std::conditional<sizeof(T) == 4, std::uint32_t,
            typename std::conditional<sizeof(T) == 2, std::uint16_t, std::uint8_t>::type>::type>::type u;
    std::memcpy(&u, &v, sizeof u);
    return u;
}
template<typename T>
static T from_bits(unsigned long long b)
{
    typename std::conditional<sizeof(T) == 8, std::uint64_t,
        typename std::conditional<sizeof(T) == 4, std::uint32_t,
            typename std::conditional<sizeof(T) == 2, std::uint16_t, std::uint8_t>::type>::type>::type u
        = static_cast<decltype(u)>(b);
    T v;
    std::memcpy(&v, &u, sizeof v);
    return v;
}
template<typename T>
static bool is_nan(T v, std::true_type) { return v != v; }
template<typename T>
static bool is_nan(T, std::false_type) { return false; }
template<typename T>
static bool is_nan(T v) { return is_nan(v, std::is_floating_point<T>()); }

static void bad(const char* type, const char* what, unsigned long long a, unsigned long long b, int got, int exp)
{
    g_mismatch++;
    if(g_mismatch < 300)
        std::printf("MISMATCH type=%s what=%s a=%016llx b=%016llx got=%d expected=%d\n", type, what, a, b, got, exp);
}

template<typename T>
static std::vector<T> boundary(T mn, T mx, bool has_null, T nl)
{
    std::vector<T> v;
    v.push_back(mn);
    v.push_back(mx);
    if(has_null)
        v.push_back(nl);
    v.push_back(static_cast<T>(0));
    v.push_back(static_cast<T>(1));
    if(std::is_signed<T>::value)
        v.push_back(static_cast<T>(-1));
    v.push_back(std::numeric_limits<T>::lowest());
    v.push_back(std::numeric_limits<T>::max());
    v.push_back(static_cast<T>(mn + 1));
    if(!std::is_floating_point<T>::value)
    {
        v.push_back(static_cast<T>(static_cast<unsigned long long>(mn) - 1ULL));
        v.push_back(static_cast<T>(static_cast<unsigned long long>(mx) + 1ULL));
        v.push_back(static_cast<T>(static_cast<unsigned long long>(mx) - 1ULL));
    }
    if(std::is_floating_point<T>::value)
    {
        v.push_back(std::numeric_limits<T>::quiet_NaN());
        v.push_back(-std::numeric_limits<T>::quiet_NaN());
        v.push_back(std::numeric_limits<T>::infinity());
        v.push_back(-std::numeric_limits<T>::infinity());
        v.push_back(static_cast<T>(-0.0));
        v.push_back(std::numeric_limits<T>::denorm_min());
        v.push_back(std::numeric_limits<T>::min());
        v.push_back(static_cast<T>(-1.5));
    }
#ifdef C16_EXTRA
    // thorough tier: pseudo-random bit patterns (for floats this includes NaN payloads, denormals, both signs)
    unsigned long long x = 0x9E3779B97F4A7C15ULL ^ (static_cast<unsigned long long>(sizeof(T)) << 32) ^ C16_SEED;
    for(int i = 0; i < C16_EXTRA; i++)
    {
        x = x * 6364136223846793005ULL + 1442695040888963407ULL;
        v.push_back(from_bits<T>(x >> (64 - 8 * sizeof(T))));
    }
#endif
    return v;
}

// ---- reference definitions (documented rules) ----
template<typename T>
static bool ref_isnull(T x, T nl)
{
    return (x == nl) || (is_nan(x) && is_nan(nl));
}

template<typename Type, typename T>
static void check_required(const char* name, unsigned long long min_bits, unsigned long long max_bits)
{
    static_assert(std::is_same<typename Type::value_type, T>::value, "value_type");
    static_assert(sbepp::is_required_type<Type>::value && !sbepp::is_optional_type<Type>::value, "kind");
    g_statics += 2;
    if(bits_of<T>(Type::min_value()) != min_bits)
        bad(name, "static-min_value", bits_of<T>(Type::min_value()), min_bits, 0, 1);
    if(bits_of<T>(Type::max_value()) != max_bits)
        bad(name, "static-max_value", bits_of<T>(Type::max_value()), max_bits, 0, 1);
    const T mn = from_bits<T>(min_bits), mx = from_bits<T>(max_bits);
    if(bits_of<T>(Type{}.value()) != 0)
        bad(name, "default-constructed-required-is-zero", bits_of<T>(Type{}.value()), 0, 0, 1);
    const std::vector<T> vals = boundary<T>(mn, mx, false, T{});
    for(T a : vals)
    {
        const Type A{a};
        g_preds += 3;
        if(bits_of<T>(A.value()) != bits_of<T>(a) || bits_of<T>(*A) != bits_of<T>(a))
            bad(name, "value", bits_of<T>(A.value()), bits_of<T>(a), 0, 1);
        const bool exp_in = (mn <= a) && (a <= mx);
        if(A.in_range() != exp_in)
            bad(name, "in_range", bits_of<T>(a), 0, A.in_range(), exp_in);
        for(T b : vals)
        {
            const Type B{b};
            g_pairs++;
            if((A == B) != (a == b)) bad(name, "==", bits_of<T>(a), bits_of<T>(b), A == B, a == b);
            if((A != B) != (a != b)) bad(name, "!=", bits_of<T>(a), bits_of<T>(b), A != B, a != b);
            if((A < B) != (a < b)) bad(name, "<", bits_of<T>(a), bits_of<T>(b), A < B, a < b);
            if((A <= B) != (a <= b)) bad(name, "<=", bits_of<T>(a), bits_of<T>(b), A <= B, a <= b);
            if((A > B) != (a > b)) bad(name, ">", bits_of<T>(a), bits_of<T>(b), A > B, a > b);
            if((A >= B) != (a >= b)) bad(name, ">=", bits_of<T>(a), bits_of<T>(b), A >= B, a >= b);
#if SBEPP_HAS_THREE_WAY_COMPARISON
            g_threeway++;
            if(((A <=> B) < 0) != (a < b) || ((A <=> B) > 0) != (a > b) || ((A <=> B) == 0) != (a == b))
                bad(name, "<=>", bits_of<T>(a), bits_of<T>(b), 0, 1);
#endif
        }
    }
}

template<typename Type, typename T>
static void check_optional(const char* name, unsigned long long min_bits, unsigned long long max_bits, unsigned long long null_bits)
{
    static_assert(std::is_same<typename Type::value_type, T>::value, "value_type");
    static_assert(sbepp::is_optional_type<Type>::value && !sbepp::is_required_type<Type>::value, "kind");
    g_statics += 3;
    if(bits_of<T>(Type::min_value()) != min_bits)
        bad(name, "static-min_value", bits_of<T>(Type::min_value()), min_bits, 0, 1);
    if(bits_of<T>(Type::max_value()) != max_bits)
        bad(name, "static-max_value", bits_of<T>(Type::max_value()), max_bits, 0, 1);
    if(bits_of<T>(Type::null_value()) != null_bits)
        bad(name, "static-null_value", bits_of<T>(Type::null_value()), null_bits, 0, 1);
    const T mn = from_bits<T>(min_bits), mx = from_bits<T>(max_bits), nl = from_bits<T>(null_bits);

    // a default-constructed or nullopt-constructed optional is null
    const Type D{};
    const Type N{sbepp::nullopt};
    const Type N2 = sbepp::nullopt;
    g_preds += 8;
    if(D.has_value()) bad(name, "default-constructed.has_value", bits_of<T>(*D), null_bits, 1, 0);
    if(N.has_value() || N2.has_value()) bad(name, "nullopt-constructed.has_value", bits_of<T>(*N), null_bits, 1, 0);
    if(static_cast<bool>(D) || static_cast<bool>(N)) bad(name, "null.operator-bool", bits_of<T>(*D), null_bits, 1, 0);
    if(bits_of<T>(*D) != null_bits || bits_of<T>(*N) != null_bits) bad(name, "null.value-bits", bits_of<T>(*D), null_bits, 0, 1);
    if(!(D == N)) bad(name, "null==null", bits_of<T>(*D), bits_of<T>(*N), 0, 1);
    if(D != N) bad(name, "null!=null", bits_of<T>(*D), bits_of<T>(*N), 1, 0);
    if((D < N) || (D > N) || !(D <= N) || !(D >= N)) bad(name, "null-vs-null-ordering", bits_of<T>(*D), bits_of<T>(*N), 0, 1);

    const std::vector<T> vals = boundary<T>(mn, mx, true, nl);
    for(T a : vals)
    {
        const Type A{a};
        const bool an = ref_isnull(a, nl);
        g_preds += 5;
        if(bits_of<T>(A.value()) != bits_of<T>(a) || bits_of<T>(*A) != bits_of<T>(a))
            bad(name, "value", bits_of<T>(A.value()), bits_of<T>(a), 0, 1);
        if(A.has_value() != !an) bad(name, "has_value", bits_of<T>(a), null_bits, A.has_value(), !an);
        if(static_cast<bool>(A) != !an) bad(name, "operator-bool", bits_of<T>(a), null_bits, static_cast<bool>(A), !an);
        const bool exp_in = (mn <= a) && (a <= mx);
        if(A.in_range() != exp_in) bad(name, "in_range", bits_of<T>(a), 0, A.in_range(), exp_in);
        // null equals only null and precedes every value
        if((A == N) != an) bad(name, "==nullopt-constructed", bits_of<T>(a), null_bits, A == N, an);
        if((N < A) != !an) bad(name, "null<value", bits_of<T>(a), null_bits, N < A, !an);
        for(T b : vals)
        {
            const Type B{b};
            const bool bn = ref_isnull(b, nl);
            g_pairs++;
            // value_or
            {
                const T got = A.value_or(b);
                const T exp = an ? b : a;
                if(bits_of<T>(got) != bits_of<T>(exp)) bad(name, "value_or", bits_of<T>(a), bits_of<T>(b), 0, 1);
            }
            const bool both = !an && !bn;
            const bool e_eq = both ? (a == b) : (an && bn);
            const bool e_ne = both ? (a != b) : !(an && bn);
            const bool e_lt = both ? (a < b) : (an && !bn);
            const bool e_le = both ? (a <= b) : an;
            const bool e_gt = both ? (a > b) : (!an && bn);
            const bool e_ge = both ? (a >= b) : bn;
            if((A == B) != e_eq) bad(name, "==", bits_of<T>(a), bits_of<T>(b), A == B, e_eq);
            if((A != B) != e_ne) bad(name, "!=", bits_of<T>(a), bits_of<T>(b), A != B, e_ne);
            if((A < B) != e_lt) bad(name, "<", bits_of<T>(a), bits_of<T>(b), A < B, e_lt);
            if((A <= B) != e_le) bad(name, "<=", bits_of<T>(a), bits_of<T>(b), A <= B, e_le);
            if((A > B) != e_gt) bad(name, ">", bits_of<T>(a), bits_of<T>(b), A > B, e_gt);
            if((A >= B) != e_ge) bad(name, ">=", bits_of<T>(a), bits_of<T>(b), A >= B, e_ge);
#if SBEPP_HAS_THREE_WAY_COMPARISON
            g_threeway++;
            if(((A <=> B) < 0) != e_lt || ((A <=> B) > 0) != e_gt || ((A <=> B) == 0) != (e_le && e_ge))
                bad(name, "<=>", bits_of<T>(a), bits_of<T>(b), 0, 1);
#endif
            if(g_samples < 6 && (g_pairs % 2003) == 7)
            {
                g_samples++;
                std::printf("SAMPLE type=%s a=%016llx b=%016llx a_null=%d b_null=%d ==:%d <:%d <=:%d\n", name, bits_of<T>(a),
                            bits_of<T>(b), int(an), int(bn), int(A == B), int(A < B), int(A <= B));
            }
        }
    }
}
'''


def make_driver(cases):
    body = [DRIVER_HEAD, "int main()\n{\n"]
    for c in cases:
        t = CPP[c["prim"]]
        if c["opt"]:
            body.append('    check_optional<%s, %s>("%s", 0x%xULL, 0x%xULL, 0x%xULL);\n' % (
                c["cpp"], t, c["name"], c["min"], c["max"], c["null"]))
        else:
            body.append('    check_required<%s, %s>("%s", 0x%xULL, 0x%xULL);\n' % (c["cpp"], t, c["name"], c["min"], c["max"]))
    # primitive-typed fields map onto the built-in wrappers
    for p in PRIMS:
        body.append('    static_assert(std::is_same<decltype(std::declval<c16::messages::m<char>>().fr_%s()), sbepp::%s_t>::value, "fr_%s");\n' % (p, p, p))
        body.append('    static_assert(std::is_same<decltype(std::declval<c16::messages::m<char>>().fo_%s()), sbepp::%s_opt_t>::value, "fo_%s");\n' % (p, p, p))
    body.append('    std::printf("TOTAL types=%d pairs=%llu predicates=%llu statics=%llu threeway=%llu mismatches=%llu\\n", '
                + str(len(cases)) + ', g_pairs, g_preds, g_statics, g_threeway, g_mismatch);\n    return 0;\n}\n')
    return "".join(body)


def configs(tier):
    if tier == "quick":
        return [build.Cfg("g++", "17", "ubsan"), build.Cfg("clang++", "20", "ubsan"), build.Cfg("g++", "20", "plain"),
                build.Cfg("clang++", "11", "plain")]
    cfgs = [build.Cfg(cxx, std, "ubsan") for cxx, std in build.all_compiler_std()]
    cfgs += [build.Cfg("g++", "20", "plain"), build.Cfg("clang++", "23", "plain"),
             build.Cfg("g++", "20", "plain", defs=("SBEPP_HAS_THREE_WAY_COMPARISON=0",))]
    return cfgs


def main():
    rep = Report("C16", "exploration")
    xml, cases = build_cases()
    gen = build.gen_headers(xml, "rel")
    if gen["rc"] != 0:
        raise C.HarnessError("sbeppc rejected the C16 schema: " + gen["out"][-2000:])
    src = make_driver(cases)
    rep.rule("11 primitive types x {built-in required/optional wrapper, schema type without attributes, 2-3 flavours "
             "with explicit min/max(/null) incl. type extremes, INT64_MIN, UINT64_MAX, +-INF, NaN, -0.0, decimal float "
             "literals, one partially explicit type} = %d types; per type all ordered pairs of a boundary set (thorough: plus 24 "
             "seeded pseudo-random bit patterns per type) {min, max, "
             "null, 0, +-1, lowest, highest, min+-1, max+-1, NaN, -NaN, +-inf, -0.0, denorm, smallest normal}: ==, !=, <, "
             "<=, >, >= (and <=> under C++20/23), value_or, has_value, bool, in_range, default/nullopt construction, "
             "static min/max/null bit patterns. distinct_nontrivial = distinct (type, configuration-independent) cases "
             "that involve a null or NaN or an explicit attribute." % len(cases))
    cfgs = configs(rep.tier)

    def one(cfg):
        if rep.tier != "quick":
            cfg = build.Cfg(cfg.cxx, cfg.std, cfg.mode, cfg.defs + ("C16_EXTRA=24", "C16_SEED=%dULL" % (rep.seed & 0xFFFFFFFF)), cfg.extra)
        ok, exe, out = build.compile_driver(src, cfg, inc_dirs=(gen["dir"],), dep_key=C.sha(xml), name="c16")
        if not ok:
            return cfg, None, out
        rc, o, _, to = C.run([exe], timeout=1200, env=build.drv_env())
        return cfg, (rc, to), o.decode(errors="replace")

    for cfg, st, out in C.pmap(one, cfgs):
        if st is None:
            errs = [l for l in out.splitlines() if "error" in l]
            first = errs[0] if errs else out[:300]
            site = "generated-type"
            m = re.search(r"(narrowing conversion|partial_ordering|strong_ordering|no match for|invalid operands)", out)
            if m:
                site = m.group(1).replace(" ", "-")
            rep.violation("compile-error", site, "%s: optional/required types do not compile: %s" % (cfg, first),
                          {"config": str(cfg), "schema_xml": xml, "compiler_output": out[:6000]})
            continue
        rc, to = st
        if to:
            rep.inconc("driver timeout under %s" % cfg)
            continue
        for mm in re.finditer(r"^MISMATCH type=(\S+) what=(\S+) (.*)$", out, re.M):
            tname = mm.group(1)
            prim = tname.split("_", 1)[1].replace("_t", "").replace("_opt", "") if "_" in tname else tname
            kind = "builtin" if tname.startswith("builtin:") else "schema"
            fam = "fp" if ("float" in tname or "double" in tname) else "int"
            rep.violation("rule-violated", "%s/%s/%s" % (kind, fam, mm.group(2)), "%s: %s" % (cfg, mm.group(0)),
                          {"config": str(cfg), "schema_xml": xml, "case": mm.group(0)})
        for msg, f, line in build.ubsan_reports(out):
            rep.violation("ubsan:" + msg, f, "%s: %s" % (cfg, line), {"config": str(cfg), "report": line})
        m = re.search(r"TOTAL types=(\d+) pairs=(\d+) predicates=(\d+) statics=(\d+) threeway=(\d+) mismatches=(\d+)", out)
        if m is None:
            rep.violation("abort", "c16_driver", "%s: driver died rc=%s: %s" % (cfg, rc, out[-800:]),
                          {"config": str(cfg), "output": out[-4000:]})
            continue
        if int(m.group(1)) != len(cases):
            rep.inconc("%s: driver ran %s types of %d" % (cfg, m.group(1), len(cases)))
        if cfg.std in ("20", "23") and "SBEPP_HAS_THREE_WAY_COMPARISON=0" not in cfg.defs and int(m.group(5)) == 0:
            rep.inconc("%s: operator<=> leg did not run" % cfg)
        rep.evaluation(int(m.group(2)) + int(m.group(3)) + int(m.group(4)))
        rep.count("pairs", int(m.group(2)))
        rep.count("predicates", int(m.group(3)))
        rep.count("static_values", int(m.group(4)))
        rep.count("threeway_pairs", int(m.group(5)))
        for sm in re.finditer(r"^SAMPLE (.*)$", out, re.M):
            rep.sample({"config": str(cfg), "pair": sm.group(1)})
    for c in cases:
        if c["opt"] or not c["name"].startswith(("builtin", "r_")):
            rep.nontrivial(c["name"])
    rep.cov["types"] = len(cases)
    rep.cov["configs"] = [str(c) for c in cfgs]
    rep.assumptions += ["'is null' is decided NaN-aware: a NaN value is null iff the type's null value is NaN",
                        "non-null NaN values compare as IEEE-754 prescribes (underlying comparison)"]
    return rep.finish()
