"""C13 -- <data> views behave like a vector bounded by their buffer.

Monitor: rt/c13_driver.cpp drives sbepp::detail::dynamic_array_ref and a
std::vector through the same operation sequences (exhaustive DFS from every
small state, then seeded random walks) and compares, after every transition,
the length prefix (decoded by hand), the payload, the returned iterator,
canaries and the untouched tail.  Built with ASan+UBSan and sbepp's assertion
handler: an operation that is valid for a vector and fits the buffer must not
assert.  Python re-derives the number of DFS transitions from the operation
grammar and refuses a run that observed fewer.
"""
import functools
import os
import re

from .. import build, common as C
from ..findings import Report

LEN_NAMES = ["uint8", "uint16", "uint32", "uint64"]
N_INPUTS = 7  # sequences of length 0..2 over two letters
INPUT_LENS = [0, 1, 1, 2, 2, 2, 2]


def result_sizes(n):
    """Sizes after each operation instance the driver enumerates for a vector of size n (cap never binds)."""
    out = []
    for _ in range(2):  # letters
        out.append(n + 1)                      # push_back
        for _pos in range(n + 1):
            out.append(n + 1)                  # insert(pos,v)
            out += [n, n + 1, n + 2]           # insert(pos,cnt,v)
        for cnt in range(n + 3):
            out += [cnt, cnt]                  # resize(n,v), assign(n,v)
    if n:
        out.append(n - 1)                      # pop_back
    for _pos in range(n + 1):
        for L in INPUT_LENS:
            out += [n + L] * 3                 # insert fwd/input/ilist
    out += [n - 1] * n                         # erase(pos)
    for f in range(n + 1):
        for l in range(f, n + 1):
            out.append(n - (l - f))            # erase(first,last)
    for cnt in range(n + 3):
        out += [cnt, cnt]                      # resize(n), resize(n,default_init)
    for L in INPUT_LENS:
        out += [L] * 5                         # assign x5
    out.append(0)                              # clear
    for _b in range(n):                        # the value argument aliases element b of the view itself
        out.append(n + 1)                      # push_back(self[b])
        for _pos in range(n + 1):
            out.append(n + 1)                  # insert(pos,self[b])
            out += [n, n + 1, n + 2]           # insert(pos,cnt,self[b])
        out += list(range(n + 3))              # resize(cnt,self[b])
    return out


@functools.lru_cache(maxsize=None)
def transitions(n, depth):
    if depth == 0:
        return 0
    return sum(1 + transitions(m, depth - 1) for m in result_sizes(n))


def expected_dfs(depth):
    per_inst = sum((2 ** n) * transitions(n, depth) for n in range(4))
    return per_inst * 6  # 3 element types x 2 byte orders per length type


def configs(tier):
    H = ("SBEPP_ENABLE_ASSERTS_WITH_HANDLER",)
    if tier == "quick":
        # byte type of the view: char in the sanitizer build, std::byte (what the documentation uses) in the release build
        return [build.Cfg("g++", "17", "san", defs=H), build.Cfg("clang++", "20", "plain", defs=("SBEPP_DISABLE_ASSERTS", "C13_BYTE_KIND=2"))]
    cfgs = [build.Cfg(cxx, std, "san", defs=H) for cxx, std in build.all_compiler_std()]
    # (clang++17, not g++17: the (g++, 17, san) triple is one of the three deep-DFS configurations, a fourth one adds an hour)
    cfgs += [build.Cfg("clang++", "17", "san", defs=H + ("C13_BYTE_KIND=2",)), build.Cfg("clang++", "20", "san", defs=H + ("C13_BYTE_KIND=1",)),
             build.Cfg("g++", "20", "plain", defs=("SBEPP_DISABLE_ASSERTS", "C13_BYTE_KIND=2"))]
    cfgs += [build.Cfg("g++", "11", "plain", defs=("SBEPP_DISABLE_ASSERTS",)),
             build.Cfg("clang++", "23", "plain", defs=("SBEPP_DISABLE_ASSERTS",)),
             build.Cfg("g++", "20", "plain", defs=H + ("SBEPP_HAS_RANGES=0", "SBEPP_HAS_BITCAST=0")),
             build.Cfg("g++", "23", "san", defs=H + ("SBEPP_HAS_BITCAST=0",))]
    return cfgs


# ------------------------------------------------------------------ constant-evaluation leg (rt/c13_cx_driver.cpp)

CX_KINDS = ["push_back", "pop_back", "insert(pos,v)", "insert(pos,n,v)", "insert(pos,first,last)", "insert(pos,ilist)",
            "erase(pos)", "erase(first,last)", "resize(n)", "resize(n,v)", "assign(n,v)", "assign(first,last)",
            "assign(ilist)", "assign_string", "assign_range", "clear"]


def cx_ops(size):
    """Every operation instance valid for a vector of this size: (kind, a, b, v, input, resulting size)."""
    out = [(0, 0, 0, "x", "", size + 1)]
    if size:
        out.append((1, 0, 0, "-", "", size - 1))
    for a in range(size + 1):
        out.append((2, a, 0, "x", "", size + 1))
        for b in range(4):
            out.append((3, a, b, "y", "", size + b))
        for n in range(4):
            out.append((4, a, 0, "-", "pqr"[:n], size + n))
            out.append((5, a, 0, "-", "stu"[:n], size + n))
    for a in range(size):
        out.append((6, a, 0, "-", "", size - 1))
    for a in range(size + 1):
        for b in range(a, size + 1):
            out.append((7, a, b, "-", "", size - (b - a)))
    for a in range(size + 3):
        out.append((8, a, 0, "-", "", a))
        out.append((9, a, 0, "z", "", a))
    for a in range(4):
        out.append((10, a, 0, "w", "", a))
    for n in range(4):
        for k in (11, 12, 13, 14):
            out.append((k, 0, 0, "-", "ijk"[:n], n))
    out.append((15, 0, 0, "-", "", 0))
    return out


def cx_sequences(seed, n_depth2, n_depth3):
    """All depth-1 sequences from the 15 start states, plus seeded samples of depth 2 and 3."""
    seqs = []
    states = [""] + [a for a in "ab"] + [a + b for a in "ab" for b in "ab"] + [a + b + c for a in "ab" for b in "ab" for c in "ab"]
    for st in states:
        for o in cx_ops(len(st)):
            seqs.append((st, [o]))
    rng = C.rng_for(seed, "c13-cx")
    for depth, cnt in ((2, n_depth2), (3, n_depth3)):
        for _ in range(cnt):
            st = rng.choice(states)
            size, ops = len(st), []
            for _d in range(depth):
                o = rng.choice(cx_ops(size))
                ops.append(o)
                size = o[5]
            seqs.append((st, ops))
    return seqs


def cx_source(seqs):
    def ch(c):
        return "'%s'" % c

    def op(o):
        k, a, b, v, inp, _ = o
        return "{%d, %d, %d, %s, %d, {%s}}" % (k, a, b, ch(v), len(inp), ", ".join(ch(c) for c in inp) or "0")
    rows = []
    for st, ops in seqs:
        rows.append("    {%d, {%s}, %d, {%s}}," % (len(st), ", ".join(ch(c) for c in st) or "0", len(ops), ", ".join(op(o) for o in ops)))
    return C.read_text(os.path.join(C.RT, "c13_cx_driver.cpp")).replace("/*SEQS*/", "\n".join(rows))


def cx_configs(tier):
    lim_g = ("-fconstexpr-ops-limit=4000000000", "-fconstexpr-loop-limit=100000000")
    lim_c = ("-fconstexpr-steps=2000000000",)
    if tier == "quick":
        return [build.Cfg("g++", "20", "O0", extra=lim_g), build.Cfg("clang++", "20", "O0", extra=lim_c)]
    return [build.Cfg("g++", "20", "O0", extra=lim_g), build.Cfg("g++", "23", "plain", extra=lim_g),
            build.Cfg("clang++", "20", "O0", extra=lim_c),
            # clang 14 / c++2b: the build layer normally switches std::is_constant_evaluated() off (DESIGN 2.1), and with it
            # what sbepp needs for a constexpr assign_string(const char*); this leg is about constant evaluation, so the
            # feature stays on here (the branches it guards are valid at run time too) -- same correction as in C14
            build.Cfg("clang++", "23", "plain", defs=("SBEPP_HAS_IS_CONSTANT_EVALUATED=1",), extra=lim_c),
            build.Cfg("g++", "20", "O0", defs=("SBEPP_HAS_BITCAST=0",), extra=lim_g)]


def cx_leg(rep):
    quick = rep.tier == "quick"
    seqs = cx_sequences(rep.seed, 800 if quick else 6000, 300 if quick else 3000)
    src = cx_source(seqs)

    def one(cfg):
        ok, exe, out = build.compile_driver(src, cfg, name="c13cx", timeout=2400)
        if not ok:
            return cfg, None, out
        rc, o, _, to = C.run([exe], timeout=600, env=build.drv_env())
        return cfg, (rc, to), o.decode(errors="replace")

    for cfg, st, out in C.pmap(one, cx_configs(rep.tier)):
        tag = "%s/constexpr" % cfg
        if st is None:
            first = next((l for l in out.splitlines() if "error" in l), out[-300:])
            rep.violation("not-a-constant-expression" if "constant expression" in out or "constexpr" in first else "compile-error",
                          "dynamic_array_ref/constexpr", "%s: the constant-evaluation driver does not compile: %s" % (tag, first[:400]),
                          {"config": str(cfg), "output": out[-4000:]})
            continue
        rc, to = st
        if to:
            rep.inconc("constexpr driver timeout under " + tag)
            continue
        for mm in re.finditer(r"^MISMATCH inst=(\S+) seq=(\d+) op=\[(\S+) (.*)$", out, re.M):
            si = int(mm.group(2))
            rep.violation("model-mismatch", "dynamic_array_ref::%s/constant-evaluation" % mm.group(3), "%s: %s" % (tag, mm.group(0)[:900]),
                          {"config": str(cfg), "case": mm.group(0), "start_state": seqs[si][0],
                           "operations": [(CX_KINDS[o[0]],) + o[1:5] for o in seqs[si][1]], "driver": "rt/c13_cx_driver.cpp"})
        m = re.search(r"CXTOTAL sequences=(\d+) cells=(\d+) mismatches=(\d+)", out)
        if m is None:
            rep.violation("abort", "c13_cx_driver", "%s: driver died rc=%s: %s" % (tag, rc, out[-800:]), {"config": str(cfg)})
            continue
        if int(m.group(1)) != len(seqs) or int(m.group(2)) != 7 * len(seqs):
            rep.inconc("%s: %s cells observed, %d expected" % (tag, m.group(2), 7 * len(seqs)))
        rep.evaluation(int(m.group(2)))
        rep.count("constexpr_sequences", int(m.group(2)))
        for om in re.finditer(r"^CXOP (\S+) (\d+)$", out, re.M):
            if int(om.group(2)) > 0:
                rep.nontrivial("constexpr", om.group(1), str(cfg))
    rep.cov["constexpr_configs"] = [str(c) for c in cx_configs(rep.tier)]
    rep.cov["constexpr_sequences_per_instantiation"] = len(seqs)


def main():
    rep = Report("C13", "exploration")
    quick = rep.tier == "quick"
    depth = 2 if quick else 3
    random_ops = 10000 if quick else 400000
    src = C.read_text(os.path.join(C.RT, "c13_driver.cpp"))
    exp_dfs = expected_dfs(depth)
    rep.rule("24 instantiations (length uint8/16/32/64 x element char/uint8/int8 x little/big endian); exhaustive DFS "
             "over every operation/argument choice (push_back, pop_back, 5 insert overloads, 2 erase overloads, 3 resize "
             "overloads, 4 assign overloads, assign_string, assign_range, clear; positions 0..size, counts 0..2, inputs "
             "of length 0..2 over {a,b}) to depth %d (thorough: depth 3 under three configurations, depth 2 under the other ten) "
             "from each of the 15 states of size <= 3, then %d seeded random "
             "operations per instantiation up to size 200 (uint8: up to max_size 255). A transition is one operation "
             "compared with std::vector (prefix, payload, returned iterator, canaries, untouched tail, read API). "
             "distinct_nontrivial = distinct (operation kind, instantiation) pairs that executed at least once. "
             "Constant-evaluation leg (C++20/2b, both compilers): every depth-1 operation instance from the 15 start states plus "
             "seeded depth-2 and depth-3 sequences, for 7 (length type, byte order) instantiations over char, is evaluated in a "
             "forced constant expression, at run time, and on a std::vector; all three must agree (bytes incl. canaries, "
             "returned positions)."
             % (depth, random_ops))
    cfgs = configs(rep.tier)
    # the depth-3 DFS costs ~100x the depth-2 one; thorough runs it under three representative configurations
    # (checked ASan+UBSan, unchecked -O2 of each compiler) and depth 2 under the others
    deep = {str(c) for c in cfgs if (c.cxx, c.std, c.mode) in (("g++", "17", "san"), ("clang++", "23", "plain"), ("g++", "11", "plain"))}
    jobs = [(cfg, ln, depth if (quick or str(cfg) in deep) else 2) for cfg in cfgs for ln in range(4)]
    exp_by_depth = {d: expected_dfs(d) for d in {j[2] for j in jobs}}

    def one(job):
        cfg, ln, jdepth = job
        c = build.Cfg(cfg.cxx, cfg.std, cfg.mode,
                      cfg.defs + ("C13_DEPTH=%d" % jdepth, "C13_RANDOM_OPS=%d" % random_ops, "C13_LEN=%d" % ln), cfg.extra)
        ok, exe, out = build.compile_driver(src, c, name="c13")
        if not ok:
            return job, None, out
        rc, o, _, to = C.run([exe, str(rep.seed)], timeout=3000, env=build.drv_env())
        return job, (rc, to), o.decode(errors="replace")

    results = C.pmap(one, jobs)
    for (cfg, ln, jdepth), st, out in results:
        tag = "%s/len=%s" % (cfg, LEN_NAMES[ln])
        if st is None:
            raise C.HarnessError("C13 driver does not compile under %s:\n%s" % (tag, out[-3000:]))
        rc, to = st
        if to:
            rep.inconc("driver timeout under " + tag)
            continue
        for mm in re.finditer(r"^MISMATCH inst=(\S+) phase=(\S+) op=\[(\S+) (.*)$", out, re.M):
            klass = "spurious-assert" if "asserted=1" in mm.group(4) else "model-mismatch"
            rep.violation(klass, "dynamic_array_ref::" + mm.group(3), "%s: %s" % (tag, mm.group(0)),
                          {"config": str(cfg), "length_type": LEN_NAMES[ln], "case": mm.group(0),
                           "driver": "rt/c13_driver.cpp", "depth": depth, "random_ops": random_ops})
        for msg, f, line in build.ubsan_reports(out):
            rep.violation("ubsan:" + msg, f, "%s: %s" % (tag, line), {"config": str(cfg), "report": line})
        m = re.search(r"TOTAL transitions=(\d+) random_ops=(\d+) start_states=(\d+) reads=(\d+) mismatches=(\d+) asserts=(\d+)", out)
        if "AddressSanitizer" in out:
            first = re.search(r"ERROR: AddressSanitizer: (\S+)", out)
            rep.violation("asan:" + (first.group(1) if first else "?"), "dynamic_array_ref",
                          "%s: %s" % (tag, out[-1500:]), {"config": str(cfg), "output": out[-4000:]})
        elif m is None:
            rep.violation("abort", "c13_driver", "%s: driver died rc=%s: %s" % (tag, rc, out[-800:]),
                          {"config": str(cfg), "output": out[-4000:]})
        if m:
            tr, ro, mism = int(m.group(1)), int(m.group(2)), int(m.group(5))
            if mism == 0 and tr - ro != exp_by_depth[jdepth]:
                rep.inconc("%s: DFS observed %d transitions, grammar has %d" % (tag, tr - ro, exp_by_depth[jdepth]))
            rep.evaluation(tr)
            rep.count("transitions", tr)
            rep.count("random_ops", ro)
            rep.count("read_api_checks", int(m.group(4)))
            rep.count("asserts_seen", int(m.group(6)))
            for om in re.finditer(r"^OP (\S+) (\d+)$", out, re.M):
                if int(om.group(2)) > 0:
                    for e in range(6):
                        rep.nontrivial(om.group(1), ln, e)
            for sm in re.finditer(r"^SAMPLE (.*)$", out, re.M):
                rep.sample({"config": tag, "transition": sm.group(1)})
    cx_leg(rep)
    rep.cov["configs"] = [str(c) for c in cfgs]
    rep.cov["dfs_depth"] = depth
    rep.cov["dfs_transitions_per_length_type"] = exp_dfs
    rep.cov["states"] = 15 * 24
    rep.cov["exhaustive"] = False
    rep.assumptions += ["operations are generated only when valid for std::vector and when the result fits the buffer "
                        "the view was given (the documented general precondition)",
                        "new elements of resize(n, default_init) are unspecified and are not compared"]
    return rep.finish()
