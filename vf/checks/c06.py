"""C06 -- size_bytes_checked is safe and exact on untrusted buffers.

Fault enumeration.  For every message and top-level group of every schema a well-formed image is
(a) truncated at *every* length n = 0..full+2, (b) has every blockLength / numInGroup / length field
overwritten with {0, 1, fit-1, fit, fit+1, type max, random} at n in {full, full-1, full+1,
header only}, (c) randomly corrupted.  The n bytes sit at the end of a guard-page arena
(rt/vrt_arena.hpp): byte n is PROT_NONE, so the hardware says whether a byte at offset >= n was
read (fail-stop SIGSEGV trap).  Oracles: no fault; (valid, size) equal to an independent walk of
the buffer with wire geometry; logical work (sanitizer-coverage edge counter, no wall clock) below
a bound linear in n.  Unchecked and checked builds (an assertion instead of a return is a failure
to return).
"""
import re

from .. import build, codec, common as C, refmodel as R, schema as S
from ..findings import Report

DRIVER_HEAD = r'''
#include "vrt_assert.hpp"
#include "vrt_arena.hpp"
#include "vrt_codec.hpp"
#include <%(pkg)s/%(pkg)s.hpp>
#include <iostream>

static bool g_valid;
static unsigned long long g_size;
'''

DRIVER_MAIN = r'''
int main()
{
    vrt::arena_init();
    std::string ln;
    while(std::getline(std::cin, ln))
    {
        vrt::tokens t;
        t.t = vrt::split(ln);
        if(t.t.size() < 6)
            continue;
        t.next();
        const std::string id = t.next();
        const std::string kind = t.next();
        const int mi = static_cast<int>(t.u64());
        const int gi = static_cast<int>(t.u64());
        const unsigned long long cap = t.u64();
        std::vector<unsigned char> img = t.bytes();
        const std::size_t n = img.size();
        const unsigned char* p = vrt::arena_place(img.data(), n, true);
        g_valid = false;
        g_size = 0;
        volatile int rc = 0;
        bool as = VRT_TRAPPED(rc = VRT_GUARDED(0, cap, dispatch(kind[0], mi, gi, p, n)));
        vrt::arena_state& a = vrt::ar();
        a.armed = 0;
        a.step_armed = 0;
        std::printf("R %s %d %d %llu %ld %ld %llu %d %s\n", id.c_str(), int(rc), int(g_valid), g_size, long(a.faults),
                    long(a.first_fault_off), (unsigned long long)a.steps, int(as), as ? vrt::astate().func : "-");
        std::fflush(stdout);
    }
    return 0;
}
'''


def make_driver(sc):
    m = R.Model(sc)
    code = [DRIVER_HEAD % dict(pkg=sc.package)]
    cases = []
    for mi, msg in enumerate(sc.messages):
        view = "::%s::messages::%s<const char>" % (sc.package, msg.name)
        code.append("static void run_m%d(const unsigned char* p, std::size_t n)\n{\n    %s m{reinterpret_cast<const char*>(p), n};\n"
                    "    const auto r = sbepp::size_bytes_checked(m, n);\n    g_valid = r.valid;\n    g_size = r.size;\n}\n" % (mi, view))
        cases.append("        if(kind == 'm' && mi == %d) { run_m%d(p, n); return; }" % (mi, mi))
        for gi, g in enumerate(msg.groups):
            code.append("static void run_g%d_%d(const unsigned char* p, std::size_t n)\n{\n"
                        "    using G = decltype(std::declval<%s>().%s());\n    G g{reinterpret_cast<const char*>(p), n};\n"
                        "    const auto r = sbepp::size_bytes_checked(g, n);\n    g_valid = r.valid;\n    g_size = r.size;\n}\n"
                        % (mi, gi, view, g.name))
            cases.append("        if(kind == 'g' && mi == %d && gi == %d) { run_g%d_%d(p, n); return; }" % (mi, gi, mi, gi))
    code.append("static void dispatch(char kind, int mi, int gi, const unsigned char* p, std::size_t n)\n{\n%s\n}\n" % "\n".join(cases))
    code.append(DRIVER_MAIN)
    return "".join(code)


def length_fields(m, msg, vals, image, owner):
    """(offset, size, kind) of every blockLength / numInGroup / data length occurrence in the image."""
    out = []
    seen = set()
    hdr = m.header()
    bo, bp = m.header_member(hdr, "blockLength")
    out.append((bo, R.PRIM_SIZE[bp], "message.blockLength"))
    for off in sorted(owner):
        o = owner[off]
        if o.endswith("#dim.blockLength") or o.endswith("#dim.numInGroup") or o.endswith("#len"):
            if off and owner.get(off - 1) == o:
                continue
            size = 1
            while owner.get(off + size) == o:
                size += 1
            out.append((off, size, "group." + o.rsplit(".", 1)[1] if "#dim" in o else "data.length"))
    return out


def main():
    rep = Report("C06", "fault_enumeration")
    quick = rep.tier == "quick"
    schemas = codec.all_schemas(rep.tier, rep.seed, 2, 60)
    if quick:
        schemas = [s for s in schemas if not s.name.endswith("_be") or s.name == "layout_be"]
    cfgs = [("unchecked", build.Cfg("g++", "17", "plain", defs=("SBEPP_DISABLE_ASSERTS", "VRT_STEP_COUNTER"),
                                    extra=("-O1", "-fsanitize-coverage=trace-pc"))),
            ("checked", build.Cfg("g++", "14", "plain", defs=("SBEPP_ENABLE_ASSERTS_WITH_HANDLER", "VRT_STEP_COUNTER"),
                                  extra=("-O1", "-fsanitize-coverage=trace-pc")))]
    # unoptimised production build: nothing the visitor merely evaluates and discards is optimised away, so a read
    # of a not yet validated byte really happens (at -O1 the dead loads of ignored fields vanish)
    cfgs.append(("unchecked", build.Cfg("g++", "11", "O0", defs=("SBEPP_DISABLE_ASSERTS", "VRT_STEP_COUNTER"),
                                        extra=("-fsanitize-coverage=trace-pc",))))
    if not quick:
        cfgs.append(("unchecked", build.Cfg("g++", "23", "plain", defs=("SBEPP_DISABLE_ASSERTS", "VRT_STEP_COUNTER"),
                                            extra=("-O1", "-fsanitize-coverage=trace-pc"))))
    ncorrupt = 30 if quick else 3000
    rep.rule("per message and per top-level group of the covering corpus and seeded random schemas: a well-formed image "
             "with every group non-empty; every truncation length 0..full+2; every blockLength/numInGroup/length "
             "occurrence overwritten with {0,1,fit-1,fit,fit+1,type max,random} x n in {full, full-1, full+1, header "
             "only}; %d random byte corruptions. An evaluation is one size_bytes_checked call on an n-byte buffer that "
             "ends at a PROT_NONE page. distinct_nontrivial = distinct (schema, view, buffer) whose model verdict is "
             "invalid, or valid with at least one group entry or data byte." % ncorrupt)
    preps = []
    for sc in schemas:
        p = codec.prepare(sc)
        if p.ok:
            preps.append(p)
    jobs = []
    for p in preps:
        src = make_driver(p.schema)
        for cname, cfg in cfgs:
            jobs.append((p, src, cname, cfg))

    def build_one(job):
        p, src, cname, cfg = job
        ok, exe, out = build.compile_driver(src, cfg, inc_dirs=(p.gen["dir"],), dep_key=p.dep, name="c06-" + p.schema.package)
        return job, ok, exe, out

    built = []
    for (p, src, cname, cfg), ok, exe, out in C.pmap(build_one, jobs):
        if not ok:
            rep.inconc("C06 driver for %s does not compile under %s: %s" % (p.schema.name, cfg, out[-600:]))
            continue
        built.append((p, cname, cfg, exe))

    def cases_for(p):
        m = p.model
        out = []
        for mi, msg in enumerate(p.schema.messages):
            rng = C.rng_for(rep.seed, "C06", p.schema.name, msg.name)
            vals = R.gen_values(m, msg, rng, force=True)
            image, owner = R.encode_message(m, msg, vals)
            full = len(image)
            members = sum(len(lv.fields) + len(lv.groups) + len(lv.data) for _, lv in msg.walk_levels())
            views = [("m", mi, 0, image, lambda b, n, msg=msg: R.walk_message(m, msg, b, n), members)]
            pos = []
            from ..codec_checks import group_positions
            group_positions(m, msg, vals, m.enc_size(m.header()), m.level_layout(msg)[2], "", pos)
            for gi, g in enumerate(msg.groups):
                start = dict(pos)[g.name]
                gsize = R.group_size(m, g, vals.groups[g.name])
                views.append(("g", mi, gi, image[start:start + gsize], lambda b, n, g=g: R.walk_group(m, g, b, n), members))
            for kind, mi_, gi_, img, walk, mem in views:
                fulln = len(img)
                bufs = []
                # (a) every truncation point
                tail = bytes(rng.getrandbits(8) for _ in range(2))
                for n in range(0, fulln + 3):
                    bufs.append(("truncate", (img + tail)[:n]))
                # (b) every length-like field overwritten
                if kind == "m":
                    lfs = length_fields(m, msg, vals, img, owner)
                else:
                    start = dict(pos)[msg.groups[gi_].name]
                    lfs = [(o - start, s, k) for o, s, k in length_fields(m, msg, vals, image, owner)
                           if o >= start and o < start + fulln]
                for off, size, k in lfs:
                    orig = R.unpack_bits(img[off:off + size], m.big)
                    mx = 2 ** (8 * size) - 1
                    for v in sorted({0, 1, max(orig - 1, 0), orig, min(orig + 1, mx), mx, rng.randrange(mx + 1), min(mx, fulln),
                                     min(mx, 2 ** 31), min(mx, 65536)}):
                        b = bytearray(img)
                        b[off:off + size] = R.pack_bits(v, size, m.big)
                        for n in sorted({fulln, max(fulln - 1, 0), fulln + 1, min(fulln, off + size)}):
                            bufs.append(("overwrite:" + k, bytes((bytes(b) + tail)[:n])))
                # (c) random corruption
                for _ in range(ncorrupt):
                    b = bytearray(img)
                    for _ in range(rng.choice([1, 1, 2, 4])):
                        if b:
                            b[rng.randrange(len(b))] = rng.getrandbits(8)
                    n = rng.choice([fulln, fulln, rng.randrange(fulln + 1)])
                    bufs.append(("corrupt", bytes(b[:n])))
                for what, b in bufs:
                    n = len(b)
                    w = walk(b, n)
                    cap = max(1000000, 4000 * (n + mem + 16))
                    cid = "c%d" % len(out)
                    out.append(dict(id=cid, kind=kind, mi=mi_, gi=gi_, buf=b, n=n, walk=w, what=what, cap=cap, msg=msg,
                                    cmd="SZC %s %s %x %x %x %s" % (cid, kind, mi_, gi_, cap, b.hex() or "-")))
        return out

    all_cases = {p.schema.name: cases_for(p) for p in preps}

    def run_one(item):
        p, cname, cfg, exe = item
        cases = all_cases[p.schema.name]
        res = {}
        pending = list(cases)
        deaths = []
        guard = 0
        while pending and guard < 20:
            guard += 1
            inp = "\n".join(c["cmd"] for c in pending) + "\n"
            rc, o, _, to = C.run([exe], input=inp.encode(), timeout=600)
            txt = o.decode(errors="replace")
            for mm in re.finditer(r"^R (\S+) (-?\d+) (\d) (\d+) (-?\d+) (-?\d+) (\d+) (\d) (\S+)$", txt, re.M):
                res[mm.group(1)] = mm.groups()
            if rc == 0 and not to:
                break
            done = [c for c in pending if c["id"] in res]
            nxt = pending[len(done):]
            if nxt:
                deaths.append((nxt[0], rc, txt[-400:]))
            pending = nxt[1:]
        return item, res, deaths

    for (p, cname, cfg, exe), res, deaths in C.pmap(run_one, built):
        m = p.model
        for c, rc, tail in deaths:
            rep.violation("crash", "size_bytes_checked/%s" % c["what"].split(":")[0],
                          "%s/%s: driver died rc=%s on %s n=%d: %s" % (p.schema.name, cfg, rc, c["what"], c["n"], tail),
                          {"schema": p.schema.name, "schema_xml": p.xml, "config": str(cfg), "command": c["cmd"]})
        max_ratio = 0.0
        for c in all_cases[p.schema.name]:
            r = res.get(c["id"])
            if r is None:
                continue
            rep.evaluation()
            _, rc, valid, size, faults, foff, steps, asserted, afunc = r
            rc, valid, size, faults, foff, steps, asserted = int(rc), int(valid), int(size), int(faults), int(foff), int(steps), int(asserted)
            w = c["walk"]
            n = c["n"]
            if (not w.valid) or w.entries or any(True for _ in w.prefixes):
                rep.nontrivial(p.schema.name, c["kind"], c["mi"], c["gi"], c["buf"].hex())
            rep.count("truncation_points" if c["what"] == "truncate" else ("overwrites" if c["what"].startswith("overwrite") else "corruptions"))
            replay = {"schema": p.schema.name, "schema_xml": p.xml, "config": str(cfg), "view": c["kind"], "message": c["msg"].name,
                      "group_index": c["gi"], "n": n, "buffer_hex": c["buf"].hex(), "what": c["what"],
                      "model": {"valid": w.valid, "size": w.size, "reason": w.reason},
                      "observed": {"rc": rc, "valid": valid, "size": size, "faults": faults, "fault_offset": foff, "steps": steps,
                                   "asserted": asserted}}
            if steps and cname == "unchecked":
                max_ratio = max(max_ratio, steps / float(n + 16))
            if rc == 2 or faults:
                rep.count("faults")
                # where did the read beyond n happen?
                site = "other"
                for po, ps in w.prefixes:
                    if po <= foff < po + ps or (po + ps > n and foff >= n and foff < po + ps):
                        site = "data-length-prefix"
                for start, wbl, cbl in w.short_blocks:
                    if start + wbl <= foff < start + cbl:
                        site = "compiled-field-beyond-wire-block"
                if site == "other" and not w.valid and w.reason.startswith("data length prefix"):
                    site = "data-length-prefix"
                rep.violation("overread", site, "%s/%s %s view of %s, %s, n=%d: read at offset %d (>= n) while the model says %s (%s)" % (
                    p.schema.name, cfg, c["kind"], c["msg"].name, c["what"], n, foff,
                    "valid size=%d" % w.size if w.valid else "invalid", w.reason or "fits"), replay)
                continue
            if rc == 3:
                site = "zero-length-entries" if w.zero_len_entries > 1000 else "other"
                rep.violation("unbounded-work", site, "%s/%s %s view of %s, %s, n=%d: more than %d logical steps (zero-length "
                              "entries announced: %d)" % (p.schema.name, cfg, c["kind"], c["msg"].name, c["what"], n, c["cap"],
                                                          w.zero_len_entries), replay)
                continue
            if w.reason.startswith("model gave up"):
                continue
            if asserted:
                # map the assertion onto its root cause (which member was touched before it was validated)
                replay["asserted_in"] = afunc
                if w.short_blocks and afunc in ("get_value", "get_last_value", "get_static_field_view", "get_last_static_field_view", "data"):
                    afunc = "compiled-field-beyond-wire-block"
                elif not w.valid and w.reason.startswith("data length prefix"):
                    afunc = "data-length-prefix"
                elif afunc == "operator()" and not w.valid and w.reason.startswith("group dimension"):
                    afunc = "group-dimension"
                elif afunc.endswith("_entry") and not w.valid:
                    afunc = "empty-entry-constructed-before-validation"
                elif w.short_blocks and afunc in ("get_value", "get_last_value", "get_static_field_view", "get_last_static_field_view", "data"):
                    afunc = "compiled-field-beyond-wire-block"
                rep.violation("assert-instead-of-return", afunc, "%s/%s %s view of %s, %s, n=%d: assertion in %s instead of a result"
                              % (p.schema.name, cfg, c["kind"], c["msg"].name, c["what"], n, afunc), replay)
                continue
            if w.reason.startswith("model gave up"):
                continue
            if bool(valid) != w.valid or (w.valid and size != w.size):
                rep.violation("verdict-mismatch", "valid=%d-expected=%d" % (valid, int(w.valid)) if bool(valid) != w.valid else "size",
                              "%s/%s %s view of %s, %s, n=%d: returned valid=%d size=%d, model valid=%s size=%d (%s)" % (
                                  p.schema.name, cfg, c["kind"], c["msg"].name, c["what"], n, valid, size, w.valid, w.size, w.reason), replay)
            elif len(rep.cov["samples"]) < 5 and not w.valid and c["what"].startswith("overwrite") and n > 12:
                rep.sample({"schema": p.schema.name, "config": str(cfg), "view": c["kind"], "message": c["msg"].name, "what": c["what"],
                            "n": n, "buffer": c["buf"].hex()[:120], "returned": {"valid": valid, "size": size},
                            "model": {"valid": w.valid, "reason": w.reason}, "steps": steps})
        rep.cov["max_steps_per_byte"] = max(rep.cov.get("max_steps_per_byte", 0), round(max_ratio, 1))
    rep.cov["configs"] = [str(cfg) for _, cfg in cfgs]
    rep.cov["schemas"] = [p.schema.name for p in preps]
    rep.cov["exhaustive"] = True
    rep.assumptions += ["far out-of-bounds reads are observable only inside the 8 GiB PROT_NONE reservation behind the buffer",
                        "work is measured in instrumented control-flow edges (g++ -fsanitize-coverage=trace-pc), cap = max(1e6, "
                        "4000*(n+members+16)); an optimiser may remove side-effect-free loops, the abstract machine may not"]
    return rep.finish()
