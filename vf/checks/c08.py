"""C08 -- sbeppc rejects exactly the schemas that break its layout rules.

Workload: from every valid schema (covering corpus + seeded random) all applicable *single*
rule-breaking edits (vf/mutate.py: offsets below the minimum at every level and in public/inline
composites, blockLength below content, values one beyond the primitive's range or non-numeric,
choice index = width, unknown / cyclic / wrong-kind references, multi-byte arrays, malformed level
headers, invalid and keyword names for every entity kind, duplicate names, member order) and the
matching boundary-valid edits (offset = minimum, blockLength = content, extremes, index = width-1,
keyword-like names), plus the unedited schemas.  Observed: exit status of the ASan+UBSan+assert
build, first diagnostic line, output directory.  Accept <=> exit 0; a reject must carry
file:line:col and leave no file.
"""
import os
import re
import shutil
import tempfile

from .. import build, common as C, mutate as M, schema as S, split as SP
from ..findings import Report


def cross_file_fixtures(sc):
    """Names must be unique across *all* files of a schema: the same type (also with different letter case) or message
    (name, id) defined in the main file and in an included one, in either order, or in two included files, is a
    duplicate; a fresh name in an included file is fine."""
    xml = sc.to_xml()
    tn = next((t.name for t in sc.types if t.kind == "type" and not t.name[0].isdigit()), None)
    if tn is None or not sc.messages or "    <types>\n" not in xml:
        return []
    pro = SP.PROLOG
    xi = xml.replace("<sbe:messageSchema", "<sbe:messageSchema" + SP.XI, 1)
    inc = '    <xi:include href="%s"/>\n'
    after = lambda *names: xi.replace("    </types>\n", "    </types>\n" + "".join(inc % n for n in names), 1)
    before = lambda *names: xi.replace("    <types>\n", "".join(inc % n for n in names) + "    <types>\n", 1)
    at_end = lambda *names: xi.replace("</sbe:messageSchema>", "".join(inc % n for n in names) + "</sbe:messageSchema>", 1)
    ty = lambda n, p="uint64": pro + '<types>\n    <type name="%s" primitiveType="%s"/>\n</types>\n' % (n, p)
    m0 = sc.messages[0]
    free_id = max(int(m.id) for m in sc.messages) + 1
    msg = lambda n, i: pro + '<sbe:message name="%s" id="%s">\n    <field name="xf_" id="1" type="uint8"/>\n</sbe:message>\n' % (n, i)
    swap = tn.swapcase() if tn.swapcase() != tn else tn
    out = []

    def add(rule, where, reject, main, files):
        out.append((sc, M.Edit(rule, where, reject, None), (main, files)))
    add("duplicate-name", "type-in-main-and-included-file/include-after-types", True, after("dup_inc.xml"), {"dup_inc.xml": ty(tn)})
    add("duplicate-name", "type-in-main-and-included-file/include-before-types", True, before("dup_inc.xml"), {"dup_inc.xml": ty(tn)})
    add("duplicate-name", "type-in-main-and-included-file/same-definition", True, after("dup_inc.xml"),
        {"dup_inc.xml": pro + "<types>\n" + next(t for t in sc.types if t.name == tn).xml("    ") + "</types>\n"})
    add("duplicate-name", "type-in-main-and-included-file/case-differs", True, after("dup_inc.xml"), {"dup_inc.xml": ty(swap)})
    add("duplicate-name", "type-in-two-included-files", True, after("a_inc.xml", "b_inc.xml"),
        {"a_inc.xml": ty("XfDup_"), "b_inc.xml": ty("XfDup_", "uint8")})
    add("duplicate-name", "type-in-two-included-files/around-types", True, at_end("b_inc.xml").replace(
        "    <types>\n", inc % "a_inc.xml" + "    <types>\n", 1), {"a_inc.xml": ty("XfDup_"), "b_inc.xml": ty("xfdup_", "uint8")})
    add("duplicate-name", "type-in-nested-included-file", True, after("mid_inc.xml"),
        {"mid_inc.xml": pro + '<xi:include%s href="dup_inc.xml"/>\n' % SP.XI, "dup_inc.xml": ty(tn)})
    add("valid-name", "fresh-type-in-included-file", False, after("a_inc.xml"), {"a_inc.xml": ty("XfFresh_")})
    add("valid-name", "fresh-types-in-two-included-files", False, before("a_inc.xml", "b_inc.xml"),
        {"a_inc.xml": ty("XfFreshA_"), "b_inc.xml": ty("XfFreshB_")})
    add("duplicate-name", "message-name-in-main-and-included-file", True, at_end("m_inc.xml"), {"m_inc.xml": msg(m0.name, free_id)})
    add("duplicate-name", "message-name-in-included-file-first", True, after("m_inc.xml"), {"m_inc.xml": msg(m0.name, free_id)})
    add("duplicate-name", "message-id-in-main-and-included-file", True, at_end("m_inc.xml"), {"m_inc.xml": msg("XfMsg_", m0.id)})
    add("duplicate-name", "message-in-two-included-files", True, at_end("m_inc.xml", "n_inc.xml"),
        {"m_inc.xml": msg("XfMsg_", free_id), "n_inc.xml": msg("XfMsg_", free_id + 1)})
    add("valid-name", "fresh-message-in-included-file", False, at_end("m_inc.xml"), {"m_inc.xml": msg("XfMsg_", free_id)})
    return out


def judge_multi(rep, sc, rule, where, expect_reject, xml, rc, out, gen, multi):
    """The multi-file form of a schema text (parts moved into XIncluded files, vf/split.py) must get the verdict of the
    single-file form; a rejection must name the file, line and column the offending line now lives at; an accepted
    schema must yield the same set of generated files."""
    mode, sp, mrc, mto, mout, mgen = multi
    rep.evaluation()
    rep.count("multi_file_runs")
    rep.nontrivial("multi", mode, rule, expect_reject)
    site = "multi-file/%s/%s" % (rule, where.split("@")[0])
    replay = {"schema": sc.name, "rule": rule, "where": where, "mode": mode, "single_file_xml": xml, "main_xml": sp.main,
              "included_files": sp.files, "exit": mrc, "output": mout[-1500:], "single_file_exit": rc, "single_file_output": out[-800:]}
    if mto or mrc not in (0, 1):
        rep.violation("crash-or-hang", site, "%s [%s at %s, %s]: sbeppc did not terminate normally (rc=%s): %s" % (
            sc.name, rule, where, mode, mrc, mout[-300:]), replay)
        return
    if "runtime error:" in mout or "AddressSanitizer" in mout:
        rep.violation("sanitizer-report", site, "%s [%s at %s, %s]: %s" % (sc.name, rule, where, mode, mout[-400:]), replay)
        return
    if (mrc == 0) != (rc == 0):
        rep.violation("accept-mismatch" if mrc == 0 else "reject-mismatch", site,
                      "%s [%s at %s]: the single-file schema was %s but the same text spread over included files (%s) was %s: %s" % (
                          sc.name, rule, where, "accepted" if rc == 0 else "rejected", mode,
                          "accepted" if mrc == 0 else "rejected", mout.strip().splitlines()[-1][:200] if mout.strip() else ""), replay)
        return
    if mrc == 0:
        if set(mgen) != set(gen):
            rep.violation("multi-file-output-differs", "file-set/" + mode,
                          "%s [%s]: generated files differ between the single-file and the %s form: only-single=%s only-multi=%s" % (
                              sc.name, rule, mode, sorted(set(gen) - set(mgen))[:5], sorted(set(mgen) - set(gen))[:5]), replay)
        rep.count("multi_file_outputs_compared", len(gen))
        rep.count("multi_file_outputs_byte_identical", sum(1 for k in gen if mgen.get(k) == gen[k]))
        return
    if mgen:
        rep.violation("leftover-files", site, "%s [%s at %s, %s]: rejected but %d file(s) left behind" % (
            sc.name, rule, where, mode, len(mgen)), replay)
    l1, l2 = SP.first_location(out), SP.first_location(mout)
    if SP.first_message(out) != SP.first_message(mout) or l1 is None:
        rep.count("multi_file_diagnostic_text_differs")     # another first error (or an unlocated one): nothing to compare
        return
    # the location must name one of the files of this schema and point at the start of an element name in it
    texts = dict(sp.files)
    texts["schema.xml"] = sp.main
    ok = False
    if l2 is not None and os.path.basename(l2[0]) in texts:
        ls = texts[os.path.basename(l2[0])].split("\n")
        if 1 <= l2[1] <= len(ls) and 2 <= l2[2] <= len(ls[l2[1] - 1]):
            ln = ls[l2[1] - 1]
            ok = ln[l2[2] - 2] == "<" and (ln[l2[2] - 1].isalpha() or ln[l2[2] - 1] in "?_")
    rep.count("multi_file_locations_checked")
    if not ok:
        rep.violation("wrong-location", "multi-file/" + mode,
                      "%s [%s at %s]: the diagnostic of the %s form names %s, which is not the start of an element in one of the "
                      "schema's files %s: %s" % (sc.name, rule, where, mode, "%s:%d:%d" % l2 if l2 else "(no location)",
                                                 sorted(texts), mout.strip().splitlines()[-1][:200]), replay)
        return
    # where the single-file diagnostic can be mapped, the multi-file one normally names the same line; it may name
    # another one when several places earn the same message (which one sbeppc meets first depends on its hash tables),
    # so a difference is counted, not judged
    exp = sp.locate(l1[1]) if l1[0].endswith("schema.xml") else None
    if exp is None:
        rep.count("multi_file_location_not_mapped")
    elif (os.path.basename(l2[0]), l2[1], l2[2]) == (exp[0], exp[1], l1[2]):
        rep.count("multi_file_locations_identical_to_single_file")
    else:
        rep.count("multi_file_locations_elsewhere")


def main():
    rep = Report("C08", "exploration")
    quick = rep.tier == "quick"
    exe = build.sbeppc("san")
    schemas = S.corpus() + S.random_schemas(rep.seed, 3 if quick else 40)
    cap = 3 if quick else 12
    work = tempfile.mkdtemp(prefix="c08-", dir=C.ensure_dir(os.path.join(C.CACHE, "tmp")))
    rep.rule("every applicable single rule-breaking edit and boundary-valid edit (capped at %d positions per (rule, "
             "position class) and schema) of the covering corpus and seeded random schemas, plus the unedited schemas, plus a "
             "sweep of every C++ keyword / alternative token and reserved-identifier form over eight entity positions; "
             "an evaluation is one sbeppc run compared with the verdict the edit class implies. distinct_nontrivial = "
             "distinct (rule, position class, expected verdict) combinations exercised." % cap)
    try:
        jobs = []
        for sc in schemas:
            rng = C.rng_for(rep.seed, "c08", sc.name)
            jobs.append((sc, None, sc.to_xml()))
            jobs += cross_file_fixtures(sc)
            sweep = M.keyword_sweep(sc) if (sc.name == "prims_le" or (not quick and not sc.name.startswith("rnd"))) else []
            for ed in M.single_edits(sc, rng, per_rule_cap=cap) + sweep:
                try:
                    _, xml = M.edited_xml(sc, ed)
                except Exception as ex:  # an edit that cannot be applied to this schema
                    rep.count("edits_not_applicable")
                    continue
                if xml == sc.to_xml():
                    rep.count("edits_noop")
                    continue
                jobs.append((sc, ed, xml))

        modes = ("types", "messages", "both", "nested")

        def sbeppc_run(jd, main_text, files):
            od = os.path.join(jd, "out")
            os.makedirs(od)
            xp = os.path.join(jd, "schema.xml")
            C.write_file(xp, main_text)
            for n, t in files.items():
                C.write_file(os.path.join(jd, n), t)
            rc, o, _, to = C.run([exe, "--output-dir", od, xp], timeout=60, env=build.san_env(), cwd=jd)
            out = o.decode(errors="replace")
            gen = {}
            for root, _, fs in os.walk(od):
                for f in fs:
                    p_ = os.path.join(root, f)
                    gen[os.path.relpath(p_, od)] = C.sha(open(p_, "rb").read())
            shutil.rmtree(jd, ignore_errors=True)
            return rc, to, out, gen

        def run(t):
            idx, (sc, ed, xml) = t
            if not isinstance(xml, str):
                # a fixture that exists only as several files (cross-file duplicates): judged like any other edit
                rc, to, out, gen = sbeppc_run(os.path.join(work, str(idx)), xml[0], xml[1])
                return sc, ed, "<!-- main -->\n" + xml[0] + "".join("<!-- %s -->\n%s" % kv for kv in sorted(xml[1].items())), \
                    rc, to, out, len(gen), gen, None
            rc, to, out, gen = sbeppc_run(os.path.join(work, str(idx)), xml, {})
            # the same text spread over several files (XInclude): same verdict, same diagnostic at the same place
            sp = SP.split(xml, modes[idx % len(modes)]) if isinstance(xml, str) else None
            multi = None
            if sp is not None:
                multi = (modes[idx % len(modes)], sp) + sbeppc_run(os.path.join(work, "%d.m" % idx), sp.main, sp.files)
            return sc, ed, xml, rc, to, out, len(gen), gen, multi

        by_rule = {}
        for sc, ed, xml, rc, to, out, files, gen, multi in C.pmap(run, list(enumerate(jobs))):
            rep.evaluation()
            rule = ed.rule if ed else "unedited"
            where = ed.where if ed else "schema"
            expect_reject = ed.expect_reject if ed else False
            by_rule[rule] = by_rule.get(rule, 0) + 1
            rep.nontrivial(rule, where, expect_reject)
            replay = {"schema": sc.name, "rule": rule, "where": where, "expected": "reject" if expect_reject else "accept",
                      "exit": rc, "output": out[-1500:], "schema_xml": xml}
            if to or rc not in (0, 1):
                rep.violation("crash-or-hang", "%s/%s" % (rule, where.split("@")[0]),
                              "%s [%s at %s]: sbeppc did not terminate normally (rc=%s): %s" % (sc.name, rule, where, rc, out[-300:]), replay)
                continue
            if "runtime error:" in out or "AddressSanitizer" in out:
                rep.violation("sanitizer-report", "%s/%s" % (rule, where.split("@")[0]),
                              "%s [%s at %s]: %s" % (sc.name, rule, where, out[-400:]), replay)
                continue
            if expect_reject and rc == 0:
                rep.violation("accept-mismatch", "%s/%s" % (rule, where), "%s: a schema breaking rule `%s` at %s was accepted" % (
                    sc.name, rule, where), replay)
            elif not expect_reject and rc != 0:
                rep.violation("reject-mismatch", "%s/%s" % (rule, where), "%s: a valid schema (%s at %s) was rejected: %s" % (
                    sc.name, rule, where, out.strip().splitlines()[-1][:200] if out.strip() else ""), replay)
            elif rc != 0:
                rep.count("rejects")
                errs = [l for l in out.splitlines() if "Error" in l]
                if not errs or not re.search(r":\d+:\d+: ", errs[0]):
                    rep.violation("unlocated-diagnostic", "%s/%s" % (rule, where.split("@")[0]),
                                  "%s [%s at %s]: rejected without a file:line:col location: %s" % (
                                      sc.name, rule, where, errs[0][:200] if errs else out[-200:]), replay)
                if files:
                    rep.violation("leftover-files", "%s/%s" % (rule, where.split("@")[0]),
                                  "%s [%s at %s]: rejected but %d file(s) left behind" % (sc.name, rule, where, files), replay)
                if len(rep.cov["samples"]) < 6 and by_rule[rule] == 1:
                    rep.sample({"schema": sc.name, "rule": rule, "where": where, "verdict": "rejected", "diagnostic": errs[0][-160:] if errs else ""})
            else:
                rep.count("accepts")
            if multi is not None and not (to or rc not in (0, 1)):
                judge_multi(rep, sc, rule, where, expect_reject, xml, rc, out, gen, multi)
        rep.cov["edits_by_rule"] = by_rule
        rep.cov["schemas"] = [s.name for s in schemas]
    finally:
        shutil.rmtree(work, ignore_errors=True)
    rep.assumptions += ["expected verdicts come from the edit class (each edit breaks exactly one listed rule, or none); the "
                        "rule named in the diagnostic is not compared, only accept/reject, location and leftovers"]
    return rep.finish()
