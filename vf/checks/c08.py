"""C08 -- sbeppc rejects exactly the schemas that break its layout rules.

Workload: from every valid schema (covering corpus + seeded random) all applicable *single*
rule-breaking edits (vf/mutate.py: offsets below the minimum at every level and in public/inline
composites, blockLength below content, values one beyond the primitive's range or non-numeric,
choice index = width, unknown / cyclic / wrong-kind references, multi-byte arrays, malformed level
headers, invalid and keyword names for every entity kind, duplicate names, member order) and the
matching boundary-valid edits (offset = minimum, blockLength = content, extremes, index = width-1,
keyword-like names), plus the unedited schemas.  Observed: exit status of the ASan+UBSan+assert
build, first diagnostic line, output directory.  Accept <=> exit 0; a reject must carry
file:line:col and leave no file.
"""
import os
import re
import shutil
import tempfile

from .. import build, common as C, mutate as M, schema as S
from ..findings import Report


def main():
    rep = Report("C08", "exploration")
    quick = rep.tier == "quick"
    exe = build.sbeppc("san")
    schemas = S.corpus() + S.random_schemas(rep.seed, 3 if quick else 40)
    cap = 3 if quick else 12
    work = tempfile.mkdtemp(prefix="c08-", dir=C.ensure_dir(os.path.join(C.CACHE, "tmp")))
    rep.rule("every applicable single rule-breaking edit and boundary-valid edit (capped at %d positions per (rule, "
             "position class) and schema) of the covering corpus and seeded random schemas, plus the unedited schemas, plus a "
             "sweep of every C++ keyword / alternative token and reserved-identifier form over eight entity positions; "
             "an evaluation is one sbeppc run compared with the verdict the edit class implies. distinct_nontrivial = "
             "distinct (rule, position class, expected verdict) combinations exercised." % cap)
    try:
        jobs = []
        for sc in schemas:
            rng = C.rng_for(rep.seed, "c08", sc.name)
            jobs.append((sc, None, sc.to_xml()))
            sweep = M.keyword_sweep(sc) if (sc.name == "prims_le" or (not quick and not sc.name.startswith("rnd"))) else []
            for ed in M.single_edits(sc, rng, per_rule_cap=cap) + sweep:
                try:
                    _, xml = M.edited_xml(sc, ed)
                except Exception as ex:  # an edit that cannot be applied to this schema
                    rep.count("edits_not_applicable")
                    continue
                if xml == sc.to_xml():
                    rep.count("edits_noop")
                    continue
                jobs.append((sc, ed, xml))

        def run(t):
            idx, (sc, ed, xml) = t
            jd = os.path.join(work, str(idx))
            od = os.path.join(jd, "out")
            os.makedirs(od)
            xp = os.path.join(jd, "schema.xml")
            C.write_file(xp, xml)
            rc, o, _, to = C.run([exe, "--output-dir", od, xp], timeout=60, env=build.san_env(), cwd=jd)
            out = o.decode(errors="replace")
            files = sum(len(fs) for _, _, fs in os.walk(od))
            shutil.rmtree(jd, ignore_errors=True)
            return sc, ed, xml, rc, to, out, files

        by_rule = {}
        for sc, ed, xml, rc, to, out, files in C.pmap(run, list(enumerate(jobs))):
            rep.evaluation()
            rule = ed.rule if ed else "unedited"
            where = ed.where if ed else "schema"
            expect_reject = ed.expect_reject if ed else False
            by_rule[rule] = by_rule.get(rule, 0) + 1
            rep.nontrivial(rule, where, expect_reject)
            replay = {"schema": sc.name, "rule": rule, "where": where, "expected": "reject" if expect_reject else "accept",
                      "exit": rc, "output": out[-1500:], "schema_xml": xml}
            if to or rc not in (0, 1):
                rep.violation("crash-or-hang", "%s/%s" % (rule, where.split("@")[0]),
                              "%s [%s at %s]: sbeppc did not terminate normally (rc=%s): %s" % (sc.name, rule, where, rc, out[-300:]), replay)
                continue
            if "runtime error:" in out or "AddressSanitizer" in out:
                rep.violation("sanitizer-report", "%s/%s" % (rule, where.split("@")[0]),
                              "%s [%s at %s]: %s" % (sc.name, rule, where, out[-400:]), replay)
                continue
            if expect_reject and rc == 0:
                rep.violation("accept-mismatch", "%s/%s" % (rule, where), "%s: a schema breaking rule `%s` at %s was accepted" % (
                    sc.name, rule, where), replay)
            elif not expect_reject and rc != 0:
                rep.violation("reject-mismatch", "%s/%s" % (rule, where), "%s: a valid schema (%s at %s) was rejected: %s" % (
                    sc.name, rule, where, out.strip().splitlines()[-1][:200] if out.strip() else ""), replay)
            elif rc != 0:
                rep.count("rejects")
                errs = [l for l in out.splitlines() if "Error" in l]
                if not errs or not re.search(r":\d+:\d+: ", errs[0]):
                    rep.violation("unlocated-diagnostic", "%s/%s" % (rule, where.split("@")[0]),
                                  "%s [%s at %s]: rejected without a file:line:col location: %s" % (
                                      sc.name, rule, where, errs[0][:200] if errs else out[-200:]), replay)
                if files:
                    rep.violation("leftover-files", "%s/%s" % (rule, where.split("@")[0]),
                                  "%s [%s at %s]: rejected but %d file(s) left behind" % (sc.name, rule, where, files), replay)
                if len(rep.cov["samples"]) < 6 and by_rule[rule] == 1:
                    rep.sample({"schema": sc.name, "rule": rule, "where": where, "verdict": "rejected", "diagnostic": errs[0][-160:] if errs else ""})
            else:
                rep.count("accepts")
        rep.cov["edits_by_rule"] = by_rule
        rep.cov["schemas"] = [s.name for s in schemas]
    finally:
        shutil.rmtree(work, ignore_errors=True)
    rep.assumptions += ["expected verdicts come from the edit class (each edit breaks exactly one listed rule, or none); the "
                        "rule named in the diagnostic is not compared, only accept/reject, location and leftovers"]
    return rep.finish()
