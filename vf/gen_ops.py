"""C10: per-schema 'operation' driver.  Every accessor kind of every generated view type becomes one
small generated function (navigation from the message view + the operation); the driver runs each
operation once per buffer length n = 0..full inside the resume-mode guard-page arena with sbepp's
assertion handler installed, and prints per operation: the smallest n from which no assertion fires,
every n at which memory at or beyond p+n was touched *without* the handler being invoked, and
anomalies.  The python side knows, per operation, the extent of the entity it touches.
"""
from . import gen_driver as G, refmodel as R
from .schema import PRIM_SIZE


# operations whose *argument* is derived from the size found in the buffer: on steered images that argument is the
# hostile value itself, i.e. the call no longer has "otherwise valid arguments"
SIZE_AS_ARGUMENT = {"data-assign_range-same", "data-assign-count-same", "data-resize-same", "group-resize", "group-fill-header",
                    "array-assign_range"}


class Op:
    def __init__(self, kind, path, member, body, extent_kind, needs_index=False, needs_nonempty=False):
        self.kind, self.path, self.member, self.body = kind, path, member, body
        self.extent_kind, self.needs_index, self.needs_nonempty = extent_kind, needs_index, needs_nonempty


class OpsGen:
    def __init__(self, schema):
        self.s = schema
        self.m = R.Model(schema)
        self.pkg = schema.package
        self.ops = {}      # msg index -> [Op]

    def leafs(self, acc, enc, chain):
        """(accessor expression, kind, element chain) for every encoded leaf of an encoding"""
        m = self.m
        enc = m.deref(enc)
        if enc.kind == "composite":
            out = [(acc, "composite", chain)]
            for e, off in m.composite_layout(enc)[0]:
                if off is not None:
                    out += self.leafs("%s.%s()" % (acc, e.name), e, chain + [e.name])
            return out
        if enc.kind == "type" and enc.is_array():
            return [(acc, "array:" + enc.prim, chain)]
        return [(acc, "scalar", chain)]

    def level_ops(self, level, path, out):
        m = self.m
        first_field = None
        prev_end = 0
        lvl_base = m.enc_size(m.header()) if not path else 0
        for f, off in m.level_layout(level)[0]:
            if off is None:
                continue
            if first_field is None:
                first_field = f
            enc = m.field_enc(f)
            if enc is None:
                items = [("l.%s()" % f.name, "scalar", [])]
            else:
                items = self.leafs("l.%s()" % f.name, enc, [])
            # cursor forms with the cursor placed (through the documented cursor::pointer()) exactly where the
            # protocol requires it for this field, *without* touching the buffer first: a preceding checked read
            # would assert for every short n and hide a missing check in the cursor path
            place = "sbepp::cursor<vrt_byte_t> c; c.pointer() = sbepp::addressof(l) + %d;" % (lvl_base + prev_end)
            is_scalar = items[0][1] == "scalar"
            vt = "typename std::decay<decltype(l.%s())>::type" % f.name
            for wn, wx in (("plain", "c"), ("dont_move", "sbepp::cursor_ops::dont_move(c)"),
                           ("init_dont_move", "sbepp::cursor_ops::init_dont_move(c)")):
                if is_scalar:
                    out.append(Op("get-cursor-" + wn, path, (f.name, ()), "{ %s vrt::sink(vrt::txt(l.%s(%s))); }" % (place, f.name, wx), "leaf"))
                    out.append(Op("set-cursor-" + wn, path, (f.name, ()), "{ %s %s v{}; l.%s(v, %s); }" % (place, vt, f.name, wx), "leaf"))
                else:
                    out.append(Op("view-cursor-" + wn, path, (f.name, ()), "{ %s auto v = l.%s(%s); (void)v; }" % (place, f.name, wx), "leaf"))
            out.append(Op("cursor-skip", path, (f.name, ()), "{ %s l.%s(sbepp::cursor_ops::skip(c)); }" % (place, f.name), "leaf"))
            prev_end = off + m.field_size(f)
            for acc, kind, chain in items:
                mem = (f.name, tuple(chain))
                if kind == "scalar":
                    out.append(Op("get", path, mem, "vrt::sink(vrt::txt(%s));" % acc, "leaf"))
                    setter = acc[:-2]  # strip "()"
                    out.append(Op("set", path, mem, "{ auto v = %s; %s(v); }" % (acc, setter), "leaf"))
                    out.append(Op("set-blind", path, mem, "{ typename std::decay<decltype(%s)>::type v{}; %s(v); }" % (acc, setter), "leaf"))
                    if not chain:
                        out.append(Op("get-cursor-init", path, mem,
                                      "{ sbepp::cursor<vrt_byte_t> c; vrt::sink(vrt::txt(l.%s(sbepp::cursor_ops::init(c)))); }" % f.name, "leaf"))
                        out.append(Op("set-cursor-init", path, mem,
                                      "{ sbepp::cursor<vrt_byte_t> c; auto v = l.%s(); l.%s(v, sbepp::cursor_ops::init(c)); }" % (f.name, f.name), "leaf"))
                        out.append(Op("set-cursor-init-blind", path, mem,
                                      "{ sbepp::cursor<vrt_byte_t> c; typename std::decay<decltype(l.%s())>::type v{}; l.%s(v, sbepp::cursor_ops::init(c)); }" % (f.name, f.name), "leaf"))
                        out.append(Op("set-by-tag-blind", path, mem,
                                      "{ typename std::decay<decltype(l.%s())>::type v{}; sbepp::set_by_tag<typename LT::%s>(l, v); }" % (f.name, f.name), "leaf"))
                        out.append(Op("get-by-tag", path, mem, "vrt::sink(vrt::txt(sbepp::get_by_tag<typename LT::%s>(l)));" % f.name, "leaf"))
                elif kind == "composite":
                    out.append(Op("composite-size", path, mem, "vrt::sink(sbepp::size_bytes(%s));" % acc, "none"))
                else:
                    out.append(Op("array-read", path, mem, "vrt::sink(vrt::txt(%s));" % acc, "leaf"))
                    out.append(Op("array-assign_range", path, mem,
                                  "{ auto a = %s; std::vector<unsigned char> b(a.size(), 0x41); a.assign_range(b); }" % acc, "leaf"))
                    out.append(Op("array-fill", path, mem, "{ auto a = %s; a.fill(static_cast<typename decltype(a)::value_type>(0x42)); }" % acc, "leaf"))
                    out.append(Op("array-index", path, mem, "{ auto a = %s; if(a.size()) vrt::sink(a[a.size() - 1]); }" % acc, "leaf"))
                    out.append(Op("array-iterate", path, mem, "{ auto a = %s; unsigned s = 0; for(auto x : a) s += static_cast<unsigned char>(x); vrt::sink(s); }" % acc, "leaf"))
                    # the byte-typed view derived from the array view
                    out.append(Op("array-raw-read", path, mem, "vrt::sink(vrt::txt(%s.raw()));" % acc, "leaf"))
                    out.append(Op("array-raw-index", path, mem, "{ auto r = %s.raw(); if(r.size()) { vrt::sink(r[r.size() - 1]); vrt::sink(r.front()); vrt::sink(r.back()); } }" % acc, "leaf"))
                    out.append(Op("array-raw-iterate", path, mem, "{ auto r = %s.raw(); unsigned s = 0; for(auto x : r) s += static_cast<unsigned char>(x); vrt::sink(s); }" % acc, "leaf"))
                    out.append(Op("array-raw-fill", path, mem, "{ auto r = %s.raw(); r.fill(static_cast<typename decltype(r)::value_type>(0x47)); }" % acc, "leaf"))
                    out.append(Op("array-raw-strlen", path, mem, "{\n#if !defined(VRT_BYTE_KIND) || VRT_BYTE_KIND == 0\n  /* string length is a char operation: a raw view over unsigned char / std::byte has none */\n  auto r = %s.raw(); vrt::sink(r.strlen()); vrt::sink(r.strlen_r());\n#endif\n}" % acc, "leaf"))
                    if kind.endswith(":char"):
                        out.append(Op("array-strlen", path, mem, "vrt::sink(%s.strlen());" % acc, "leaf"))
                        out.append(Op("array-strlen_r", path, mem, "vrt::sink(%s.strlen_r());" % acc, "leaf"))
                        out.append(Op("array-assign_string", path, mem, "{ auto a = %s; a.assign_string(\"\"); }" % acc, "leaf"))
        for g in level.groups:
            mem = (g.name, ())
            acc = "l.%s()" % g.name
            inner_first = next((f for f, off in m.level_layout(g)[0] if off is not None), None)
            read_first = ""
            if inner_first is not None:
                enc = m.field_enc(inner_first)
                if enc is None or enc.kind in ("type", "enum", "set") and not (enc.kind == "type" and enc.is_array()):
                    read_first = "vrt::sink(vrt::txt(e.%s()));" % inner_first.name
            out.append(Op("group-accessor", path, mem, "(void)%s;" % acc, "none"))
            out.append(Op("group-size", path, mem, "vrt::sink(%s.size());" % acc, "group-header"))
            out.append(Op("group-header-read", path, mem, "vrt::sink(sbepp::get_header(%s).blockLength().value());" % acc, "group-header"))
            out.append(Op("group-walk", path, mem, "{ std::size_t k = 0; for(const auto e : %s) { (void)e; %s ++k; } vrt::sink(k); }" % (acc, read_first), "group"))
            out.append(Op("group-size_bytes", path, mem, "vrt::sink(sbepp::size_bytes(%s));" % acc, "group"))
            out.append(Op("group-fill-header", path, mem, "{ auto g = %s; const auto n = g.size(); sbepp::fill_group_header(g, n); }" % acc, "group-header"))
            out.append(Op("group-resize", path, mem, "{ auto g = %s; g.resize(g.size()); }" % acc, "group-header"))
            out.append(Op("group-cursor-walk", path, mem,
                          "{ sbepp::cursor<vrt_byte_t> c; auto g = l.%s(sbepp::cursor_ops::init(c)); std::size_t k = 0; "
                          "vrt::rec_visitor<char> v{-1, nullptr}; v.entry_counters.push_back(0); "
                          "for(const auto e : g.cursor_range(c)) { (void)e; sbepp::visit_children(e, c, v); ++k; } vrt::sink(k); vrt::out().clear(); }" % g.name, "group"))
            if read_first:
                arrow = read_first.replace("e.", "it->")
                out.append(Op("group-iterator-arrow", path, mem, "{ auto g = %s; auto it = g.begin(); if(it != g.end()) { %s auto e = *it; %s } }"
                              % (acc, arrow, read_first), "group", needs_nonempty=True))
                out.append(Op("group-get_by_tag-entry-field", path, mem,
                              "{ auto g = sbepp::get_by_tag<typename LT::%s>(l); for(const auto e : g) { %s break; } }" % (g.name, read_first), "group"))
            # blind writers: nothing is read from the group's own header first
            out.append(Op("group-fill-header-blind", path, mem, "{ auto g = %s; sbepp::fill_group_header(g, 0); }" % acc, "group-header"))
            out.append(Op("group-resize-blind", path, mem, "{ auto g = %s; g.resize(0); }" % acc, "group-header"))
            out.append(Op("group-clear", path, mem, "{ auto g = %s; g.clear(); }" % acc, "group-header"))
            gplace = "sbepp::cursor<vrt_byte_t> c; c.pointer() = sbepp::addressof(%s);" % acc
            out.append(Op("group-cursor-plain", path, mem, "{ %s auto g = l.%s(c); vrt::sink(g.size()); }" % (gplace, g.name), "group-header"))
            out.append(Op("group-cursor-dont_move", path, mem, "{ %s auto g = l.%s(sbepp::cursor_ops::dont_move(c)); vrt::sink(g.size()); }" % (gplace, g.name), "group-header"))
            out.append(Op("group-cursor-skip", path, mem, "{ %s l.%s(sbepp::cursor_ops::skip(c)); }" % (gplace, g.name), "group"))
            if not g.groups and not g.data:
                out.append(Op("flat-front-back", path, mem, "{ auto g = %s; if(!g.empty()) { auto e = g.front(); (void)e; auto b = g.back(); (void)b; %s } }"
                              % (acc, read_first.replace("e.", "b.")), "group", needs_nonempty=True))
                out.append(Op("flat-index-last", path, mem, "{ auto g = %s; if(!g.empty()) { auto e = g[static_cast<typename decltype(g)::size_type>(g.size() - 1)]; (void)e; %s } }"
                              % (acc, read_first), "group", needs_nonempty=True))
                out.append(Op("flat-iterator-arith", path, mem,
                              "{ auto g = %s; auto it = g.end(); if(!g.empty()) { it -= 1; auto e = *it; (void)e; %s } }" % (acc, read_first), "group", needs_nonempty=True))
        for d in level.data:
            mem = (d.name, ())
            acc = "l.%s()" % d.name
            vt = "typename decltype(d)::value_type"
            out.append(Op("data-accessor", path, mem, "(void)%s;" % acc, "none"))
            out.append(Op("data-size", path, mem, "vrt::sink(%s.size());" % acc, "data-prefix"))
            out.append(Op("data-read", path, mem, "vrt::sink(vrt::txt(%s));" % acc, "data"))
            out.append(Op("data-iterate", path, mem, "{ auto d = %s; unsigned s = 0; for(auto x : d) s += static_cast<unsigned char>(x); vrt::sink(s); }" % acc, "data"))
            out.append(Op("data-front-back", path, mem, "{ auto d = %s; if(!d.empty()) { vrt::sink(d.front()); vrt::sink(d.back()); vrt::sink(d[0]); } }" % acc, "data"))
            out.append(Op("data-size_bytes", path, mem, "vrt::sink(sbepp::size_bytes(%s));" % acc, "data-prefix"))
            out.append(Op("data-resize-same", path, mem, "{ auto d = %s; d.resize(d.size()); }" % acc, "data"))
            out.append(Op("data-clear", path, mem, "{ auto d = %s; d.clear(); }" % acc, "data-prefix"))
            out.append(Op("data-push_back", path, mem, "{ auto d = %s; if(d.size() < d.max_size()) d.push_back(static_cast<%s>(0x5a)); }" % (acc, vt), "data+1"))
            out.append(Op("data-pop_back", path, mem, "{ auto d = %s; if(!d.empty()) d.pop_back(); }" % acc, "data"))
            out.append(Op("data-insert-begin", path, mem, "{ auto d = %s; if(d.size() < d.max_size()) d.insert(d.begin(), static_cast<%s>(0x5b)); }" % (acc, vt), "data+1"))
            out.append(Op("data-erase-begin", path, mem, "{ auto d = %s; if(!d.empty()) d.erase(d.begin()); }" % acc, "data"))
            out.append(Op("data-erase-to-end", path, mem, "{ auto d = %s; d.erase(d.begin(), d.end()); }" % acc, "data"))
            out.append(Op("data-assign_range-same", path, mem,
                          "{ auto d = %s; std::vector<unsigned char> b(d.size(), 0x43); d.assign_range(b); }" % acc, "data"))
            out.append(Op("data-assign-count-same", path, mem, "{ auto d = %s; d.assign(d.size(), static_cast<%s>(0x44)); }" % (acc, vt), "data"))
            out.append(Op("data-cursor-init", path, mem, "{ sbepp::cursor<vrt_byte_t> c; vrt::sink(l.%s(sbepp::cursor_ops::init(c)).size()); }" % d.name, "data-prefix"))
            out.append(Op("data-raw-read", path, mem, "vrt::sink(vrt::txt(%s.raw()));" % acc, "data"))
            out.append(Op("data-raw-iterate", path, mem, "{ auto r = %s.raw(); unsigned s = 0; for(auto x : r) s += static_cast<unsigned char>(x); vrt::sink(s); }" % acc, "data"))
            out.append(Op("data-raw-front-back", path, mem, "{ auto r = %s.raw(); if(!r.empty()) { vrt::sink(r.front()); vrt::sink(r.back()); vrt::sink(r[0]); } }" % acc, "data"))
            out.append(Op("data-raw-push_back", path, mem, "{ auto r = %s.raw(); if(r.size() < r.max_size()) r.push_back(static_cast<typename decltype(r)::value_type>(0x48)); }" % acc, "data+1"))
            out.append(Op("data-resize-3-blind", path, mem, "{ auto d = %s; d.resize(3); }" % acc, "data-prefix+3"))
            out.append(Op("data-assign-3-blind", path, mem, "{ auto d = %s; d.assign(3, static_cast<%s>(0x45)); }" % (acc, vt), "data-prefix+3"))
            out.append(Op("data-assign_range-3-blind", path, mem,
                          "{ auto d = %s; std::vector<unsigned char> b(3, 0x46); d.assign_range(b); }" % acc, "data-prefix+3"))
            out.append(Op("data-assign-il-blind", path, mem, "{ auto d = %s; d.assign({static_cast<%s>(1), static_cast<%s>(2), static_cast<%s>(3)}); }"
                          % (acc, vt, vt, vt), "data-prefix+3"))
            if m.data_elem_prim(d) == "char":
                out.append(Op("data-assign_string-blind", path, mem, "{ auto d = %s; d.assign_string(\"abc\"); }" % acc, "data-prefix+3"))
            dplace = "sbepp::cursor<vrt_byte_t> c; c.pointer() = sbepp::addressof(%s);" % acc
            out.append(Op("data-cursor-plain", path, mem, "{ %s vrt::sink(l.%s(c).size()); }" % (dplace, d.name), "data"))
            out.append(Op("data-cursor-dont_move", path, mem, "{ %s vrt::sink(vrt::txt(l.%s(sbepp::cursor_ops::dont_move(c)))); }" % (dplace, d.name), "data"))
            out.append(Op("data-cursor-skip", path, mem, "{ %s l.%s(sbepp::cursor_ops::skip(c)); }" % (dplace, d.name), "data"))
        for g in level.groups:
            self.level_ops(g, path + [g.name], out)

    def generate(self):
        base = G.Gen(self.s)
        for i, msg in enumerate(self.s.messages):
            base.gen_message(i, msg)
        code = [G.HEAD % dict(pkg=self.pkg).copy()]
        code.append('#include "vrt_assert.hpp"\n#ifndef VRT_RO_ARENA\n#include "vrt_arena.hpp"\n#endif\n')
        code.append("namespace vrt\n{\nstatic volatile unsigned long long g_sink;\ntemplate<typename T>\ninline void sink(const T& v)\n{\n"
                    "    g_sink = g_sink * 31 + static_cast<unsigned long long>(sizeof(v));\n}\n"
                    "inline void sink(const std::string& s)\n{\n    g_sink += s.size();\n}\n"
                    "struct null_visitor\n{\n    template<typename... A>\n    bool on_group(A&&...) { return false; }\n"
                    "    template<typename... A>\n    bool on_entry(A&&...) { return false; }\n    template<typename... A>\n"
                    "    bool on_data(A&&...) { return false; }\n    template<typename... A>\n    bool on_field(A&&...) { return false; }\n};\n"
                    "template<typename G>\ninline typename G::value_type nth(G g, unsigned long long i)\n{\n    auto it = g.begin();\n"
                    "    for(unsigned long long k = 0; k < i; k++)\n        ++it;\n    return *it;\n}\n} // namespace vrt\n")
        code += base.code
        disp = []
        for mi, msg in enumerate(self.s.messages):
            ops = []
            # message-level operations
            view = "::%s::messages::%s<vrt_byte_t>" % (self.pkg, msg.name)
            mt = "::%s::schema::messages::%s" % (self.pkg, msg.name)
            k = base.lid(msg)
            ops.append(Op("message-fill-header", [], ("#msg", ()), "sbepp::fill_message_header(l);", "header"))
            ops.append(Op("message-get-header", [], ("#msg", ()), "vrt::sink(sbepp::get_header(l).blockLength().value());", "header"))
            ops.append(Op("message-size_bytes", [], ("#msg", ()), "vrt::sink(sbepp::size_bytes(l));", "full"))
            ops.append(Op("message-size_bytes_checked", [], ("#msg", ()), "vrt::sink(sbepp::size_bytes_checked(l, g_n).size);", "never-asserts"))
            ops.append(Op("message-visit", [], ("#msg", ()),
                          "{ vrt::rec_visitor<char> v{-1, nullptr}; sbepp::visit(l, v); vrt::out().clear(); }", "full"))
            ops.append(Op("message-cursor-walk", [], ("#msg", ()),
                          "{ auto c = sbepp::init_cursor(l); dL%d_cur<%s>(std::string(), l, c, false); vrt::out().clear(); }" % (k, mt), "full"))
            ops.append(Op("message-ra-walk", [], ("#msg", ()), "{ dL%d_ra<%s>(std::string(), l, true); vrt::out().clear(); }" % (k, mt), "full"))
            self.level_ops(msg, [], ops)
            self.ops[mi] = ops
            for oi, op in enumerate(ops):
                nav = "    auto l0 = m;\n"
                tag = mt
                cur = "l0"
                for depth, gname in enumerate(op.path):
                    nav += "    auto l%d = vrt::nth(%s.%s(), ix[%d]);\n" % (depth + 1, cur, gname, depth)
                    cur = "l%d" % (depth + 1)
                    tag += "::" + gname
                code.append("static void op_%d_%d(%s m, const std::vector<unsigned long long>& ix)\n{\n    (void)ix;\n%s"
                            "    auto l = %s;\n    using LT = %s;\n    (void)l;\n    (void)sizeof(LT);\n    %s\n}\n" % (mi, oi, view, nav, cur, tag, op.body))
            cases = "\n".join("        case %d: op_%d_%d(m, ix); break;" % (oi, mi, oi) for oi in range(len(ops)))
            code.append("static void run_ops_%d(int op, unsigned char* p, std::size_t n, const std::vector<unsigned long long>& ix)\n{\n"
                        "    %s m{reinterpret_cast<vrt_byte_t*>(p), n};\n    switch(op)\n    {\n%s\n    }\n}\n" % (mi, view, cases))
            disp.append("        case %d: run_ops_%d(op, p, n, ix); break;" % (mi, mi))
        code.append(OPS_MAIN.replace("%(disp)s", "\n".join(disp)))
        # g_n must be declared before the ops
        return "".join(code).replace("static const unsigned char* g_base = nullptr;\n",
                                     "static const unsigned char* g_base = nullptr;\nstatic std::size_t g_n = 0;\n", 1)


OPS_MAIN = r'''
static void dispatch(int mi, int op, unsigned char* p, std::size_t n, const std::vector<unsigned long long>& ix)
{
    switch(mi)
    {
%(disp)s
    }
}

int main()
{
    vrt::arena_init();
    std::string ln;
    while(std::getline(std::cin, ln))
    {
        vrt::tokens t;
        t.t = vrt::split(ln);
        if(t.t.size() < 7)
            continue;
        t.next();
        const std::string id = t.next();
        const int mi = static_cast<int>(t.u64());
        const int op = static_cast<int>(t.u64());
        const unsigned long long nix = t.u64();
        std::vector<unsigned long long> ix;
        for(unsigned long long i = 0; i < nix; i++)
            ix.push_back(t.u64());
        const unsigned long long cap = t.u64();
        const unsigned long long step = t.u64();      // buffer lengths tried: 0, step, 2*step, ... and always full
        std::vector<unsigned char> img = t.bytes();
        const std::size_t full = img.size();
        // per n: 0 = clean, 1 = assertion, 2 = touched memory at/after p+n and asserted, 3 = touched and did NOT assert (silent)
        std::string silent, late, runaway, before, aborted;
        long first_ok = -1;      // smallest n such that no assertion fires for any n' >= n
        long asserts = 0, faults = 0;
        for(std::size_t n = 0; n <= full; n = (n == full ? full + 1 : (n + step > full ? full : n + step)))
        {
            unsigned char* p = vrt::arena_place(img.data(), n, false);
            g_base = p;
            g_n = n;
            volatile int rc = 0;
            const bool as = VRT_TRAPPED(rc = VRT_GUARDED(1, cap, dispatch(mi, op, p, n, ix)));
            vrt::arena_state& a = vrt::ar();
            a.armed = 0;
            a.step_armed = 0;
            const long nf = a.faults;
            const long foff = a.first_fault_off;
            const int fw = a.first_fault_write;
            vrt::arena_close_opened();
            vrt::out().clear();
            if(as)
                asserts++;
            if(nf)
                faults++;
            if(rc == 3)
                runaway += std::to_string(n) + ",";
            // the property speaks of bytes at or beyond p+n: a fault in front of the buffer (negative strides from
            // counts beyond the signed range of the dimension type) is recorded but is not its subject
            const bool beyond = nf && foff >= static_cast<long>(n);
            if(nf && !beyond)
                before += std::to_string(n) + ":" + std::to_string(foff) + (fw ? "w" : "r") + ",";
            if(beyond && !as && rc == 2)
                aborted += std::to_string(n) + ":" + std::to_string(foff) + (fw ? "w" : "r") + ",";
            else if(beyond && !as)
                silent += std::to_string(n) + ":" + std::to_string(foff) + (fw ? "w" : "r") + ",";
            else if(beyond && as)
                late += std::to_string(n) + ":" + std::to_string(foff) + (fw ? "w" : "r") + ",";
            if(as || nf)
                first_ok = -1;
            else if(first_ok < 0)
                first_ok = static_cast<long>(n);
        }
        std::printf("O %s first_ok=%ld asserts=%ld faults=%ld silent=%s late=%s runaway=%s before=%s aborted=%s last_assert_in=%s\n", id.c_str(), first_ok, asserts, faults,
                    silent.empty() ? "-" : silent.c_str(), late.empty() ? "-" : late.c_str(), runaway.empty() ? "-" : runaway.c_str(),
                    before.empty() ? "-" : before.c_str(), aborted.empty() ? "-" : aborted.c_str(), asserts ? vrt::astate().func : "-");
        std::fflush(stdout);
    }
    return 0;
}
'''


# ---------------------------------------------------------------- python side: extents

def locate(m, msg, vals, path, idx):
    """(level, values, level start offset, wire block length) of the level instance reached by following
    group names `path` with entry indices `idx`; None if an index does not exist.  Honours inflated
    (wire) block lengths recorded in the value tree."""
    level, v = msg, vals
    start = m.enc_size(m.header())
    bl = m.level_layout(msg)[2] + vals.extra
    for gname, i in zip(path, idx):
        cur = start + bl
        found = None
        for g in level.groups:
            entries = v.groups[g.name]
            ex = entries[0].extra if entries else v.groups.get(("extra", g.name), 0)
            gbl = m.level_layout(g)[2] + ex
            if g.name == gname:
                if i >= len(entries):
                    return None
                cur += m.enc_size(m.dimension(g))
                for k in range(i):
                    cur += R.level_size(m, g, entries[k], gbl)
                found = (g, entries[i], cur, gbl)
                break
            cur += R.group_size(m, g, entries, v.groups.get(("extra", g.name), 0))
        if found is None:
            return None
        level, v, start, bl = found
    return level, v, start, bl


def member_extent(m, level, v, start, bl, member, extent_kind):
    """End offset (exclusive) of the bytes the entity spans, by extent kind."""
    name, chain = member
    if extent_kind in ("none",):
        return 0
    if extent_kind == "header":
        return m.enc_size(m.header())
    for f, off in m.level_layout(level)[0]:
        if f.name == name and off is not None:
            enc = m.field_enc(f)
            base = start + off
            size = m.field_size(f)
            for en in chain:
                enc = m.deref(enc)
                for e, eo in m.composite_layout(enc)[0]:
                    if e.name == en:
                        base += eo
                        enc = e
                        size = m.enc_size(e)
                        break
            return base + size
    cur = start + bl
    for g in level.groups:
        entries = v.groups[g.name]
        if g.name == name:
            if extent_kind == "group-header":
                return cur + m.enc_size(m.dimension(g))
            return cur + R.group_size(m, g, entries)
        cur += R.group_size(m, g, entries)
    for d in level.data:
        ps = m.data_prefix_size(d)
        n = len(v.data[d.name])
        if d.name == name:
            if extent_kind == "data-prefix":
                return cur + ps
            if extent_kind == "data+1":
                return cur + ps + n + 1
            if extent_kind == "data-prefix+3":
                return cur + ps + 3
            return cur + ps + n
        cur += ps + n
    return None
