"""Abstract SBE schema model, XML writer, covering corpus and seeded random generator.

The model mirrors the SBE XML vocabulary (not sbeppc's data structures); all
layout knowledge lives in refmodel.py.
"""
import copy
from xml.sax.saxutils import quoteattr, escape

from . import common as C

PRIM_SIZE = {"char": 1, "int8": 1, "uint8": 1, "int16": 2, "uint16": 2, "int32": 4, "uint32": 4,
             "int64": 8, "uint64": 8, "float": 4, "double": 8}
PRIMS = list(PRIM_SIZE)
INT_PRIMS = [p for p in PRIMS if p not in ("float", "double")]
UNSIGNED = ["uint8", "uint16", "uint32", "uint64"]


class Node:
    kind = "node"

    def __init__(self, **kw):
        self.description = None
        self.since = None
        self.deprecated = None
        self.semantic_type = None
        self.extra_attrs = {}      # raw additional attributes (mutators use this)
        for k, v in kw.items():
            setattr(self, k, v)

    def common_attrs(self):
        a = []
        if self.description is not None:
            a.append(("description", self.description))
        if self.semantic_type is not None:
            a.append(("semanticType", self.semantic_type))
        if self.since is not None:
            a.append(("sinceVersion", self.since))
        if self.deprecated is not None:
            a.append(("deprecated", self.deprecated))
        a += list(self.extra_attrs.items())
        return a


def _attrs(pairs):
    return "".join(" %s=%s" % (k, quoteattr(str(v))) for k, v in pairs if v is not None)


class Type(Node):
    kind = "type"

    def __init__(self, name, prim, presence=None, length=None, offset=None, min=None, max=None, null=None,
                 const=None, value_ref=None, char_encoding=None, **kw):
        Node.__init__(self, **kw)
        self.name, self.prim, self.presence, self.length, self.offset = name, prim, presence, length, offset
        self.min, self.max, self.null, self.const, self.value_ref, self.char_encoding = min, max, null, const, value_ref, char_encoding

    # effective values
    def eff_presence(self):
        return self.presence or "required"

    def eff_length(self):
        if self.length is not None:
            return self.length
        if self.eff_presence() == "constant" and self.prim == "char" and self.const is not None:
            return len(self.const.encode())
        return 1

    def is_const(self):
        return self.eff_presence() == "constant"

    def is_array(self):
        return self.eff_length() != 1

    def xml(self, ind):
        a = [("name", self.name), ("primitiveType", self.prim), ("presence", self.presence), ("length", self.length),
             ("offset", self.offset), ("minValue", self.min), ("maxValue", self.max), ("nullValue", self.null),
             ("valueRef", self.value_ref), ("characterEncoding", self.char_encoding)] + self.common_attrs()
        if self.const is not None:
            return "%s<type%s>%s</type>\n" % (ind, _attrs(a), escape(self.const))
        return "%s<type%s/>\n" % (ind, _attrs(a))


class EnumValue(Node):
    def __init__(self, name, value, **kw):
        Node.__init__(self, **kw)
        self.name, self.value = name, value


class Enum(Node):
    kind = "enum"

    def __init__(self, name, encoding, values, offset=None, **kw):
        Node.__init__(self, **kw)
        self.name, self.encoding, self.offset = name, encoding, offset
        self.values = [v if isinstance(v, EnumValue) else EnumValue(*v) for v in values]

    def xml(self, ind):
        a = [("name", self.name), ("encodingType", self.encoding), ("offset", self.offset)] + self.common_attrs()
        s = "%s<enum%s>\n" % (ind, _attrs(a))
        for v in self.values:
            s += "%s    <validValue%s>%s</validValue>\n" % (ind, _attrs([("name", v.name)] + v.common_attrs()), escape(str(v.value)))
        return s + "%s</enum>\n" % ind


class Choice(Node):
    def __init__(self, name, index, **kw):
        Node.__init__(self, **kw)
        self.name, self.index = name, index


class SetT(Node):
    kind = "set"

    def __init__(self, name, encoding, choices, offset=None, **kw):
        Node.__init__(self, **kw)
        self.name, self.encoding, self.offset = name, encoding, offset
        self.choices = [c if isinstance(c, Choice) else Choice(*c) for c in choices]

    def xml(self, ind):
        a = [("name", self.name), ("encodingType", self.encoding), ("offset", self.offset)] + self.common_attrs()
        s = "%s<set%s>\n" % (ind, _attrs(a))
        for c in self.choices:
            s += "%s    <choice%s>%s</choice>\n" % (ind, _attrs([("name", c.name)] + c.common_attrs()), escape(str(c.index)))
        return s + "%s</set>\n" % ind


class Ref(Node):
    kind = "ref"

    def __init__(self, name, type, offset=None, **kw):
        Node.__init__(self, **kw)
        self.name, self.type, self.offset = name, type, offset

    def xml(self, ind):
        return "%s<ref%s/>\n" % (ind, _attrs([("name", self.name), ("type", self.type), ("offset", self.offset)] + self.common_attrs()))


class Composite(Node):
    kind = "composite"

    def __init__(self, name, elements, offset=None, **kw):
        Node.__init__(self, **kw)
        self.name, self.elements, self.offset = name, list(elements), offset

    def xml(self, ind):
        a = [("name", self.name), ("offset", self.offset)] + self.common_attrs()
        if not self.elements:
            return "%s<composite%s/>\n" % (ind, _attrs(a))
        s = "%s<composite%s>\n" % (ind, _attrs(a))
        for e in self.elements:
            s += e.xml(ind + "    ")
        return s + "%s</composite>\n" % ind

    def element(self, name):
        for e in self.elements:
            if e.name == name:
                return e
        return None


class Field(Node):
    kind = "field"

    def __init__(self, name, id, type, offset=None, presence=None, value_ref=None, **kw):
        Node.__init__(self, **kw)
        self.name, self.id, self.type, self.offset, self.presence, self.value_ref = name, id, type, offset, presence, value_ref

    def xml(self, ind):
        a = [("name", self.name), ("id", self.id), ("type", self.type), ("offset", self.offset), ("presence", self.presence),
             ("valueRef", self.value_ref)] + self.common_attrs()
        return "%s<field%s/>\n" % (ind, _attrs(a))


class Data(Node):
    kind = "data"

    def __init__(self, name, id, type, **kw):
        Node.__init__(self, **kw)
        self.name, self.id, self.type = name, id, type

    def xml(self, ind):
        return "%s<data%s/>\n" % (ind, _attrs([("name", self.name), ("id", self.id), ("type", self.type)] + self.common_attrs()))


class Level(Node):
    def __init__(self, fields=(), groups=(), data=(), block_length=None, **kw):
        Node.__init__(self, **kw)
        self.fields, self.groups, self.data, self.block_length = list(fields), list(groups), list(data), block_length

    def members_xml(self, ind):
        return "".join(m.xml(ind) for m in self.fields + self.groups + self.data)

    def walk_levels(self, path=()):
        """Yields (path tuple of group names, level) for this level and every nested group."""
        yield path, self
        for g in self.groups:
            for x in g.walk_levels(path + (g.name,)):
                yield x


class Group(Level):
    kind = "group"

    def __init__(self, name, id, fields=(), groups=(), data=(), dimension_type=None, block_length=None, **kw):
        Level.__init__(self, fields, groups, data, block_length, **kw)
        self.name, self.id, self.dimension_type = name, id, dimension_type

    def eff_dimension(self):
        return self.dimension_type or "groupSizeEncoding"

    def xml(self, ind):
        a = [("name", self.name), ("id", self.id), ("dimensionType", self.dimension_type),
             ("blockLength", self.block_length)] + self.common_attrs()
        body = self.members_xml(ind + "    ")
        if not body:
            return "%s<group%s/>\n" % (ind, _attrs(a))
        return "%s<group%s>\n%s%s</group>\n" % (ind, _attrs(a), body, ind)


class Message(Level):
    kind = "message"

    def __init__(self, name, id, fields=(), groups=(), data=(), block_length=None, **kw):
        Level.__init__(self, fields, groups, data, block_length, **kw)
        self.name, self.id = name, id

    def xml(self, ind):
        a = [("name", self.name), ("id", self.id), ("blockLength", self.block_length)] + self.common_attrs()
        body = self.members_xml(ind + "    ")
        if not body:
            return "%s<sbe:message%s/>\n" % (ind, _attrs(a))
        return "%s<sbe:message%s>\n%s%s</sbe:message>\n" % (ind, _attrs(a), body, ind)


class Schema:
    def __init__(self, package, id=1, version=0, byte_order=None, types=(), messages=(), header_type=None,
                 semantic_version=None, description=None, name=None):
        self.package, self.id, self.version, self.byte_order = package, id, version, byte_order
        self.types, self.messages, self.header_type = list(types), list(messages), header_type
        self.semantic_version, self.description = semantic_version, description
        self.name = name or package
        self.extra_attrs = {}

    def big_endian(self):
        return self.byte_order == "bigEndian"

    def eff_header(self):
        return self.header_type or "messageHeader"

    def to_xml(self):
        a = [("package", self.package), ("id", self.id), ("version", self.version),
             ("semanticVersion", self.semantic_version), ("description", self.description),
             ("byteOrder", self.byte_order), ("headerType", self.header_type)] + list(self.extra_attrs.items())
        s = '<?xml version="1.0" encoding="UTF-8"?>\n<sbe:messageSchema xmlns:sbe="http://fixprotocol.io/2016/sbe"%s>\n' % _attrs(a)
        s += "    <types>\n" + "".join(t.xml("        ") for t in self.types) + "    </types>\n"
        s += "".join(m.xml("    ") for m in self.messages)
        return s + "</sbe:messageSchema>\n"

    def find_type(self, name):
        """SBE type lookup is case-insensitive."""
        ln = name.lower()
        for t in self.types:
            if t.name.lower() == ln:
                return t
        return None

    def clone(self):
        return copy.deepcopy(self)


# ----------------------------------------------------------------------------- building blocks

def std_header(name="messageHeader", bl="uint16", tid="uint16", sid="uint16", ver="uint16"):
    return Composite(name, [Type("blockLength", bl), Type("templateId", tid), Type("schemaId", sid), Type("version", ver)])


def std_dimension(name="groupSizeEncoding", bl="uint16", num="uint16"):
    return Composite(name, [Type("blockLength", bl), Type("numInGroup", num)])


def std_vardata(name="varDataEncoding", length="uint32", elem="uint8"):
    return Composite(name, [Type("length", length), Type("varData", elem, length=0)])


def _ids():
    n = [0]

    def nxt():
        n[0] += 1
        return n[0]
    return nxt


def corpus_prims(package, byte_order=None):
    """Every primitive as field / public type / inline & ref composite member, arrays, enums, sets, constants."""
    nid = _ids()
    types = [std_header(), std_dimension(), std_vardata(),
             std_vardata("varStr8", "uint8", "char"), std_vardata("varBin16", "uint16", "int8")]
    fields = []
    for p in PRIMS:
        types.append(Type("T_%s" % p, p))
        types.append(Type("O_%s" % p, p, presence="optional"))
        fields.append(Field("p_%s" % p, nid(), p))
        fields.append(Field("po_%s" % p, nid(), p, presence="optional"))
        fields.append(Field("t_%s" % p, nid(), "T_%s" % p))
        fields.append(Field("o_%s" % p, nid(), "O_%s" % p))
    types += [Type("A_char5", "char", length=5), Type("A_u8_3", "uint8", length=3), Type("A_i8_2", "int8", length=2),
              Type("A_char0", "char", length=0), Type("A_opt4", "char", length=4, presence="optional")]
    for a in ("A_char5", "A_u8_3", "A_i8_2", "A_char0", "A_opt4"):
        fields.append(Field("f_%s" % a, nid(), a))
    types.append(Type("U16base", "uint16"))
    enums = [("E_char", "char", [("A", "A"), ("B", "b"), ("Z", "~")]),
             ("E_u8", "uint8", [("One", "1"), ("Max", "254"), ("Zero", "0")]),
             ("E_i8", "int8", [("Neg", "-128"), ("Pos", "127")]),
             ("E_u16", "U16base", [("Lo", "0"), ("Hi", "65535")]),
             ("E_i16", "int16", [("Neg", "-32768"), ("Pos", "32767")]),
             ("E_u32", "uint32", [("Hi", "4294967295"), ("Mid", "65536")]),
             ("E_i32", "int32", [("Neg", "-2147483648"), ("Pos", "2147483647")]),
             ("E_u64", "uint64", [("Hi", "18446744073709551615"), ("Big", "9223372036854775808"), ("One", "1")]),
             ("E_i64", "int64", [("Neg", "-9223372036854775808"), ("Pos", "9223372036854775807")]),
             ("E_empty", "uint8", [])]
    for n, enc, vals in enums:
        types.append(Enum(n, enc, vals))
        fields.append(Field("f_%s" % n, nid(), n))
    sets = [("S_u8", "uint8", [("a", 0), ("h", 7), ("c", 3)]), ("S_u16", "U16base", [("a", 15), ("b", 0), ("c", 8)]),
            ("S_u32", "uint32", [("lo", 0), ("hi", 31), ("mid", 16)]), ("S_u64", "uint64", [("lo", 0), ("hi", 63), ("b32", 32), ("b31", 31)]),
            ("S_empty", "uint8", [])]
    for n, enc, ch in sets:
        types.append(SetT(n, enc, ch))
        fields.append(Field("f_%s" % n, nid(), n))
    # constants
    types += [Type("C_u32", "uint32", presence="constant", const="4000000000"),
              Type("C_i64", "int64", presence="constant", const="-9223372036854775808"),
              Type("C_u64", "uint64", presence="constant", const="18446744073709551615"),
              Type("C_char", "char", presence="constant", const="X"),
              Type("C_str", "char", presence="constant", const="hello"),
              Type("C_strpad", "char", presence="constant", length=8, const="abc"),
              Type("C_f", "float", presence="constant", const="1.5"),
              Type("C_d", "double", presence="constant", const="-2.25e10"),
              Type("C_ref", "uint8", presence="constant", value_ref="E_u8.Max"),
              Type("C_refc", "char", presence="constant", value_ref="E_char.B"),
              # text that is not printable ASCII: UTF-8 (lengths count bytes), tab/CR/LF, DEL
              Type("C_u8", "char", presence="constant", const="B\u00f6rse", char_encoding="UTF-8",
                   description="B\u00f6rse \u20ac \u65e5\u672c tab\there cr\rlf\n del\x7f end", semantic_type="St\u00fcck"),
              Type("C_u8pad", "char", presence="constant", length=9, const="\u20ac\t\u65e5")]
    for c in ("C_u32", "C_i64", "C_u64", "C_char", "C_str", "C_strpad", "C_f", "C_d", "C_ref", "C_refc", "C_u8", "C_u8pad"):
        fields.append(Field("k_%s" % c, nid(), c))
    fields.append(Field("k_enum", nid(), "E_u8", presence="constant", value_ref="E_u8.One"))
    fields.append(Field("k_prim", nid(), "uint16", presence="constant", value_ref="E_u16.Hi"))
    fields.append(Field("k_primc", nid(), "char", presence="constant", value_ref="E_char.Z"))
    # composites: inline members of every kind, refs of every kind, nesting, custom offsets, constants inside
    inner = Composite("Inner", [Type("a", "uint16"), Type("b", "int8"), Enum("e", "uint8", [("X", "1"), ("Y", "2")]),
                                SetT("s", "uint16", [("p", 0), ("q", 9)])])
    types.append(inner)
    comp = Composite("Comp", [
        Type("x", "uint32"), Type("kc", "uint8", presence="constant", const="7"),
        # constants that take their value from an enumerator (inline and through refs) sit *before* encoded members
        Type("kv", "uint16", presence="constant", value_ref="E_u16.Hi"), Ref("rkv", "C_ref"), Ref("rkc", "C_refc"),
        Type("kvc", "char", presence="constant", value_ref="E_char.A"), Type("arr", "char", length=3),
        Ref("ri", "T_int64"), Ref("ro", "O_double"), Ref("re", "E_u16"), Ref("rs", "S_u32"), Ref("rc", "Inner"),
        Ref("rk", "C_str"), Ref("ra", "A_u8_3"),
        Composite("nested", [Type("n1", "uint8"), Type("n2", "double", offset=4),
                             Composite("deep", [Type("d1", "int16"), Type("d2", "char", length=2, offset=3)])], offset=64),
        Type("tail", "float", offset=100, presence="optional"),
    ])
    types.append(comp)
    types.append(Composite("OnlyConst", [Type("k1", "uint8", presence="constant", const="1"),
                                         Type("k2", "char", presence="constant", const="zz")]))
    types.append(Composite("EmptyComp", []))
    fields += [Field("f_comp", nid(), "Comp"), Field("f_inner", nid(), "Inner"), Field("f_onlyconst", nid(), "OnlyConst"),
               Field("f_emptycomp", nid(), "EmptyComp"), Field("f_last", nid(), "uint8")]
    gflat = Group("flat", nid(), fields=[Field("a", nid(), "uint32"), Field("e", nid(), "E_char"), Field("c", nid(), "Inner"),
                                         Field("s", nid(), "A_char5"), Field("o", nid(), "O_int16")])
    gnest = Group("nest", nid(), fields=[Field("a", nid(), "T_double"), Field("st", nid(), "S_u64")],
                  groups=[Group("in1", nid(), fields=[Field("v", nid(), "int64")]),
                          Group("in2", nid(), fields=[Field("w", nid(), "uint8")], data=[Data("ds", nid(), "varStr8")])],
                  data=[Data("d1", nid(), "varBin16"), Data("d2", nid(), "varDataEncoding")])
    m_all = Message("all", 1, fields=fields, groups=[gflat, gnest],
                    data=[Data("text", nid(), "varStr8"), Data("blob", nid(), "varDataEncoding")])
    m_small = Message("small", 2, fields=[Field("x", nid(), "uint16"), Field("y", nid(), "O_int32")])
    return Schema(package, id=7, version=3, byte_order=byte_order, types=types, messages=[m_all, m_small],
                  semantic_version="1.2.3", description="covering corpus: primitives")


def corpus_headers(package="hdrs", byte_order=None):
    """Level headers: every unsigned width, reordered members, gaps, extra members, ref-typed members, counters."""
    nid = _ids()
    types = [
        # message header: reordered, custom offsets (gaps), extra member, ref-typed members, counters
        Type("U8", "uint8"), Type("U16", "uint16"), Type("U32", "uint32"), Type("U64", "uint64"),
        Composite("hdr", [Type("version", "uint8"), Type("extra", "uint16", offset=2), Ref("schemaId", "U32", offset=4),
                          Type("numGroups", "uint8", offset=9), Type("templateId", "uint64", offset=12),
                          Ref("blockLength", "U16"), Ref("numVarDataFields", "U16"), Type("pad", "char", length=3)]),
    ]
    dims = []
    for n in UNSIGNED:
        for b in UNSIGNED:
            nm = "d_%s_%s" % (n[4:], b[4:])
            dims.append(nm)
            types.append(Composite(nm, [Type("blockLength", b), Type("numInGroup", n)]))
    types += [
        Composite("d_rev", [Type("numInGroup", "uint16"), Type("blockLength", "uint8")]),
        Composite("d_gap", [Type("blockLength", "uint16", offset=1), Type("filler", "uint8"), Type("numInGroup", "uint32", offset=8)]),
        Composite("d_cnt", [Type("blockLength", "uint16"), Type("numInGroup", "uint16"), Type("numGroups", "uint16"),
                            Type("numVarDataFields", "uint8")]),
        Composite("d_ref", [Ref("blockLength", "U32"), Ref("numInGroup", "U8")]),
        Composite("d_cntref", [Ref("blockLength", "U16"), Ref("numInGroup", "U8"), Ref("numGroups", "U8"),
                               Ref("numVarDataFields", "U32")]),
        Composite("d_opt", [Type("blockLength", "uint16", presence="optional"), Type("numInGroup", "uint8", presence="optional")]),
        # exactly one of the two optional counters (added after seeded change C17-4: they are independent)
        Composite("d_ng", [Type("blockLength", "uint16"), Type("numInGroup", "uint8"), Type("numGroups", "uint16")]),
        Composite("d_nv", [Type("numVarDataFields", "uint16"), Type("blockLength", "uint8"), Type("numInGroup", "uint16")]),
    ]
    vds = []
    for l in UNSIGNED:
        for e in ("char", "uint8", "int8"):
            nm = "v_%s_%s" % (l[4:], e)
            vds.append(nm)
            types.append(Composite(nm, [Type("length", l), Type("varData", e, length=0)]))
    types.append(Composite("v_ref", [Ref("length", "U16"), Type("varData", "uint8", length=0)]))
    msgs = []
    # one message per group of four dimension pairs keeps messages small
    k = 0
    for i in range(0, len(dims), 4):
        groups = []
        for d in dims[i:i + 4]:
            groups.append(Group("g_" + d, nid(), fields=[Field("x", nid(), "uint16"), Field("y", nid(), "uint8")], dimension_type=d))
        msgs.append(Message("dimsF%d" % k, 10 + k, fields=[Field("f", nid(), "uint32")], groups=groups))
        k += 1
    k = 0
    for i in range(0, len(dims), 4):
        groups = []
        for j, d in enumerate(dims[i:i + 4]):
            groups.append(Group("n_" + d, nid(), fields=[Field("x", nid(), "uint8")], dimension_type=d,
                                groups=[Group("in", nid(), fields=[Field("z", nid(), "int8")], dimension_type=dims[(i + j + 5) % 16])],
                                data=[Data("dd", nid(), vds[(i + j) % len(vds)])]))
        msgs.append(Message("dimsN%d" % k, 20 + k, groups=groups))
        k += 1
    msgs.append(Message("special", 30, fields=[Field("f", nid(), "uint8")],
                        groups=[Group("rev", nid(), fields=[Field("a", nid(), "uint16")], dimension_type="d_rev"),
                                Group("gap", nid(), fields=[Field("a", nid(), "uint16")], dimension_type="d_gap",
                                      data=[Data("gd", nid(), "v_ref")]),
                                Group("cnt", nid(), fields=[Field("a", nid(), "uint16")], dimension_type="d_cnt",
                                      groups=[Group("c1", nid(), dimension_type="d_cnt"), Group("c2", nid(), dimension_type="d_rev")],
                                      data=[Data("x1", nid(), "v_8_char"), Data("x2", nid(), "v_16_uint8"), Data("x3", nid(), "v_ref")]),
                                Group("ref", nid(), fields=[Field("a", nid(), "uint16")], dimension_type="d_ref"),
                                Group("cntref", nid(), fields=[Field("a", nid(), "uint16")], dimension_type="d_cntref",
                                      groups=[Group("r1", nid(), dimension_type="d_cntref",
                                                    data=[Data("y1", nid(), "v_8_char")])],
                                      data=[Data("y2", nid(), "v_16_uint8"), Data("y3", nid(), "v_ref")]),
                                Group("opt", nid(), fields=[Field("a", nid(), "uint16")], dimension_type="d_opt"),
                                Group("ng", nid(), fields=[Field("a", nid(), "uint16")], dimension_type="d_ng",
                                      groups=[Group("ng1", nid(), dimension_type="d_nv"), Group("ng2", nid(), dimension_type="d_ng")],
                                      data=[Data("ngd", nid(), "v_8_char")]),
                                Group("nv", nid(), fields=[Field("a", nid(), "uint16")], dimension_type="d_nv",
                                      groups=[Group("nv1", nid(), dimension_type="d_ng", data=[Data("nvd0", nid(), "v_ref")])],
                                      data=[Data("nvd1", nid(), "v_8_char"), Data("nvd2", nid(), "v_16_uint8")])],
                        data=[Data("m1", nid(), "v_ref"), Data("m2", nid(), "v_64_int8")]))
    k = 0
    for i in range(0, len(vds), 4):
        msgs.append(Message("vd%d" % k, 40 + k, data=[Data("d_" + v, nid(), v) for v in vds[i:i + 4]]))
        k += 1
    return Schema(package, id=60000, version=200, byte_order=byte_order, types=types, messages=msgs, header_type="hdr",
                  description="covering corpus: level headers")


def corpus_layout(package="layout", byte_order=None):
    """Custom offsets / explicit block lengths at every level, empty levels, deep nesting, several groups and data."""
    nid = _ids()
    hdr = std_header()
    # a message header that declares exactly one of the optional counters (which one depends on the byte order flavour)
    hdr.elements.append(Type("numVarDataFields", "uint16") if byte_order == "bigEndian" else Type("numGroups", "uint8"))
    types = [hdr, std_dimension(), std_vardata(),
             Composite("P", [Type("a", "uint8"), Type("b", "uint32", offset=3), Composite("q", [Type("c", "int16", offset=2)], offset=9)]),
             Type("K", "uint8", presence="constant", const="5"),
             Enum("LE", "uint8", [EnumValue("A", "1"), EnumValue("B", "2")]),
             SetT("LS", "uint16", [Choice("x", 0), Choice("y", 9)]),
             Type("LArr", "char", length=3), Type("LOpt", "int16", presence="optional")]
    deep = Group("l1", nid(), block_length=12,
                 fields=[Field("a", nid(), "uint16", offset=1), Field("b", nid(), "uint8", offset=7)],
                 groups=[Group("l2", nid(), fields=[Field("c", nid(), "uint32", offset=2)],
                               groups=[Group("l3", nid(), block_length=5, fields=[Field("d", nid(), "uint8")],
                                             data=[Data("dd", nid(), "varDataEncoding")]),
                                       Group("l3b", nid(), fields=[Field("k", nid(), "K"), Field("z", nid(), "uint8")])],
                               data=[Data("d2a", nid(), "varDataEncoding"), Data("d2b", nid(), "varDataEncoding")]),
                         Group("l2empty", nid()),
                         Group("l2const", nid(), fields=[Field("k", nid(), "K"), Field("k2", nid(), "K")]),
                         Group("l2big", nid(), block_length=9, fields=[Field("v", nid(), "uint8")])],
                 data=[Data("d1", nid(), "varDataEncoding")])
    msgs = [
        Message("offs", 1, block_length=40,
                fields=[Field("a", nid(), "uint8", offset=2), Field("k", nid(), "K"), Field("p", nid(), "P", offset=5),
                        Field("b", nid(), "uint64", offset=24), Field("c", nid(), "uint8")],
                groups=[deep, Group("after", nid(), fields=[Field("x", nid(), "uint8")])],
                data=[Data("m1", nid(), "varDataEncoding"), Data("m2", nid(), "varDataEncoding"), Data("m3", nid(), "varDataEncoding")]),
        Message("exact", 2, block_length=3, fields=[Field("a", nid(), "uint8"), Field("b", nid(), "uint16")]),
        Message("empty", 3),
        Message("emptyBL", 4, block_length=6),
        Message("onlyConst", 5, fields=[Field("k", nid(), "K")]),
        Message("onlyData", 6, data=[Data("d", nid(), "varDataEncoding"), Data("e", nid(), "varDataEncoding")]),
        Message("onlyGroups", 7, groups=[Group("g1", nid(), fields=[Field("x", nid(), "uint8")]), Group("g2", nid()),
                                         Group("g3", nid(), groups=[Group("gg", nid(), data=[Data("d", nid(), "varDataEncoding")])])]),
        Message("lastOffset", 8, fields=[Field("a", nid(), "uint8"), Field("b", nid(), "uint16", offset=10)],
                groups=[Group("g", nid(), fields=[Field("x", nid(), "uint8", offset=3)], block_length=8)]),
        # levels whose LAST schema field is a constant while the block is padded beyond the last encoded field:
        # "last field" (whose cursor accessor jumps to the block end) must mean the last *encoded* one
        Message("trailConst", 9, block_length=14,
                fields=[Field("a", nid(), "uint32"), Field("b", nid(), "uint16"), Field("k", nid(), "K")],
                groups=[Group("flat", nid(), block_length=16,
                              fields=[Field("price", nid(), "uint64"), Field("qty", nid(), "uint16"), Field("k", nid(), "K")]),
                        Group("nest", nid(), block_length=7,
                              fields=[Field("k0", nid(), "K"), Field("v", nid(), "uint16"), Field("k1", nid(), "K"), Field("k2", nid(), "K")],
                              groups=[Group("in", nid(), block_length=4, fields=[Field("w", nid(), "uint8"), Field("k", nid(), "K")])])],
                data=[Data("tail", nid(), "varDataEncoding")]),
        # every kind of member as the LAST encoded field of a level (sbeppc generates the last field's cursor accessors
        # separately per kind: they jump to the block end), with padded and exact blocks, also followed by a constant
        # (added after seeded change C11-4: the enum flavour of that generator was never instantiated by a quick run)
        Message("lastKinds", 10, block_length=6, fields=[Field("a", nid(), "uint8"), Field("e", nid(), "LE")],
                groups=[Group("gEnum", nid(), block_length=5, fields=[Field("x", nid(), "uint8"), Field("e", nid(), "LE")]),
                        Group("gSet", nid(), fields=[Field("x", nid(), "uint8"), Field("s", nid(), "LS")]),
                        Group("gArr", nid(), block_length=7, fields=[Field("x", nid(), "uint8"), Field("r", nid(), "LArr")]),
                        Group("gOpt", nid(), block_length=4, fields=[Field("x", nid(), "uint8"), Field("o", nid(), "LOpt")]),
                        Group("gComp", nid(), block_length=16, fields=[Field("x", nid(), "uint8"), Field("p", nid(), "P")]),
                        Group("gEnumK", nid(), block_length=4,
                              fields=[Field("x", nid(), "uint8"), Field("e", nid(), "LE"), Field("k", nid(), "K")]),
                        Group("gSetOnly", nid(), fields=[Field("s", nid(), "LS")],
                              groups=[Group("inEnum", nid(), block_length=3, fields=[Field("e", nid(), "LE")])])]),
    ]
    return Schema(package, id=2, version=1, byte_order=byte_order, types=types, messages=msgs,
                  description="covering corpus: offsets and block lengths")


_corpus_cache = None


def corpus_attrs(package="attrs", byte_order=None):
    """Attribute matrix for the traits check: every entity kind (public type, enum + values, set + choices, composite
    + inline elements + refs, message, field, group, data) in four attribute variants {none, sinceVersion, sinceVersion
    + deprecated, description + semanticType}, refs and fields x targets that are / are not versioned themselves."""
    nid = _ids()
    V = [dict(), dict(since=3), dict(since=1, deprecated=2), dict(description="some text", semantic_type="Sem")]

    def ap(node, k):
        for a, v in V[k].items():
            setattr(node, a, v)
        return node

    types = [std_header(), std_dimension(), std_vardata()]
    tnames, enames, snames, cnames = [], [], [], []
    for k in range(4):
        types.append(ap(Type("T%d" % k, ["uint16", "int32", "char", "double"][k], presence=[None, "optional", None, None][k]), k))
        tnames.append("T%d" % k)
        types.append(ap(Type("Arr%d" % k, "char", length=3 + k, char_encoding=[None, "ASCII", None, "UTF-8"][k]), k))
        e = ap(Enum("E%d" % k, ["uint8", "char", "uint16", "int8"][k], []), k)
        for j in range(4):
            # E0: decimal values written with leading zeros (010 is ten, 08 eight)
            e.values.append(ap(EnumValue("v%d" % j, chr(65 + j) if e.encoding == "char" else (["000", "08", "010", "011"][j] if k == 0 else str(j))),
                               (j + k) % 4))
        types.append(e)
        enames.append(e.name)
        s = ap(SetT("S%d" % k, UNSIGNED[k], []), k)
        for j in range(4):
            s.choices.append(ap(Choice("c%d" % j, j * 2), (j + k) % 4))
        types.append(s)
        snames.append(s.name)
        c = ap(Composite("Inner%d" % k, [ap(Type("a", "uint8"), k), ap(Type("b", "int16", presence="optional"), (k + 1) % 4)]), k)
        types.append(c)
        cnames.append(c.name)
    # composite with inline elements of every kind in every variant and refs to (un)versioned targets of every kind
    elems = []
    for k in range(4):
        elems.append(ap(Type("it%d" % k, "uint32"), k))
        ie = ap(Enum("ie%d" % k, "uint8", [ap(EnumValue("x", "1"), k), EnumValue("y", "2")]), k)
        elems.append(ie)
        isx = ap(SetT("is%d" % k, "uint8", [ap(Choice("p", 0), k), Choice("q", 7)]), k)
        elems.append(isx)
        elems.append(ap(Composite("ic%d" % k, [ap(Type("m", "int8"), k), Type("n", "uint8")]), k))
        for tgt_k in (0, 1):                       # target without / with sinceVersion
            elems.append(ap(Ref("rt%d_%d" % (k, tgt_k), "T%d" % tgt_k), k))
            elems.append(ap(Ref("re%d_%d" % (k, tgt_k), "E%d" % tgt_k), k))
            elems.append(ap(Ref("rs%d_%d" % (k, tgt_k), "S%d" % tgt_k), k))
            elems.append(ap(Ref("rc%d_%d" % (k, tgt_k), "Inner%d" % tgt_k), k))
    types.append(Composite("Outer", elems, description="outer"))
    msgs = []
    for k in range(4):
        fields = []
        for j in range(4):
            fields.append(ap(Field("fp%d" % j, nid(), ["uint8", "int64", "float", "char"][j]), (j + k) % 4))
            fields.append(ap(Field("ft%d" % j, nid(), "T%d" % j), (j + k + 1) % 4))
            fields.append(ap(Field("fe%d" % j, nid(), "E%d" % j), (j + k + 2) % 4))
            fields.append(ap(Field("fs%d" % j, nid(), "S%d" % j), (j + k + 3) % 4))
            fields.append(ap(Field("fc%d" % j, nid(), "Inner%d" % j), (j + k) % 4))
        if k == 0:
            fields.append(Field("outer", nid(), "Outer"))
        groups = []
        for j in range(4):
            inner = ap(Group("in%d" % j, nid(), [ap(Field("z", nid(), "T%d" % j), (j + 1) % 4)], [], [ap(Data("dz", nid(), "varDataEncoding"), j)]), (j + 2) % 4)
            groups.append(ap(Group("g%d" % j, nid(), [ap(Field("x", nid(), "uint16"), j), ap(Field("y", nid(), "E%d" % j), (j + k) % 4)], [inner], []), (j + k) % 4))
        data = [ap(Data("d%d" % j, nid(), "varDataEncoding"), (j + k) % 4) for j in range(4)]
        msgs.append(ap(Message("M%d" % k, 10 + k, fields, groups, data), k))
    # field `presence` x kind of the field's type: the effective presence is the type's for <type>, the field's own for
    # composites, required for sets, never optional for enums (added after seeded change C18-4: no generated field of
    # a non-primitive type carried a presence attribute)
    types.append(Type("PK", "uint8", presence="constant", const="3"))
    pf = []
    for pres in (None, "required", "optional"):
        sfx = {None: "n", "required": "r", "optional": "o"}[pres]
        for tn_, tt in (("req", "T0"), ("opt", "T1"), ("arr", "Arr0"), ("enum", "E0"), ("set", "S0"), ("comp", "Inner0"),
                        ("comp2", "Outer"), ("const", "PK"), ("prim", "int32")):
            pf.append(Field("p_%s_%s" % (tn_, sfx), nid(), tt, presence=pres))
    msgs.append(Message("presM", 20, pf, [Group("pg", nid(), [Field("c_o", nid(), "Inner1", presence="optional"),
                                                              Field("c_r", nid(), "Inner1", presence="required"),
                                                              Field("e_o", nid(), "E1", presence="optional")], [], [])], []))
    from . import refmodel
    s = Schema(package, id=9, version=5, byte_order=byte_order, types=types, messages=msgs, semantic_version="5.0",
               description="covering corpus: attribute matrix", name=package)
    refmodel.fix_offsets(s)
    refmodel.fit_ids_to_header(s)
    return s


def corpus():
    global _corpus_cache
    if _corpus_cache is None:
        _corpus_cache = [corpus_prims("prims_le"), corpus_prims("prims_be", "bigEndian"), corpus_headers("hdrs_le"),
                         corpus_headers("hdrs_be", "bigEndian"), corpus_layout("layout_le"),
                         corpus_layout("layout_be", "bigEndian")]
    return [s.clone() for s in _corpus_cache]


# ----------------------------------------------------------------------------- seeded random schemas

SAFE_NAMES = ["alpha", "beta", "gamma", "delta", "eps", "zeta", "eta", "theta", "iota", "kappa", "lam", "mu", "nu", "xi",
              "omi", "pi_", "rho", "sigma", "tau", "ups", "phi", "chi", "psi", "omega"]


def _int_range(p):
    n = PRIM_SIZE[p] * 8
    if p.startswith("uint"):
        return 0, 2 ** n - 1
    return -(2 ** (n - 1)), 2 ** (n - 1) - 1


class _Gen:
    def __init__(self, rng, package):
        self.r = rng
        self.package = package
        self.types = []
        self.nid = _ids()
        self.used = set()

    def name(self, prefix):
        for _ in range(1000):
            n = "%s_%s%d" % (prefix, self.r.choice(SAFE_NAMES), self.r.randrange(100))
            if n.lower() not in self.used:
                self.used.add(n.lower())
                return n
        raise C.HarnessError("name pool exhausted")

    def attrs(self, node):
        r = self.r
        if r.random() < 0.2:
            node.description = r.choice(["a description", "x", "descr with spaces", ""])
        if r.random() < 0.2:
            node.since = r.randrange(0, 4)
        if r.random() < 0.1:
            node.deprecated = r.randrange(0, 4)
        return node

    def scalar_type(self, inline=False):
        r = self.r
        p = r.choice(PRIMS)
        pres = r.choice([None, None, "required", "optional"])
        t = Type(self.name("t") if not inline else None, p, presence=pres)
        if p in INT_PRIMS and r.random() < 0.3:
            lo, hi = _int_range(p)
            if p == "char":
                lo, hi = -128, 127
            t.min = str(r.randint(lo, hi))
            t.max = str(r.randint(lo, hi))
            if pres == "optional":
                t.null = str(r.randint(lo, hi))
        elif p not in INT_PRIMS and r.random() < 0.3:
            t.min = r.choice(["-1.5", "0.0", "-INF", "1e-5"])
            t.max = r.choice(["1.5", "INF", "1e30", "255.0"])
            if pres == "optional":
                t.null = r.choice(["NaN", "-1.0", "0.0"])
        return self.attrs(t)

    def array_type(self, inline=False):
        r = self.r
        t = Type(self.name("a") if not inline else None, r.choice(["char", "uint8", "int8"]), length=r.choice([0, 2, 3, 4, 7, 16]))
        if r.random() < 0.2:
            t.char_encoding = "ASCII"
        return self.attrs(t)

    def const_type(self, inline=False):
        r = self.r
        k = r.randrange(5)
        n = self.name("k") if not inline else None
        if k == 4:
            enums = [t for t in self.types if t.kind == "enum" and t.values]
            if enums:
                e = r.choice(enums)
                ev = r.choice(e.values)
                ep = e.encoding if e.encoding in PRIM_SIZE else "uint8"
                if ep == "char":
                    return Type(n, "char", presence="constant", value_ref="%s.%s" % (e.name, ev.name))
                lo, hi = _int_range(ep)
                # pick a primitive that can represent the enumerator
                v = int(ev.value)
                cands = [p for p in INT_PRIMS if p != "char" and _int_range(p)[0] <= v <= _int_range(p)[1]]
                if cands:
                    return Type(n, r.choice(cands), presence="constant", value_ref="%s.%s" % (e.name, ev.name))
            k = 0
        if k == 0:
            p = r.choice([x for x in INT_PRIMS if x != "char"])
            lo, hi = _int_range(p)
            return Type(n, p, presence="constant", const=str(r.choice([lo, hi, 0, 1, r.randint(lo, hi)])))
        if k == 1:
            return Type(n, "char", presence="constant", const=r.choice(["Q", "ab", "hello world", "z9"]))
        if k == 2:
            s = r.choice(["ab", "xyz"])
            return Type(n, "char", presence="constant", const=s, length=len(s) + r.randrange(0, 4))
        return Type(n, r.choice(["float", "double"]), presence="constant", const=r.choice(["1.5", "-0.25", "1e3", "0.0"]))

    def enum_type(self, inline=False):
        r = self.r
        enc = r.choice(INT_PRIMS)
        vals = []
        used = set()
        for i in range(r.randrange(0, 5)):
            if enc == "char":
                v = r.choice("ABCDEFGHabcdefgh0123456789")
            else:
                lo, hi = _int_range(enc)
                v = str(r.choice([lo, hi, 0, 1, r.randint(lo, hi)]))
            if v in used:
                continue
            used.add(v)
            vals.append(self.attrs(EnumValue("v%d" % i, v)))
        return self.attrs(Enum(self.name("e") if not inline else None, enc, vals))

    def set_type(self, inline=False):
        r = self.r
        enc = r.choice(UNSIGNED)
        w = PRIM_SIZE[enc] * 8
        idx = r.sample(range(w), r.randrange(0, min(w, 6) + 1))
        return self.attrs(SetT(self.name("s") if not inline else None, enc, [self.attrs(Choice("c%d" % i, i)) for i in idx]))

    def composite_type(self, depth=0, inline=False):
        r = self.r
        elems = []
        names = set()
        off_pressure = r.random() < 0.4
        for i in range(r.randrange(0 if depth else 1, 6)):
            k = r.randrange(9)
            if k <= 1:
                e = self.scalar_type(inline=True)
            elif k == 2:
                e = self.array_type(inline=True)
            elif k == 3:
                e = self.const_type(inline=True)
            elif k == 4:
                e = self.enum_type(inline=True)
            elif k == 5:
                e = self.set_type(inline=True)
            elif k == 6 and depth < 2:
                e = self.composite_type(depth + 1, inline=True)
            else:
                cands = [t for t in self.types if t.kind != "composite" or depth == 0]
                if not cands:
                    continue
                e = Ref(None, r.choice(cands).name)
            e.name = "m%d" % i
            if off_pressure and r.random() < 0.5 and not (e.kind == "type" and e.is_const()):
                e.offset = "+%d" % r.randrange(0, 5)   # resolved to absolute by fix_offsets
            elems.append(e)
        return self.attrs(Composite(self.name("c") if not inline else None, elems))

    def level(self, depth, dims, vds, field_types):
        r = self.r
        fields, groups, data = [], [], []
        for i in range(r.randrange(0, 7 if depth == 0 else 4)):
            tname = r.choice(field_types)
            f = Field("f%d" % i, self.nid(), tname)
            t = self.type_by_name(tname)
            if tname in PRIMS:
                f.presence = r.choice([None, "required", "optional"])
            elif t is not None and t.kind == "enum" and r.random() < 0.15 and t.values:
                f.presence = "constant"
                f.value_ref = "%s.%s" % (t.name, r.choice(t.values).name)
            elif t is not None and t.kind in ("enum", "set") and r.random() < 0.2:
                f.presence = "optional"
            if r.random() < 0.25:
                f.offset = "+%d" % r.randrange(0, 6)
            fields.append(self.attrs(f))
        if depth < 3:
            for i in range(r.choice([0, 0, 1, 1, 2, 3]) if depth < 2 else r.choice([0, 0, 1])):
                fs, gs, ds = self.level(depth + 1, dims, vds, field_types)
                g = Group("g%d" % i, self.nid(), fs, gs, ds, dimension_type=r.choice(dims))
                if r.random() < 0.3:
                    g.block_length = "+%d" % r.randrange(0, 7)
                groups.append(self.attrs(g))
        for i in range(r.choice([0, 0, 1, 2])):
            data.append(self.attrs(Data("d%d" % i, self.nid(), r.choice(vds))))
        return fields, groups, data

    def type_by_name(self, n):
        for t in self.types:
            if t.name == n:
                return t
        return None


def random_schema(seed, idx):
    """A seeded random schema inside the documented domain (DESIGN 2.2).  Relative offsets ('+n') are
    resolved to absolute ones by refmodel.fix_offsets()."""
    from . import refmodel
    rng = C.rng_for(seed, "schema", idx)
    pkg = "rnd%d_%d" % (seed % 100000, idx)
    g = _Gen(rng, pkg)
    u = UNSIGNED
    hdr = Composite("messageHeader", [Type("blockLength", rng.choice(u[1:])), Type("templateId", rng.choice(u)),
                                      Type("schemaId", rng.choice(u)), Type("version", rng.choice(u))])
    if rng.random() < 0.3:
        hdr.elements.append(Type("numGroups", rng.choice(u)))
        hdr.elements.append(Type("numVarDataFields", rng.choice(u)))
    if rng.random() < 0.3:
        rng.shuffle(hdr.elements)
    g.types.append(hdr)
    dims, vds = [], []
    for i in range(rng.randrange(1, 4)):
        d = Composite("groupSizeEncoding" if i == 0 else "dim%d" % i,
                      [Type("blockLength", rng.choice(u)), Type("numInGroup", rng.choice(u))])
        if rng.random() < 0.25:
            d.elements.append(Type("numGroups", rng.choice(u)))
            d.elements.append(Type("numVarDataFields", rng.choice(u)))
        if rng.random() < 0.25:
            d.elements.reverse()
        g.types.append(d)
        dims.append(d.name)
    for i in range(rng.randrange(1, 4)):
        v = Composite("varDataEncoding" if i == 0 else "vd%d" % i,
                      [Type("length", rng.choice(u)), Type("varData", rng.choice(["char", "uint8", "int8"]), length=0)])
        g.types.append(v)
        vds.append(v.name)
    for i in range(rng.randrange(4, 12)):
        k = rng.randrange(7)
        t = [g.scalar_type, g.scalar_type, g.array_type, g.const_type, g.enum_type, g.set_type, g.composite_type][k]()
        g.types.append(t)
    field_types = [t.name for t in g.types if t.name not in dims + vds + ["messageHeader"]] + rng.sample(PRIMS, 4)
    msgs = []
    for i in range(rng.randrange(1, 4)):
        fs, gs, ds = g.level(0, dims, vds, field_types)
        m = Message("Msg%d" % i, rng.choice([i + 1, 200 + i, 65000 + i]), fs, gs, ds)
        if rng.random() < 0.3:
            m.block_length = "+%d" % rng.randrange(0, 9)
        msgs.append(g.attrs(m))
    bo = rng.choice([None, "littleEndian", "bigEndian"])
    s = Schema(pkg, id=rng.choice([1, 255, 65535]), version=rng.choice([0, 1, 5, 255]), byte_order=bo, types=g.types,
               messages=msgs, description=rng.choice([None, "random schema"]))
    # some level-header members (mandatory ones and the optional counters) become <ref>s to public types;
    # drawn from a separate stream so that the shape of the schema does not depend on it
    r2 = C.rng_for(seed, "schema-hdr-refs", idx)
    helpers = {}
    for comp in [x for x in g.types if isinstance(x, Composite) and x.name in dims + vds + ["messageHeader"]]:
        for i, e in enumerate(comp.elements):
            if isinstance(e, Type) and e.length is None and e.presence is None and r2.random() < 0.2:
                hn = "HdrRef_" + e.prim
                helpers.setdefault(hn, Type(hn, e.prim))
                comp.elements[i] = Ref(e.name, hn, offset=e.offset)
    s.types = list(helpers.values()) + s.types
    # header value ranges: ids/versions must fit the header member types
    refmodel.fix_offsets(s)
    refmodel.fit_ids_to_header(s)
    return s


def random_schemas(seed, count):
    return [random_schema(seed, i) for i in range(count)]


# ----------------------------------------------------------------------------- name-clash schemas (C07)

CLASH_POOL = ["types", "messages", "schema", "detail", "min_value", "max_value", "null_value", "blockLength", "numInGroup",
              "entry", "A", "A_0", "A_1", "A_entry", "A_0_entry", "A_1_entry", "B", "B_0", "B_entry", "g", "g_0", "g_entry",
              "types_0", "messages_0", "header", "length", "varData", "sbepp", "cc", "vv", "mm",
              "messageHeader", "groupSizeEncoding", "varDataEncoding", "templateId", "schemaId", "version", "type_list", "tag",
              "field", "group", "data", "composite", "msg", "msg_0"]
# names of members of sbepp's representation base classes: reported as their own finding class (DESIGN section 7, F15)
LIB_MEMBER_POOL = ["value", "value_type", "in_range", "has_value", "value_or", "size", "begin", "end", "strlen", "raw"]


def clash_schema(seed, idx, pool=None, package=None):
    """Small schema whose entity names are all drawn from a fixed pool, so that entity/member/fixed-name and
    mangling collisions (X vs X_0 vs X_entry) occur often.  Names are unique only where SBE requires it."""
    from . import refmodel
    rng = C.rng_for(seed, "clash", idx)
    pool = list(pool or CLASH_POOL)
    pkg = package or "clash%d_%d" % (seed % 100000, idx)
    reserved = {"messageheader", "groupsizeencoding", "vardataencoding"}

    def pick(used, n=1):
        out = []
        for _ in range(200):
            if len(out) == n:
                break
            c = rng.choice(pool)
            if c.lower() in used:
                continue
            used.add(c.lower())
            out.append(c)
        return out

    types = [std_header(), std_dimension(), std_vardata()]
    used_types = set(reserved)
    tnames = pick(used_types, rng.randrange(5, 10))
    for tn in tnames:
        k = rng.randrange(7)
        eu = set()
        if k == 0:
            types.append(Type(tn, rng.choice(PRIMS), presence=rng.choice([None, "optional"])))
        elif k == 1:
            types.append(Type(tn, "char", length=rng.choice([2, 4])))
        elif k == 2:
            types.append(Enum(tn, rng.choice(["uint8", "char", "int16"]), []))
            e = types[-1]
            for i, vn in enumerate(pick(eu, rng.randrange(1, 4))):
                e.values.append(EnumValue(vn, chr(65 + i) if e.encoding == "char" else str(i)))
        elif k == 3:
            types.append(SetT(tn, rng.choice(UNSIGNED), []))
            st = types[-1]
            for i, cn in enumerate(pick(eu, rng.randrange(1, 4))):
                st.choices.append(Choice(cn, i))
        elif k == 4:
            types.append(Type(tn, "uint16", presence="constant", const="7"))
        else:
            elems = []
            for en in pick(eu, rng.randrange(1, 5)):
                kk = rng.randrange(6)
                if kk == 0:
                    elems.append(Type(en, rng.choice(PRIMS), presence=rng.choice([None, "optional"])))
                elif kk == 1:
                    iu = set()
                    ee = Enum(en, "uint8", [])
                    for i, vn in enumerate(pick(iu, rng.randrange(1, 3))):
                        ee.values.append(EnumValue(vn, str(i)))
                    elems.append(ee)
                elif kk == 2:
                    iu = set()
                    ss = SetT(en, "uint8", [])
                    for i, cn in enumerate(pick(iu, rng.randrange(1, 3))):
                        ss.choices.append(Choice(cn, i))
                    elems.append(ss)
                elif kk == 3:
                    iu = set()
                    elems.append(Composite(en, [Type(x, "uint8") for x in pick(iu, rng.randrange(1, 3))]))
                elif kk == 4 and len(types) > 3:
                    cands = [t for t in types[3:] if t.kind != "composite"]
                    elems.append(Ref(en, rng.choice(cands).name) if cands else Type(en, "int8"))
                else:
                    elems.append(Type(en, "char", length=3))
            types.append(Composite(tn, elems))
    ftypes = [t.name for t in types[3:]] + ["uint8", "int32", "char"]
    nid = _ids()

    def level(depth):
        lu = set()
        fields = [Field(n, nid(), rng.choice(ftypes)) for n in pick(lu, rng.randrange(0, 4))]
        groups = []
        if depth < 2:
            for n in pick(lu, rng.choice([0, 1, 1, 2])):
                fs, gs, ds = level(depth + 1)
                groups.append(Group(n, nid(), fs, gs, ds))
        data = [Data(n, nid(), "varDataEncoding") for n in pick(lu, rng.choice([0, 0, 1]))]
        return fields, groups, data

    msgs = []
    used_msgs = set()
    for i, mn in enumerate(pick(used_msgs, rng.randrange(2, 5))):
        fs, gs, ds = level(0)
        msgs.append(Message(mn, i + 1, fs, gs, ds))
    s = Schema(pkg, id=1, version=1, types=types, messages=msgs, byte_order=rng.choice([None, "bigEndian"]),
               description="name clash schema", name=pkg)
    refmodel.fix_offsets(s)
    refmodel.fit_ids_to_header(s)
    return s


def clash_schemas(seed, count):
    return [clash_schema(seed, i) for i in range(count)]


def self_clash_schema(package="selfclash"):
    """Deterministic schema in which every kind of entity shares its name with one of its own members, with a fixed name
    (`types`, `messages`, `schema`) or with an inline type of another composite -- the situations in which sbeppc has to
    mangle the name of a *type* class.  The line coverage of sbeppc (tools/coverage_sbeppc.sh) showed that the quick
    tier reached the mangling of public composites, of inline array types and of the `types` tag only by luck of the
    seeded clash schemas."""
    from . import refmodel
    nid = _ids()
    types = [std_header(), std_dimension(), std_vardata(),
             # composite named like its element; element kinds: type, array, enum, set, composite, ref
             Composite("CA", [Type("CA", "uint16"), Type("x", "uint8")]),
             Composite("CB", [Composite("CB", [Type("CB", "int8"), Type("y", "uint8")]), Type("z", "uint8")]),
             Composite("CC", [Type("CC", "char", length=3), Type("w", "uint8")]),
             Composite("CD", [Enum("CD", "uint8", [EnumValue("CD", "1"), EnumValue("o", "2")]), Type("v", "uint8")]),
             Composite("CE", [SetT("CE", "uint8", [Choice("CE", 0), Choice("p", 3)]), Type("u", "uint8")]),
             Type("RT", "uint32"),
             Composite("CF", [Ref("CF", "RT"), Ref("RT", "RT")]),
             # enum / set named like one of their members
             Enum("EA", "uint8", [EnumValue("EA", "1"), EnumValue("other", "2")]),
             SetT("SA", "uint16", [Choice("SA", 0), Choice("other", 9)]),
             # inline types of the same name in different composites (the second one is mangled: one namespace)
             Composite("I1", [Type("arr", "char", length=4), Enum("e", "uint8", [EnumValue("a", "1")]),
                              SetT("s", "uint8", [Choice("a", 1)]), Composite("c", [Type("m", "uint8")]), Type("t", "int16")]),
             Composite("I2", [Type("arr", "char", length=2), Enum("e", "uint16", [EnumValue("b", "7")]),
                              SetT("s", "uint32", [Choice("b", 31)]), Composite("c", [Type("n", "uint64")]), Type("t", "int64")]),
             # inline type named like a public type
             Composite("I3", [Type("RT", "uint8"), Type("EA", "uint8"), Composite("CA", [Type("q", "uint8")])]),
             # the fixed names
             Type("types", "uint8"), Type("messages", "uint16"), Type("schema", "uint32"), Type("detail", "int8"),
             Composite("tags", [Type("types", "uint8"), Type("messages", "uint8")])]
    tn = [t.name for t in types[3:] if t.name != "RT"] + ["RT"]
    m1 = Message("M1", 1, [Field("f_%d" % i, nid(), n) for i, n in enumerate(tn)],
                 [Group("GX", nid(), [Field("CA", nid(), "CA"), Field("types", nid(), "types")],
                        [Group("GX", nid(), [Field("GX", nid(), "EA")], [], [Data("GX_d", nid(), "varDataEncoding")])], [])],
                 [Data("M1", nid(), "varDataEncoding")])
    # fields named like their type, like the message, like the fixed names
    m2 = Message("messages", 2, [Field("mfield", nid(), "messages"), Field("types", nid(), "types"), Field("schema", nid(), "schema"),
                                 Field("CA", nid(), "CA"), Field("EA", nid(), "EA"), Field("SA", nid(), "SA"), Field("I2", nid(), "I2")],
                 [Group("messages", nid(), [Field("messages", nid(), "uint8")], [], [])], [Data("schema_d", nid(), "varDataEncoding")])
    m3 = Message("types", 3, [Field("types", nid(), "uint8")], [Group("schema", nid(), [Field("types", nid(), "CB")], [], [])], [])
    m4 = Message("schema", 4, [Field("schema", nid(), "CC"), Field("detail", nid(), "detail")], [], [Data("types", nid(), "varDataEncoding")])
    s = Schema(package, id=11, version=2, types=types, messages=[m1, m2, m3, m4], description="self clash schema", name=package)
    refmodel.fix_offsets(s)
    refmodel.fit_ids_to_header(s)
    return s


def internal_names_schema(package="intnames"):
    """Entities named like *locals and parameters of the generated member functions*: `last` (the local of the generated
    size_bytes: `const auto last = last();` for a level whose last group/data member is called `last`) and `args` (the
    parameter pack of the generated by-tag accessors), in every member position, plus `Args`.  Both were pointed out in
    passing by a round-6 sub-agent on the unchanged tree and are repaired in /repo (DESIGN section 7); the names of
    template parameters (`Byte`, `Cursor`, ...) stay outside, see DESIGN 2.2."""
    from . import refmodel
    nid = _ids()
    types = [std_header(), std_dimension(), std_vardata(),
             Composite("cargs", [Type("args", "uint8"), Type("Args", "uint8"), Type("last", "uint16")])]
    vd = "varDataEncoding"
    msgs = [
        # `last` as the last data member / the last group / the last member of an entry / a field
        Message("m_last_data", 1, [Field("x", nid(), "uint8")], [], [Data("first", nid(), vd), Data("last", nid(), vd)]),
        Message("m_last_group", 2, [Field("lastf", nid(), "uint16")],
                [Group("g", nid(), [Field("x", nid(), "uint8")], [], []), Group("last", nid(), [Field("x", nid(), "uint8")], [], [])], []),
        Message("m_last_nested", 3, [Field("x", nid(), "uint8")],
                [Group("outer", nid(), [Field("x", nid(), "uint8")],
                       [Group("last", nid(), [Field("y", nid(), "uint8")], [], [Data("last", nid(), vd)])], [])], []),
        Message("last", 4, [Field("x", nid(), "uint8")], [], [Data("last", nid(), vd)]),
        # `args` / `Args` as field, composite member, group, data
        Message("m_args", 5, [Field("args", nid(), "uint8"), Field("Args", nid(), "cargs"), Field("last", nid(), "uint32")], [], []),
        Message("m_args_group", 6, [Field("x", nid(), "uint8")],
                [Group("args", nid(), [Field("args", nid(), "uint8")], [], [Data("Args", nid(), vd)])], [Data("Args", nid(), vd)]),
        Message("args", 7, [Field("args", nid(), "cargs")], [Group("Args", nid(), [Field("x", nid(), "uint8")], [], [])], []),
    ]
    s = Schema(package, id=12, version=1, types=types, messages=msgs, description="names of generated locals and parameters", name=package)
    refmodel.fix_offsets(s)
    refmodel.fit_ids_to_header(s)
    return s


def const_block_schema(package="constblk"):
    """Levels that declare no encoded field but have an explicit, non-zero blockLength *in the schema itself*: groups whose
    entries hold only constants (flat and nested), an empty group, followed by further groups and data, so that every
    size and every later member depends on the block being stepped over.  The corpus has such groups only with the
    computed block length 0 (`l2const`, `l2empty`), where a missing step is invisible (seeded change C05-6)."""
    from . import refmodel
    nid = _ids()
    types = [std_header(), std_dimension(), std_vardata(), Type("K", "uint8", presence="constant", const="5")]
    msgs = [
        Message("tagged", 1, fields=[Field("seq", nid(), "uint32")],
                groups=[Group("marks", nid(), block_length=8, fields=[Field("k", nid(), "K"), Field("k2", nid(), "K")]),
                        Group("fills", nid(), fields=[Field("x", nid(), "uint16")]),
                        Group("ebl", nid(), block_length=6),
                        Group("outer", nid(), fields=[Field("y", nid(), "uint8")],
                              groups=[Group("kin", nid(), block_length=3, fields=[Field("k", nid(), "K")]),
                                      Group("after", nid(), fields=[Field("z", nid(), "uint8")])],
                              data=[Data("od", nid(), "varDataEncoding")])],
                data=[Data("note", nid(), "varDataEncoding")]),
        Message("constMsg", 2, block_length=5, fields=[Field("k", nid(), "K")],
                groups=[Group("g", nid(), block_length=2, fields=[Field("k", nid(), "K")])], data=[Data("d", nid(), "varDataEncoding")]),
    ]
    s = Schema(package, id=15, version=0, types=types, messages=msgs, description="constant-only levels with explicit block lengths", name=package)
    refmodel.fix_offsets(s)
    refmodel.fit_ids_to_header(s)
    return s


def package_name_clash_schemas():
    """Entities named like the schema itself (the `package` attribute, i.e. the top-level namespace of everything that is
    generated): a message, a nested group, a field and a <data> member in one schema; a public composite, its element
    and an enum in another.  Inside such a class the injected class name hides the namespace, so any generated reference
    that is not anchored at the global namespace breaks (seeded change C07-6)."""
    from . import refmodel
    out = []
    nid = _ids()
    p1 = "pkgmsg"
    out.append(Schema(p1, id=13, version=0, types=[std_header(), std_dimension(), std_vardata()], messages=[
        Message(p1, 1, [Field("a", nid(), "uint8"), Field("b", nid(), "uint16")],
                [Group("g", nid(), [Field("z", nid(), "uint8")], [Group(p1, nid(), [Field("x", nid(), "uint8")], [], [])], [])],
                [Data("d", nid(), "varDataEncoding")]),
        Message("other", 2, [Field(p1, nid(), "uint32")], [Group("h", nid(), [Field("y", nid(), "uint8")], [], [Data(p1, nid(), "varDataEncoding")])], [])],
        description="message, group, field and data named like the package", name=p1))
    nid = _ids()
    p2 = "pkgtype"
    out.append(Schema(p2, id=14, version=0, types=[
        std_header(), std_dimension(), std_vardata(),
        Composite(p2, [Type(p2, "uint16"), Type("x", "uint8"), Enum("e", "uint8", [EnumValue(p2, "1"), EnumValue("o", "2")])]),
        SetT("flags", "uint8", [Choice(p2, 0), Choice("q", 5)])], messages=[
        Message("m", 1, [Field("c", nid(), p2), Field("f", nid(), "flags")], [Group("g", nid(), [Field("c", nid(), p2)], [], [])], [])],
        description="composite, element, enum value and choice named like the package", name=p2))
    for s in out:
        refmodel.fix_offsets(s)
        refmodel.fit_ids_to_header(s)
    return out


def big_header_schema(package="bighdr"):
    """Identifying values beyond 32 bits: schema version, message block length and group block length >= 2^32 in 64-bit
    header members (C17 only: the fillers touch nothing but the header, so no buffer of that size is needed).  Added after
    seeded change C17-5 (generator passed the values through a 32-bit parameter)."""
    u = "uint64"
    types = [Composite("messageHeader", [Type("blockLength", u), Type("templateId", "uint32"), Type("schemaId", "uint32"),
                                         Type("version", u), Type("numGroups", "uint16"), Type("numVarDataFields", "uint16")]),
             Composite("bigDim", [Type("blockLength", u), Type("numInGroup", "uint32")]),
             Composite("bigDimS", [Type("numInGroup", "uint8"), Type("blockLength", "int64")]),
             std_vardata()]
    msgs = [Message("bigBlock", 4000000000, block_length=2 ** 32 + 8, fields=[Field("a", 1, "uint64")]),
            Message("bigBlock63", 2, block_length=2 ** 63 - 1, fields=[Field("a", 2, "uint8")]),
            Message("bigGroup", 3, fields=[Field("a", 3, "uint32")],
                    groups=[Group("g", 4, block_length=2 ** 33 + 16, fields=[Field("x", 5, "uint64")], dimension_type="bigDim",
                                  groups=[Group("in", 6, fields=[Field("y", 7, "uint8")], dimension_type="bigDimS")])],
                    data=[Data("d", 8, "varDataEncoding")]),
            Message("bigGroupS", 4, groups=[Group("g", 9, block_length=2 ** 62 + 3, fields=[Field("x", 10, "uint8")], dimension_type="bigDimS")])]
    s = Schema(package, id=4000000001, version=2 ** 32 + 1, types=types, messages=msgs, description="64-bit identifying values", name=package)
    s.headers_only = True
    return s


# ----------------------------------------------------------------------------- systematic pair clashes (C07)

PAIR_POOL = ["X", "X_entry", "X_0", "X_0_entry", "X_1", "entry", "X_entry_0"]


def pair_clash_schemas(sparse=False):
    """Deterministic schemas in which every ordered pair of names from PAIR_POOL (a name, its `_entry` form, its
    mangled forms `_0`/`_1` and their combinations) meets in every position where the generated code derives class
    names from entity names: sibling groups (both orders), nested groups, group + entry member, message-level field +
    group, group + sibling data member, group + contained data member, and message names against group names.
    Dense form: one schema per position holding all pairs (names also meet across messages).  Sparse form: one
    single-message schema per (position, pair) -- sbeppc's mangling state is per schema, and in a dense schema most
    names are already mangled for another reason, which hides what a fresh schema shows."""
    from . import refmodel
    out = []

    def finish(pkg, msgs):
        s = Schema(pkg, id=7, version=1, types=[std_header(), std_dimension(), std_vardata()], messages=msgs,
                   description="pair clash schema", name=pkg)
        s.light = sparse
        refmodel.fix_offsets(s)
        refmodel.fit_ids_to_header(s)
        out.append(s)

    def build(pkg, make):
        nid = _ids()
        msgs = []
        k = 0
        for a in PAIR_POOL:
            for b in PAIR_POOL:
                lv = make(a, b, nid)
                if lv is None:
                    continue
                fs, gs, ds = lv
                if sparse:
                    finish("%s_%d" % (pkg, k), [Message("M", 1, fs, gs, ds)])
                    k += 1
                    nid = _ids()
                else:
                    msgs.append(Message("M%d" % len(msgs), len(msgs) + 1, fs, gs, ds))
        if not sparse:
            finish(pkg, msgs)

    def grp(n, nid, fields=None, groups=(), data=()):
        return Group(n, nid(), fields if fields is not None else [Field("f", nid(), "uint16")], list(groups), list(data))

    pre = "ps" if sparse else "pc"
    build(pre + "_sib", lambda a, b, nid: None if a == b else ([Field("k", nid(), "uint8")], [grp(a, nid), grp(b, nid)], []))
    build(pre + "_nest", lambda a, b, nid: ([], [grp(a, nid, groups=[grp(b, nid)])], []))
    build(pre + "_member", lambda a, b, nid: ([], [grp(a, nid, fields=[Field(b, nid(), "uint32")])], []))
    build(pre + "_field", lambda a, b, nid: None if a == b else ([Field(b, nid(), "int8")], [grp(a, nid)], []))
    build(pre + "_data", lambda a, b, nid: None if a == b else ([], [grp(a, nid)], [Data(b, nid(), "varDataEncoding")]))
    build(pre + "_indata", lambda a, b, nid: ([], [grp(a, nid, data=[Data(b, nid(), "varDataEncoding")])], []))
    if sparse:
        # a message that shares its name with one of its own members (so the message class gets mangled) while
        # earlier messages' groups already occupy the mangled candidates
        k = 0
        for X in ("X", "X_entry", "X_0"):
            for earlier in ("two-groups-named-X", "group-named-X_0", "group-named-X_0-and-X_1", "none"):
                for member in ("field", "group", "data"):
                    nid = _ids()
                    msgs = []
                    if earlier == "two-groups-named-X":
                        msgs += [Message("E1", 1, [], [grp(X, nid)], []), Message("E2", 2, [], [grp(X, nid)], [])]
                    elif earlier == "group-named-X_0":
                        msgs += [Message("E1", 1, [], [grp(X + "_0", nid)], [])]
                    elif earlier == "group-named-X_0-and-X_1":
                        msgs += [Message("E1", 1, [], [grp(X + "_0", nid), grp(X + "_1", nid)], [])]
                    fs = [Field(X, nid(), "uint16")] if member == "field" else [Field("f", nid(), "uint8")]
                    gs = [grp(X, nid)] if member == "group" else []
                    ds = [Data(X, nid(), "varDataEncoding")] if member == "data" else []
                    msgs.append(Message(X, 9, fs, gs, ds))
                    msgs.append(Message("L1", 10, [], [grp(X, nid)], []))
                    finish("ps_msgself_%d" % k, msgs)
                    k += 1
        return out
    # message names from the pool against group / field / data names
    nid = _ids()
    msgs = []
    for i, a in enumerate(PAIR_POOL):
        others = [x for x in PAIR_POOL if x != a]
        msgs.append(Message(a, i + 1, [Field(others[0], nid(), "uint8")], [grp(x, nid) for x in others[1:4]] + [grp(a + "_g", nid, groups=[grp(a, nid)])],
                            [Data(others[4], nid(), "varDataEncoding")]))
    finish("pc_msg", msgs)
    return out
