"""Shared helpers: paths, seeds, subprocess wrappers, parallel map."""
import concurrent.futures
import hashlib
import os
import random
import subprocess
import sys
import time

VERIF = os.path.dirname(os.path.dirname(os.path.abspath(__file__)))
REPO = os.environ.get("VERIF_REPO", "/repo")
CACHE = os.path.join(VERIF, ".cache")
RT = os.path.join(VERIF, "rt")
NCPU = int(os.environ.get("VERIF_JOBS", str(os.cpu_count() or 4)))

SBEPP_INC = os.path.join(REPO, "sbepp", "src")
SBEPPC_SRC = os.path.join(REPO, "sbeppc", "src")
FMT_INC = "/root/miniconda/include"
FMT_LIBDIR = "/root/miniconda/lib"


class HarnessError(Exception):
    """Something in the machinery (not the code under test) failed -> exit 2."""


def seed_from_env():
    try:
        return int(os.environ.get("VERIF_SEED", "1"))
    except ValueError:
        return 1


def rng_for(seed, *salt):
    h = hashlib.sha256(("%d|" % seed + "|".join(str(s) for s in salt)).encode()).digest()
    return random.Random(int.from_bytes(h[:8], "big"))


def sha(*parts):
    h = hashlib.sha256()
    for p in parts:
        if isinstance(p, str):
            p = p.encode()
        h.update(p)
        h.update(b"\0")
    return h.hexdigest()


MAX_OUTPUT = 192 << 20


def run(cmd, timeout=600, input=None, env=None, cwd=None, merge_err=True, max_output=MAX_OUTPUT):
    """Run a command; returns (returncode, stdout, stderr, timed_out).
    returncode is negative for signals like subprocess does.  Output beyond max_output bytes is dropped and the
    process is killed (returncode -9, the marker line "[output limit exceeded]" is appended): a driver that runs away
    printing must not take the supervisor down with it."""
    import threading
    e = dict(os.environ)
    if env:
        e.update(env)
    p = subprocess.Popen(cmd, stdin=subprocess.PIPE if input is not None else subprocess.DEVNULL, stdout=subprocess.PIPE,
                         stderr=subprocess.STDOUT if merge_err else subprocess.PIPE, env=e, cwd=cwd)
    state = {"timeout": False, "overflow": False}
    out_chunks, err_chunks = [], []

    def feed():
        try:
            p.stdin.write(input)
        except (BrokenPipeError, OSError):
            pass
        finally:
            try:
                p.stdin.close()
            except OSError:
                pass

    def drain(stream, chunks, limited):
        total = 0
        while True:
            b = stream.read(1 << 20)
            if not b:
                break
            total += len(b)
            if limited and total > max_output:
                if not state["overflow"]:
                    state["overflow"] = True
                    try:
                        p.kill()
                    except OSError:
                        pass
                continue
            chunks.append(b)

    def on_timeout():
        state["timeout"] = True
        try:
            p.kill()
        except OSError:
            pass

    threads = []
    if input is not None:
        threads.append(threading.Thread(target=feed, daemon=True))
    threads.append(threading.Thread(target=drain, args=(p.stdout, out_chunks, True), daemon=True))
    if not merge_err:
        threads.append(threading.Thread(target=drain, args=(p.stderr, err_chunks, True), daemon=True))
    timer = threading.Timer(timeout, on_timeout)
    timer.start()
    for th in threads:
        th.start()
    for th in threads:
        th.join()
    rc = p.wait()
    timer.cancel()
    out = b"".join(out_chunks)
    if state["overflow"]:
        out += b"\n[output limit exceeded]\n"
    if state["timeout"]:
        return None, out, b"", True
    return rc, out, b"".join(err_chunks), False


def pmap(fn, items, workers=None):
    """Thread-pool map (work is in subprocesses). Preserves order."""
    items = list(items)
    if not items:
        return []
    workers = workers or NCPU
    if workers <= 1 or len(items) == 1:
        return [fn(i) for i in items]
    with concurrent.futures.ThreadPoolExecutor(max_workers=workers) as ex:
        return list(ex.map(fn, items))


def log(*a):
    print(*a, file=sys.stderr, flush=True)


class Timer:
    def __init__(self):
        self.t0 = time.time()

    def s(self):
        return round(time.time() - self.t0, 3)


def ensure_dir(p):
    os.makedirs(p, exist_ok=True)
    return p


def write_file(path, data):
    ensure_dir(os.path.dirname(path))
    mode = "wb" if isinstance(data, bytes) else "w"
    tmp = path + ".tmp%d" % os.getpid()
    with open(tmp, mode) as f:
        f.write(data)
    os.replace(tmp, path)


def read_text(path):
    with open(path, "r", errors="replace") as f:
        return f.read()
