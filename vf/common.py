"""Shared helpers: paths, seeds, subprocess wrappers, parallel map."""
import concurrent.futures
import hashlib
import os
import random
import subprocess
import sys
import time

VERIF = os.path.dirname(os.path.dirname(os.path.abspath(__file__)))
REPO = os.environ.get("VERIF_REPO", "/repo")
CACHE = os.path.join(VERIF, ".cache")
RT = os.path.join(VERIF, "rt")
NCPU = int(os.environ.get("VERIF_JOBS", str(os.cpu_count() or 4)))

SBEPP_INC = os.path.join(REPO, "sbepp", "src")
SBEPPC_SRC = os.path.join(REPO, "sbeppc", "src")
FMT_INC = "/root/miniconda/include"
FMT_LIBDIR = "/root/miniconda/lib"


class HarnessError(Exception):
    """Something in the machinery (not the code under test) failed -> exit 2."""


def seed_from_env():
    try:
        return int(os.environ.get("VERIF_SEED", "1"))
    except ValueError:
        return 1


def rng_for(seed, *salt):
    h = hashlib.sha256(("%d|" % seed + "|".join(str(s) for s in salt)).encode()).digest()
    return random.Random(int.from_bytes(h[:8], "big"))


def sha(*parts):
    h = hashlib.sha256()
    for p in parts:
        if isinstance(p, str):
            p = p.encode()
        h.update(p)
        h.update(b"\0")
    return h.hexdigest()


def run(cmd, timeout=600, input=None, env=None, cwd=None, merge_err=True):
    """Run a command; returns (returncode, stdout, stderr, timed_out).
    returncode is negative for signals like subprocess does."""
    e = dict(os.environ)
    if env:
        e.update(env)
    try:
        p = subprocess.run(
            cmd, input=input, stdout=subprocess.PIPE,
            stderr=subprocess.STDOUT if merge_err else subprocess.PIPE,
            timeout=timeout, env=e, cwd=cwd)
        return p.returncode, p.stdout, (p.stderr if not merge_err else b""), False
    except subprocess.TimeoutExpired as ex:
        return None, ex.stdout or b"", b"", True


def pmap(fn, items, workers=None):
    """Thread-pool map (work is in subprocesses). Preserves order."""
    items = list(items)
    if not items:
        return []
    workers = workers or NCPU
    if workers <= 1 or len(items) == 1:
        return [fn(i) for i in items]
    with concurrent.futures.ThreadPoolExecutor(max_workers=workers) as ex:
        return list(ex.map(fn, items))


def log(*a):
    print(*a, file=sys.stderr, flush=True)


class Timer:
    def __init__(self):
        self.t0 = time.time()

    def s(self):
        return round(time.time() - self.t0, 3)


def ensure_dir(p):
    os.makedirs(p, exist_ok=True)
    return p


def write_file(path, data):
    ensure_dir(os.path.dirname(path))
    mode = "wb" if isinstance(data, bytes) else "w"
    tmp = path + ".tmp%d" % os.getpid()
    with open(tmp, mode) as f:
        f.write(data)
    os.replace(tmp, path)


def read_text(path):
    with open(path, "r", errors="replace") as f:
        return f.read()
