#!/bin/bash
# usage: coverage_sbeppc.sh [tier] [checks...]
# Which lines of sbeppc do the workloads of the checks execute?  Builds a gcov variant of sbeppc from the current tree
# (VERIF_SBEPPC_OVERRIDE=cov makes every sbeppc invocation of a check use it), runs the given checks (default: the ones
# whose workload is "schemas through sbeppc") and prints, per source file, executed/executable lines and the
# unexecuted lines grouped by function.  A hole-finder for the workload generators; never part of a verdict, writes
# no evidence (VERIF_EVIDENCE_DIR points to a scratch directory).
tier=${1:-quick}; shift
checks=${@:-C01 C07 C08 C09 C18 C20}
cd "$(dirname "$0")/.." || exit 2
OUT=${COV_OUT:-/tmp/wt/cov_sbeppc}
rm -rf "$OUT"; mkdir -p "$OUT/ev"
export VERIF_SBEPPC_OVERRIDE=cov VERIF_EVIDENCE_DIR=$OUT/ev
exe=$(python3 -c "import sys; sys.path.insert(0,'.'); from vf import build; print(build.sbeppc('cov'))") || exit 2
dir=$(dirname "$exe")
rm -f "$dir"/*.gcda
for c in $checks; do
  ./vcheck $c --tier $tier 2>&1 | grep -E "^OK|^VIOLATION|INCONCLUSIVE|HARNESS" | head -3
done
cd "$OUT" || exit 2
gcno=$(ls "$dir"/sbeppc-cov*main.gcno | head -1)
gcov -p -b -o "$(dirname "$gcno")" "$gcno" > gcov.log 2>&1
python3 - "$OUT" <<'EOF'
import glob, os, re, sys
out = sys.argv[1]
tot_e = tot_x = 0
rows = []
for f in sorted(glob.glob(os.path.join(out, "*sbeppc#*.gcov"))):
    name = os.path.basename(f).split("#sbeppc#")[-1].replace(".gcov", "")
    # template instantiations are listed again after the merged line: a line counts as executed when any of its
    # occurrences was
    best = {}
    text = {}
    for ln in open(f, errors="replace"):
        m = re.match(r"\s*([^:]+):\s*(\d+):(.*)$", ln)
        if not m:
            continue
        c, no, txt = m.group(1).strip(), int(m.group(2)), m.group(3)
        if no == 0 or c == "-":
            continue
        hit = not (c.startswith("#####") or c.startswith("====="))
        best[no] = best.get(no, False) or hit
        text[no] = txt.rstrip()
    ex = sum(1 for v in best.values() if v)
    nx = sum(1 for v in best.values() if not v)
    miss = [(no, text[no]) for no in sorted(best) if not best[no]]
    rows.append((name, ex, ex + nx, miss))
    tot_e += ex
    tot_x += ex + nx
# branch outcomes never observed (exception edges excluded), merged over instantiations: a condition whose one outcome no
# workload produced is a candidate hole even when both of its lines were executed
with open(os.path.join(out, "untaken_branches.txt"), "w") as fh:
    for f in sorted(glob.glob(os.path.join(out, "*sbeppc#*.gcov"))):
        name = os.path.basename(f).split("#sbeppc#")[-1].replace(".gcov", "")
        cur, txt, br = None, {}, {}
        for ln in open(f, errors="replace"):
            m = re.match(r"\s*([^:]+):\s*(\d+):(.*)$", ln)
            if m:
                cur = int(m.group(2))
                txt[cur] = m.group(3).rstrip()
                idx = 0
                continue
            m = re.match(r"branch\s+(\d+) (taken (\d+)|never executed)(.*)$", ln)
            if m and cur:
                if "(throw)" in m.group(4):
                    continue
                k = (cur, int(m.group(1)))
                br[k] = max(br.get(k, 0), int(m.group(3) or 0))
        lines = {}
        for (l, b), n in br.items():
            lines.setdefault(l, []).append((b, n))
        miss = [(l, bs) for l, bs in sorted(lines.items()) if any(n == 0 for _, n in bs) and any(n > 0 for _, n in bs)]
        fh.write("== %s %d lines with an outcome never taken\n" % (name, len(miss)))
        for l, bs in miss:
            fh.write("%6d: %s   [%s]\n" % (l, txt.get(l, "")[:150], " ".join("%d:%d" % x for x in sorted(bs))))
with open(os.path.join(out, "unexecuted.txt"), "w") as fh:
    for name, e, t, miss in rows:
        fh.write("== %s %d/%d\n" % (name, e, t))
        for no, txt in miss:
            fh.write("%6d: %s\n" % (no, txt))
for name, e, t, miss in rows:
    print("%-40s %5d/%5d  %5.1f%%  unexecuted=%d" % (name, e, t, 100.0 * e / max(t, 1), len(miss)))
print("TOTAL %d/%d %.1f%%   details: %s/unexecuted.txt" % (tot_e, tot_x, 100.0 * tot_e / max(tot_x, 1), out))
EOF
