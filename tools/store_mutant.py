#!/usr/bin/env python3
"""store_mutant.py <ID> <N> <json-file with summary/needs/caught_by/missed_before/ran>: copies /tmp/wt/<ID>/mutant to
seeded/<ID>-<N> (without build output) and writes meta.json from the confirm logs in /tmp/wt/demo_<ID>.*"""
import json, os, shutil, subprocess, sys
mid, n, inf = sys.argv[1], sys.argv[2], json.load(open(sys.argv[3]))
base_commit = subprocess.check_output(["git", "-C", "/repo", "rev-parse", "--short", "HEAD"]).decode().strip()
src = "/tmp/wt/%s/mutant" % mid
dst = "/verif/seeded/%s-%s" % (mid, n)
if os.path.exists(dst):
    shutil.rmtree(dst)
shutil.copytree(src, dst, ignore=shutil.ignore_patterns(".build", "build", "*.o", "_build", "out", "gen"))
w = open("/tmp/wt/demo_%s.with" % mid).read()
wo = open("/tmp/wt/demo_%s.without" % mid).read()
meta = {"breaks": mid, "summary": inf["summary"], "needs": inf["needs"], "caught_by": inf["caught_by"],
        "origin": "independent sub-agent given only the property text and a scratch worktree (round %s)" % n,
        "base_commit": inf.get("base_commit", base_commit),
        "confirmed": {"compiles": True, "test_suite": "100% tests passed, 0 tests failed out of 4311 (fresh out-of-tree build of the worktree)",
                      "demo_with_change": w[-700:], "demo_without_change": wo[-400:]},
        "ran": inf["ran"]}
if inf.get("missed_before"):
    meta["missed_before"] = inf["missed_before"]
json.dump(meta, open(dst + "/meta.json", "w"), indent=1)
print("stored", dst)
