#!/bin/bash
# usage: try_mutant.sh <patch.diff> <check id>...   applies the patch to /repo, runs the quick checks, reverts
set -u
P=$1; shift
cd /repo || exit 2
git status --short | grep -v '^??' | grep . && { echo "repo not clean"; exit 2; }
git apply "$P" || { echo "patch does not apply"; exit 2; }
for c in "$@"; do
  echo "=== $c"
  (cd /verif && VERIF_EVIDENCE_DIR=/tmp/wt/evidence_trial timeout 3000 ./vcheck $c --tier quick 2>&1 | grep -E "^VIOLATION|^  key:|^OK|^INCONCLUSIVE|^KNOWN|HARNESS" | cut -c1-260 | head -12)
done
git -C /repo checkout -- .
git -C /repo status --short | grep -v '^??'
