#!/bin/bash
# usage: setup_wt.sh <ID>...   creates a scratch worktree /tmp/wt/<ID> of /repo's HEAD and configures (not builds) a
# test-suite build directory /tmp/wt/scratch_<ID>/build the way the pinned suite is built
for ID in "$@"; do
  W=/tmp/wt/$ID
  git -C /repo worktree remove --force $W 2>/dev/null; rm -rf $W /tmp/wt/scratch_$ID
  git -C /repo worktree add --detach $W HEAD >/dev/null 2>&1 || { echo "worktree failed for $ID"; continue; }
  mkdir -p $W/mutant/demo /tmp/wt/scratch_$ID
  cmake -G Ninja -S $W -B /tmp/wt/scratch_$ID/build -DCMAKE_BUILD_TYPE=RelWithDebInfo -DSBEPP_BUILD_TESTS=ON \
     -DSBEPP_BUILD_SBEPPC=ON -DSBEPP_DEV_MODE=ON -DSBEPP_SEPARATE_TESTS=ON >/tmp/wt/scratch_$ID/configure.log 2>&1 \
     && echo "$ID ready" || echo "$ID configure failed"
done
