#!/bin/bash
# usage: run_all.sh <tier> [seed] [checks...]  -- runs the checks one after another, one summary line each
tier=${1:-quick}; seed=${2:-1}; shift; shift
checks=${@:-C01 C02 C03 C04 C05 C06 C07 C08 C09 C10 C11 C12 C13 C14 C15 C16 C17 C18 C19 C20}
cd "$(dirname "$0")/.."
for c in $checks; do
  s=$(date +%s)
  out=$(VERIF_SEED=$seed ./vcheck $c --tier $tier 2>&1); rc=$?
  e=$(date +%s)
  echo "tier=$tier seed=$seed $c rc=$rc t=$((e-s))s $(echo "$out" | grep -E '^OK|^VIOLATION|^KNOWN|INCONCLUSIVE|HARNESS|^  key' | head -6 | tr '\n' '|' | cut -c1-700)"
done
