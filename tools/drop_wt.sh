#!/bin/bash
# usage: drop_wt.sh <ID>...   removes the scratch worktree and its build output
for ID in "$@"; do
  git -C /repo worktree remove --force /tmp/wt/$ID 2>/dev/null; rm -rf /tmp/wt/$ID /tmp/wt/scratch_$ID /tmp/wt/demo_$ID.*
done
git -C /repo worktree prune
