#!/bin/bash
# usage: confirm_mutant.sh <ID>   (worktree /tmp/wt/<ID> with the change applied, deliverables in mutant/)
ID=$1; W=/tmp/wt/$ID
cd $W || exit 2
echo "--- demo WITH the change"; (bash mutant/demo/run.sh > /tmp/wt/demo_$ID.with 2>&1; echo "exit=$?") | tail -1; tail -2 /tmp/wt/demo_$ID.with | cut -c1-200
git apply -R mutant/patch.diff || { echo "cannot reverse"; exit 2; }
echo "--- demo WITHOUT the change"; (bash mutant/demo/run.sh > /tmp/wt/demo_$ID.without 2>&1; echo "exit=$?") | tail -1; tail -2 /tmp/wt/demo_$ID.without | cut -c1-200
git apply mutant/patch.diff
echo "--- test suite WITH the change (build dir /tmp/wt/scratch_$ID/build)"
cmake --build /tmp/wt/scratch_$ID/build -j8 2>&1 | tail -1 | cut -c1-150
ctest --test-dir /tmp/wt/scratch_$ID/build -j8 --timeout 900 2>&1 | grep "tests passed\|tests failed"
