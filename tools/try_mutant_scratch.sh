#!/bin/bash
# usage: try_mutant_scratch.sh <patch.diff> <check id>...
# Same as try_mutant.sh but on a scratch copy of /repo's HEAD (VERIF_REPO), so that /repo stays untouched while
# long-running checks are in progress.  The scratch copy is removed afterwards.
set -u
P=$1; shift
S=/tmp/wt/try_scr.$$
rm -rf $S; mkdir -p $S
git -C /repo archive HEAD sbepp sbeppc CMakeLists.txt test/schemas | tar -x -C $S || exit 2
(cd $S && git init -q . && git apply "$P") || { echo "patch does not apply"; rm -rf $S; exit 2; }
for c in "$@"; do
  echo "=== $c"
  (cd /verif && VERIF_REPO=$S VERIF_EVIDENCE_DIR=/tmp/wt/evidence_trial timeout 3000 ./vcheck $c --tier quick 2>&1 | grep -E "^VIOLATION|^  key:|^OK|^INCONCLUSIVE|^KNOWN|HARNESS" | cut -c1-260 | head -12)
done
rm -rf $S
