#!/usr/bin/env python3
"""Regenerates /verif/MANIFEST.json from the table below (single source of truth)."""
import json
import os

HERE = os.path.dirname(os.path.dirname(os.path.abspath(__file__)))

CHECKS = {
    # id: (level, technique, level text, level note, design ref)
    "C14": ("exploration",
            "in-process reference oracle over an exhaustive small scope plus seeded samples of large lengths and all byte "
            "values, under ASan+UBSan and sbepp's assertion handler; the same calls evaluated in forced constant "
            "expressions (C++20/2b) and compared with the run-time execution and the reference",
            "Every call of static_array_ref's assign_string/assign_range/assign/fill/strlen/strlen_r in a complete small "
            "scope (all N<=3 quick / N<=6 thorough, all contents and inputs over {NUL,a,b}, all eos modes and overloads, "
            "char/int8/uint8 elements) is executed on the real header and compared byte-for-byte (with guard elements) "
            "against an independent reference; sanitizers watch the same executions. A second driver samples lengths "
            "7..1000 (around every power of two) with contents over all 256 byte values and NULs at every position, a "
            "third evaluates the scope N<=3 (thorough 4) in constant expressions with the array embedded in a larger "
            "buffer. Exhaustive inside the small scope, sampled outside it.",
            "small-scope bounds as stated; lengths above 1000 and contents not drawn by the seeded sampler are not "
            "executed; constant evaluation only for char arrays over char bytes (what sbepp documents as constexpr); "
            "compilers g++12/clang++14",
            "DESIGN.md section 3, C14"),
    "C13": ("exploration",
            "lock-step comparison with a std::vector model after every operation (exhaustive DFS + seeded random walks), "
            "canaries, ASan+UBSan, sbepp assertion handler; the same operation sequences evaluated in forced constant "
            "expressions (C++20/2b) and compared with the run-time execution and the model",
            "Every dynamic_array_ref mutator and reader is driven through all operation sequences to depth 2 (quick) / 3 "
            "(thorough) from every state of size <= 3 and through long random sequences, for all 24 length-type x "
            "element-type x byte-order instantiations; after each transition prefix, payload, returned iterator, "
            "canaries and untouched tail are compared with std::vector (views over char and std::byte), and a vector-valid call that invokes the "
            "assertion handler is a violation. Held on the transitions observed, nothing more.",
            "sequences bounded as stated; operations limited to those valid for a vector that fit the buffer",
            "DESIGN.md section 3, C13"),
    "C15": ("exploration",
            "in-process uint64 bit-arithmetic oracle over generated sets (exhaustive 8/16 bit, patterns+random 32/64), "
            "UBSan shift checks, constexpr evaluation leg",
            "sbeppc generates sets for all four widths with every choice index; each generated getter/setter/by-tag "
            "accessor, ==, raw access and visit is executed on all (8/16 bit) or thousands (32/64 bit) of underlying "
            "values and compared with plain bit arithmetic, at run time and (named and by-tag accessors, raw access, "
            "equality, visiting with a constexpr visitor; C++14 and later) in constant expressions, under UBSan.",
            "32/64-bit values are sampled; g++12/clang++14 only",
            "DESIGN.md section 3, C15"),
    "C12": ("exploration",
            "in-process index-arithmetic oracle over every iterator expression in a small scope on hand-laid images, "
            "ASan+UBSan (pointer/signed overflow), sbepp assertion handler",
            "For all 16 (numInGroup, blockLength) type pairs with the canonical dimension and for 4 type pairs x 4 other "
            "dimension layouts (reversed member order, custom offsets with gaps, numGroups/numVarDataFields behind, extra "
            "members around) sbeppc generates a flat and a nested group; every iterator "
            "expression up to depth 2 (quick) / 3 (thorough), all comparisons/distances for all index pairs, container "
            "accessors and resize/clear are executed on images laid out by hand (sizes 0..3/4, wire block lengths "
            "0/1/4) and compared by address and index; complete inside that scope.",
            "scope bounds as stated; little-endian schema only (byte order is orthogonal to iterator arithmetic)",
            "DESIGN.md section 3, C12"),
    "C16": ("exploration",
            "in-process reference of the documented null/ordering rule over all pairs of a boundary value set, for "
            "generated and built-in types; static min/max/null compared bit-exactly with values computed from the XML",
            "All 11 primitives x built-in wrappers, attribute-less schema types and 2-3 explicit flavours (about 120 types): "
            "every predicate and comparison (incl. <=> on C++20/23) on every ordered pair of boundary values incl. "
            "NaN/inf/-0.0/extremes is executed and compared with the documented rule; defaults compared with the SBE "
            "table. Held on those pairs and types only.",
            "NaN-aware reading of 'is null'; float literals converted like the compiler does (text->double->float)",
            "DESIGN.md section 3, C16"),
    "C20": ("fault_enumeration",
            "LD_PRELOAD fault injection at every output-directed libc call of the release binary (mkdir, fopen, write, writev, "
            "rename/link), one fault per run, plus obstructed destinations in populated trees (every file and every directory of the "
            "reference tree, also directories left empty, incl. a schema without messages); exit status and on-disk bytes "
            "compared with the fault-free run",
            "Every single mkdir/fopen/write/writev call sbeppc makes towards the output directory (counted by a dry run) is "
            "made to fail with ENOSPC/EACCES/EIO, to write short, and to write short then fail, for several schemas; "
            "INJECTED => exit != 0 with a diagnostic, exit 0 => byte-identical files. Complete over single faults at "
            "those call sites for the schemas used; determinism checked over repeated/populated/sanitizer runs.",
            "single fault per run; close()/fsync failures and faults in the input path are outside the property",
            "DESIGN.md section 3, C20"),
    "C01": ("exploration",
            "offline comparison of the whole pre-filled arena after scripted encodes with an independent python encoder; "
            "generated drivers under ASan+UBSan",
            "For the covering corpus and seeded random schemas sbeppc generates headers; generated drivers encode random "
            "value trees in four forms (named, by-tag reversed, cursor, cursor+by-tag) through views over char, unsigned char "
            "and std::byte into a pattern-filled arena which "
            "is compared byte for byte with the pattern overlaid by the reference image (so a symmetric setter/getter "
            "error cannot hide and any stray write shows). Held on the schemas, scripts and configurations explored.",
            "generator domain of DESIGN 2.2 (unsigned level headers, ids/block lengths representable in header members, depth <= 3); the python reference model is the trusted oracle; g++12/clang++14",
            "DESIGN.md section 3, C01"),
    "C02": ("exploration",
            "offline comparison of a canonical value dump read four ways (named, get_by_tag, cursor, cursor+tag) from "
            "images produced by an independent python encoder; exact-size heap copies under ASan; constexpr collector "
            "compared with the same value tree",
            "Every reachable value (fields, composite members, arrays, enums, sets, constants, group sizes, entries, data) "
            "of images the python encoder produced is read back through the generated accessors and compared bit-exactly "
            "(NaN payloads included) for both byte orders and several compiler/standard configurations.",
            "generator domain of DESIGN 2.2 (unsigned level headers, ids/block lengths representable in header members, depth <= 3); the python reference model is the trusted oracle; g++12/clang++14; constant evaluation is exercised by a separate leg (constexpr collector over embedded images, C++20/2b, both compilers) for fields, composite members, enums, sets, sizes and char arrays/data only",
            "DESIGN.md section 3, C02"),
    "C03": ("exploration",
            "decode dumps (random access, cursor, recording visitor) and size_bytes on reference images whose levels "
            "carry independently inflated wire block lengths",
            "Reference images simulate newer schema versions: root block and every group occurrence get their own extra "
            "block length; values, entry positions, sizes, final cursor position and visit events must match the wire "
            "geometry for all three access paths.",
            "generator domain of DESIGN 2.2 (unsigned level headers, ids/block lengths representable in header members, depth <= 3); the python reference model is the trusted oracle; g++12/clang++14; only well-formed extensions",
            "DESIGN.md section 3, C03"),
    "C05": ("exploration",
            "size observations (run-time size_bytes of every view, cursor size, trait-level formulas) compared with the "
            "length of the reference image; UBSan on header-only views with products up to 2^62",
            "All size computations are printed by the driver and compared with sizes derived from the reference image; "
            "integer-promotion behaviour is exercised with numInGroup x blockLength products beyond 2^16/2^31/2^32 for "
            "all 16 dimension type pairs.",
            "generator domain of DESIGN 2.2 (unsigned level headers, ids/block lengths representable in header members, depth <= 3); the python reference model is the trusted oracle; g++12/clang++14; products limited to 2^62 so that address+size is representable",
            "DESIGN.md section 3, C05"),
    "C17": ("exploration",
            "arena comparison after fill_message_header / fill_group_header on pattern-filled buffers against reference "
            "header images; returned view address and size",
            "Header fillers are run for every message and every group level of corpus schemas that vary the header "
            "composites (all unsigned widths, member order, gaps, extra/ref/optional members, counters) and of random "
            "schemas, with numInGroup in {0,1,2,max,random}; all bytes outside the identifying members must keep the "
            "pattern.",
            "generator domain of DESIGN 2.2 (unsigned level headers, ids/block lengths representable in header members, depth <= 3); the python reference model is the trusted oracle; g++12/clang++14",
            "DESIGN.md section 3, C17"),
    "C19": ("exploration",
            "recording visitor event log compared with the model's event sequence for every stopping point; enum/set "
            "visit results compared with the schema",
            "sbepp::visit/visit_children are run with a visitor that logs callback kind, the name its tag's traits give, "
            "the value and the order, once complete and once per stop point k; the log must equal the first k model "
            "events and nothing may follow; both visit overloads; enum (known/unknown) and set visits for every member; "
            "get_by_tag in its plain and cursor overloads (by-tag and cursor+by-tag decode of two images per message) "
            "against the value tree, set_by_tag through the cursor+tag encode form of C01 on the same drivers. Views over "
            "char, unsigned char and std::byte.",
            "generator domain of DESIGN 2.2 (unsigned level headers, ids/block lengths representable in header members, depth <= 3); the python reference model is the trusted oracle; g++12/clang++14; stop points sampled beyond 40 (quick) / 400 (thorough) callbacks",
            "DESIGN.md section 3, C19"),
    "C09": ("exploration",
            "mutation fuzzing and coverage-guided fuzzing (libFuzzer) of the ASan+UBSan+assert build of sbeppc (fmt compiled "
            "in, so its reads are instrumented) and, for every fourth input, of a libstdc++ debug-mode build (safe iterators) "
            "with a process-level monitor (wait status, sanitizer/assert/debug-mode output, "
            "diagnostic line, output directory)",
            "Thousands (quick) to hundreds of thousands (thorough) of structure-aware and byte-level mutants of valid "
            "schemas (every third spread over XIncluded files), include graphs, a typed attribute sweep and an argv grammar are "
            "run through the instrumented sbeppc, plus a coverage-guided leg on the in-process main(); every run must end with "
            "exit 0, or with a non-zero status, an Error line and no generated file. Held on the inputs tried.",
            "one process per input; 25 s watchdog (retry at 75 s) and 3 GB RSS cap decide hang / out-of-memory",
            "DESIGN.md section 3, C09"),
    "C08": ("exploration",
            "single rule-breaking / boundary-valid edits of valid schemas run through the instrumented sbeppc, as one file and "
            "as XInclude multi-file forms; exit status, diagnostic location and output directory compared with the verdict "
            "the edit implies",
            "Each rule sbeppc enforces is broken by exactly one edit at every applicable position class (top level, nested "
            "group, public and inline composite, ref target, header; fixtures for valueRef, constant, encoding-kind and "
            "cross-file duplicate rules) and the matching boundary-valid edit is applied too; accept <=> exit 0 (not a regex "
            "over the output), rejects must be located (in an existing file, at an element start) and leave no file; the "
            "multi-file form of every text must get the same verdict and the same set of generated files.",
            "verdicts follow from the edit class; position sampling capped per rule and schema",
            "DESIGN.md section 3, C08"),
    "C07": ("exploration",
            "compiler exit status on the output of real sbeppc runs: every generated header alone and a generated "
            "touch-everything TU that names every entity through its schema name, over generated schemas incl. a name-"
            "clash pool",
            "The oracle is the compilers' verdict (g++ 12, clang++ 14; C++11..23) on what sbeppc really generated for "
            "corpus, random, clash-pool and special-purpose schemas (incl. --schema-name and --inject-include runs, entities "
            "named like locals of the generated functions: last, args); the TU is spelled from the schema model, never from "
            "sbeppc's mangling tables, so reachability under the unmodified name is part of what compiles. This is a "
            "generated compile test driven by a workload generator rather than an in-process monitor (see DESIGN section 4).",
            "clash pool = fixed names, entity/member names and their mangled variants (X, X_0, X_entry); identifiers that "
            "merely coincide with template parameters of the generated code (Byte, Cursor, Visitor, T) are outside the property's clash domain",
            "DESIGN.md section 3, C07"),
    "C06": ("fault_enumeration",
            "hardware guard page right behind byte n-1 (SIGSEGV trap), verdict compared with an independent wire walk, "
            "logical step counter via sanitizer-coverage edges; every truncation point and every length-field overwrite",
            "size_bytes_checked is called on n-byte buffers that end at a PROT_NONE page for every truncation length of "
            "well-formed images, for every blockLength/numInGroup/length occurrence overwritten with boundary values, and "
            "for random corruptions, for message and group views, in unchecked and checked builds: a read at offset >= n "
            "faults, the returned (valid, size) must equal the model's, and the instrumented-edge count must stay below a "
            "bound linear in n.",
            "reads further than 8 GiB behind the buffer may land in mapped memory unnoticed; work bound = max(1e6, "
            "4000*(n+members+16)) edges; one open known finding (checked builds, wire blockLength below the compiled one)",
            "DESIGN.md section 3, C06"),
    "C18": ("exploration",
            "generic trait dump driven by the tag lists plus named tag-path probes spelled from the schema model, compared "
            "offline with expectations computed from the parsed schema",
            "Every documented trait of every entity reachable through schema_traits/message_traits/group_traits/"
            "composite_traits/enum_traits/set_traits tag lists is printed (optional members through detection, types "
            "through is_same, value_type<->traits_tag round trip, all tag-kind predicates on every tag) and compared with "
            "the model for corpus, random and clash schemas; tag lists are compared in schema order (type_tags as a set).",
            "the python model encodes the documented presence/offset/inheritance rules; traits of built-in types are C16's",
            "DESIGN.md section 3, C18"),
    "C11": ("exploration",
            "generated detection-idiom table for every mutator x byte/cursor constness (printed by running the probe), "
            "confirming negative compiles, and all read-only operations executed on PROT_READ memory through mutable view types",
            "For every generated view class member of corpus and random schemas the probe reports whether each setter form, "
            "header filler, group/array/<data> mutator and conversion is callable; callable must hold exactly when view and "
            "cursor are mutable (mutable rows must be callable, so rejecting everything cannot pass). The run-time half "
            "executes every decode mode, visit and size_bytes_checked on read-only pages: a write is a hardware fault.",
            "the compiler is the oracle of the static half (a generated compile test, see DESIGN section 4); iterator "
            "conversions are not part of the property",
            "DESIGN.md section 3, C11"),
    "C10": ("fault_enumeration",
            "every generated accessor kind executed at every buffer length inside a resume-mode guard-page arena with "
            "sbepp's assertion handler as the observation point; access beyond p+n (hardware fault record) must coincide "
            "with a handler call, and no handler call from the entity's end on",
            "For every message of corpus and random schemas each operation (48 kinds: field/composite/array/<data>/group/"
            "cursor/visit/size) runs once per n = 0..full on a view bound to [p, p+n): a touched byte at or beyond p+n "
            "without the handler is a violation (late checks are counted, not failed); the converse is checked from the "
            "end of the addressed entity and at n = full.",
            "one image per message (all groups non-empty); entry indices first/last; far accesses observable within 8 GiB",
            "DESIGN.md section 3, C10"),
    "C04": ("exploration",
            "generated single-action interpreter in a checked build with sbepp's assertion handler as monitor; breadth-first "
            "closure of reachable cursor states plus hostile states, every (member, wrapper, get/set) action from every "
            "state, compared with a protocol model",
            "For every level instance of exact and block-length-inflated images the reachable cursor positions are closed "
            "under all legal actions (so sequences of any length are covered by their states) and extended with every "
            "member boundary +-1; each action must either agree with random access and leave the cursor at the documented "
            "position, or be reported by the handler with no effect. Complete inside the explored state set.",
            "entry instances limited to first/last per group; (state, action) pairs capped per level instance (reachable "
            "states never dropped); ranges/subranges and whole traversals are covered by C02/C03/C19 cursor modes",
            "DESIGN.md section 3, C04"),
}


def main():
    props = [json.loads(l) for l in open(os.path.join(HERE, "properties.jsonl"))]
    na_reasons = {}
    p = os.path.join(HERE, "tools", "not_applicable.json")
    if os.path.exists(p):
        na_reasons = json.load(open(p))
    checks, na = [], []
    for pr in props:
        i = pr["id"]
        if i in CHECKS:
            level, tech, text, note, ref = CHECKS[i]
            checks.append({
                "property_id": i,
                "quick_cmd": "./vcheck %s --tier quick" % i,
                "thorough_cmd": "./vcheck %s --tier thorough" % i,
                "evidence_file": "/verif/evidence/%s.json" % i,
                "replay_cmd_template": "./vcheck replay {path}",
                "engine": "vcheck",
                "level_claimed": {"category": level, "text": text, "design_ref": ref},
                "level_note": note,
                "technique": tech,
            })
        else:
            na.append({"property_id": i, "reason": na_reasons.get(
                i, "check not built yet (framework under construction; see DESIGN.md)")})
    m = {
        "version": 1,
        "setup_cmd": "./vcheck build",
        "hooks": {
            "guard": "SBEPP_VERIF",
            "enable": "no source hooks are needed: checks observe through sbepp's public assertion handler "
                      "(SBEPP_ENABLE_ASSERTS_WITH_HANDLER), returned values, buffer bytes, process status, guard pages "
                      "and sanitizer callbacks; every check rebuilds sbeppc and its drivers from /repo's working tree",
            "baseline_off_cmd": "cmake --build /repo/_build && ctest --test-dir /repo/_build -j16 --timeout 900",
            "source_commits": [],
            "add_only": True,
        },
        "engines": [{
            "name": "vcheck",
            "path": "/verif/vcheck",
            "serves_properties": [c["property_id"] for c in checks],
            "kind_free_text": "python3 supervisor + generated C++ drivers run under ASan/UBSan, guard pages, "
                              "sbepp's assertion handler and an LD_PRELOAD I/O fault shim; offline checkers compare "
                              "event logs with an independent reference model",
        }],
        "checks": checks,
        "not_applicable": na,
        "notes": "technique family: runtime monitoring and sanitizers; see DESIGN.md. Known findings: known_findings.txt",
    }
    json.dump(m, open(os.path.join(HERE, "MANIFEST.json"), "w"), indent=1)
    print("MANIFEST: %d checks, %d not claimed" % (len(checks), len(na)))


if __name__ == "__main__":
    main()
