#!/bin/bash
# usage: coverage_sbepp.sh [tier] [checks...]
# Which lines of sbepp.hpp (instantiated templates only: gcov cannot see a template nobody instantiates) do the g++
# drivers of the checks execute?  VERIF_DRV_COV=1 makes the build layer add --coverage to every g++ driver; afterwards
# every driver's .gcda is read with gcov and the per-line results for sbepp.hpp are merged ("executed by any driver").
# A hole-finder for the workloads; never part of a verdict, writes no evidence.
tier=${1:-quick}; shift
checks=${@:-C01 C02 C03 C04 C05 C06 C10 C11 C12 C13 C14 C15 C16 C17 C19}
cd "$(dirname "$0")/.." || exit 2
OUT=${COV_OUT:-/tmp/wt/cov_sbepp}
rm -rf "$OUT"; mkdir -p "$OUT/ev" "$OUT/g"
export VERIF_DRV_COV=1 VERIF_EVIDENCE_DIR=$OUT/ev
drv=$(python3 -c "import sys; sys.path.insert(0,'.'); from vf import build; print(build.tree_dir())")/drv
mkdir -p "$drv"; find "$drv" -name '*.gcda' -delete
for c in $checks; do
  ./vcheck $c --tier $tier 2>&1 | grep -E "^OK|^VIOLATION|INCONCLUSIVE|HARNESS" | head -3
done
cd "$OUT/g" || exit 2
n=0
for da in "$drv"/*.gcda; do
  [ -e "$da" ] || continue
  n=$((n+1)); mkdir -p $n
  (cd $n && gcov -p -o "$drv" "$da" > /dev/null 2>&1; ls | grep -v 'sbepp#sbepp.hpp.gcov$' | xargs -r rm -f) &
  [ $((n % 16)) -eq 0 ] && wait
done
wait
python3 - "$OUT" <<'EOF'
import glob, os, re, sys
out = sys.argv[1]
best, text = {}, {}
files = glob.glob(os.path.join(out, "g", "*", "*sbepp#sbepp.hpp.gcov"))
for f in files:
    for ln in open(f, errors="replace"):
        m = re.match(r"\s*([^:]+):\s*(\d+):(.*)$", ln)
        if not m:
            continue
        c, no, txt = m.group(1).strip(), int(m.group(2)), m.group(3)
        if no == 0 or c == "-":
            continue
        hit = not (c.startswith("#####") or c.startswith("====="))
        best[no] = best.get(no, False) or hit
        text[no] = txt.rstrip()
ex = sum(1 for v in best.values() if v)
with open(os.path.join(out, "unexecuted.txt"), "w") as fh:
    for no in sorted(best):
        if not best[no]:
            fh.write("%6d: %s\n" % (no, text[no]))
print("sbepp.hpp: %d driver profiles, %d/%d instantiated lines executed (%.1f%%), details %s/unexecuted.txt" % (
    len(files), ex, len(best), 100.0 * ex / max(1, len(best)), out))
EOF
